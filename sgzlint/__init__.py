"""sgzlint - repository-specific static checks for equinor/seismic-zfp (see /verif/DESIGN.md)."""
