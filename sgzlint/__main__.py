import argparse
import importlib
import json
import os
import sys
import time
import traceback

from .core import Program, Context, AnalysisError, finish, VERIF
from .callgraph import CallGraph

ALL = ['C%02d' % i for i in range(1, 21)]


class Shared:
    """parsed program, call graph and symbolic models, built once per process."""

    def __init__(self):
        self.P = Program()
        self.G = CallGraph(self.P)
        self._models = None

    def models(self):
        if self._models is None:
            from .model import models
            self._models = models(self.P, self.G)
        return self._models


def run_one(prop, shared, tier, seed, only=None):
    try:
        mod = importlib.import_module('sgzlint.rules.' + prop.lower())
    except ModuleNotFoundError:
        print('ANALYSIS-ERROR property=%s no check implemented' % prop)
        return 2
    ctx = Context(prop, shared.P, tier=tier, seed=seed)
    ctx.G = shared.G
    ctx.shared = shared
    ctx.only = only
    try:
        mod.run(ctx)
        if tier == 'thorough' and hasattr(mod, 'run_thorough'):
            mod.run_thorough(ctx)
        if tier == 'thorough' and not only and not os.environ.get('SGZ_NO_SELFTEST'):
            from .core import load_known_findings
            kk = {k['key'] for k in load_known_findings().get('known', []) if k.get('property') == prop}
            if all(f.key in kk for f in ctx.findings):
                from . import selftest
                selftest.run(ctx)
            else:
                ctx.notes.append('self-test not run: the unedited tree already violates the property')
        if only:
            ctx.findings = [f for f in ctx.findings if f.rule == only or f.rule.startswith(only + '.')]
        return finish(ctx, mod.EXPLANATION, mod.ASSUMPTIONS, mod.NOT_DECIDED)
    except AnalysisError as e:
        from .core import load_known_findings as _lkf
        _kk = {k['key'] for k in _lkf().get('known', []) if k.get('property') == prop}
        if [f for f in ctx.findings if f.key not in _kk]:
            # something was already positively identified as violated: report it; the analysis error is a note
            ctx.notes.append('analysis stopped early: %s' % e)
            print('NOTE property=%s analysis stopped early after findings: %s' % (prop, e))
            try:
                ctx.floors = []
                return finish(ctx, mod.EXPLANATION, mod.ASSUMPTIONS, mod.NOT_DECIDED)
            except AnalysisError:
                pass
        print('ANALYSIS-ERROR property=%s %s' % (prop, e))
        return 2
    except Exception as e:   # a crash of the analyser is never a verdict
        traceback.print_exc()
        print('ANALYSIS-ERROR property=%s internal error: %r' % (prop, e))
        return 2


def main():
    ap = argparse.ArgumentParser(prog='check')
    ap.add_argument('prop')
    ap.add_argument('--tier', default=os.environ.get('VERIF_TIER', 'quick'), choices=['quick', 'thorough'])
    ap.add_argument('--only', default=None)
    ap.add_argument('--replay', default=None)
    a = ap.parse_args()
    try:
        seed = int(os.environ.get('VERIF_SEED', '0'))
    except ValueError:
        seed = 0
    only = a.only
    if a.replay:
        with open(a.replay) as f:
            rec = json.load(f)
        only = rec.get('rule')
        print('replaying %s: %s' % (a.replay, rec.get('message')))
    try:
        shared = Shared()
    except AnalysisError as e:
        print('ANALYSIS-ERROR %s' % e)
        return 2
    props = ALL if a.prop == 'all' else [a.prop.upper()]
    rc = 0
    for p in props:
        r = run_one(p, shared, a.tier, seed, only)
        if r == 1:
            rc = 1
        elif r == 2 and rc == 0:
            rc = 2
    return rc


if __name__ == '__main__':
    sys.stdout.reconfigure(line_buffering=True)
    code = main()
    sys.stdout.flush()
    os._exit(code)
