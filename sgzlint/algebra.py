"""E4 - index algebra: polynomials with rational coefficients over named atoms, exact and
floor division with mixed-radix digit reasoning, and a sound non-negativity test.

There is no search and no solver: equality of two normal forms is equality of
dictionaries; a floor division is resolved only when interval reasoning over the
declared ranges of the atoms proves which integer it is (or that it is one of two
adjacent integers, which introduces a canonical 0/1 'carry' atom)."""
import itertools
from fractions import Fraction


class Poly:
    __slots__ = ('t',)

    def __init__(self, terms=None):
        self.t = {k: v for k, v in (terms or {}).items() if v != 0}

    @staticmethod
    def const(c):
        return Poly({(): Fraction(c)})

    @staticmethod
    def atom(a):
        return Poly({((a, 1),): Fraction(1)})

    def __add__(self, o):
        o = _coerce(o)
        d = dict(self.t)
        for k, v in o.t.items():
            d[k] = d.get(k, 0) + v
        return Poly(d)

    __radd__ = __add__

    def __neg__(self):
        return Poly({k: -v for k, v in self.t.items()})

    def __sub__(self, o):
        return self + (-_coerce(o))

    def __rsub__(self, o):
        return _coerce(o) - self

    def __mul__(self, o):
        o = _coerce(o)
        d = {}
        for (k1, v1), (k2, v2) in itertools.product(self.t.items(), o.t.items()):
            m = {}
            for a, e in k1 + k2:
                m[a] = m.get(a, 0) + e
            k = tuple(sorted((a, e) for a, e in m.items() if e != 0))
            d[k] = d.get(k, 0) + v1 * v2
        return Poly(d)

    __rmul__ = __mul__

    def __eq__(self, o):
        if not isinstance(o, Poly):
            try:
                o = _coerce(o)
            except TypeError:
                return False
        return self.t == o.t

    def __hash__(self):
        return hash(tuple(sorted(self.t.items())))

    def is_zero(self):
        return not self.t

    def is_const(self):
        return all(k == () for k in self.t)

    def const_value(self):
        if self.is_const():
            return self.t.get((), Fraction(0))
        return None

    def is_monomial(self):
        return len(self.t) == 1

    def atoms(self):
        s = set()
        for k in self.t:
            for a, e in k:
                s.add(a)
        return s

    def terms(self):
        return [Poly({k: v}) for k, v in self.t.items()]

    def subst(self, mapping):
        """substitute atoms by polys."""
        out = Poly()
        for k, v in self.t.items():
            term = Poly.const(v)
            for a, e in k:
                base = mapping.get(a)
                if base is None:
                    base = Poly({((a, 1),): Fraction(1)})
                    if e < 0:
                        term = term * Poly({((a, e),): Fraction(1)})
                        continue
                elif e < 0:
                    raise ValueError('negative power of substituted atom %s' % a)
                for _ in range(e):
                    term = term * base
            out = out + term
        return out

    def coeff_of(self, mono):
        return self.t.get(mono, Fraction(0))

    def __repr__(self):
        if not self.t:
            return '0'
        out = []
        for k, v in sorted(self.t.items(), key=lambda kv: (len(kv[0]), kv[0])):
            m = '*'.join(a if e == 1 else '%s^%d' % (a, e) for a, e in k)
            if not m:
                out.append(str(v))
            elif v == 1:
                out.append(m)
            elif v == -1:
                out.append('-' + m)
            else:
                out.append('%s*%s' % (v, m))
        return ' + '.join(out).replace('+ -', '- ')


def _coerce(o):
    if isinstance(o, Poly):
        return o
    if isinstance(o, (int, Fraction)):
        return Poly.const(o)
    if isinstance(o, float) and o == int(o):
        return Poly.const(int(o))
    raise TypeError('cannot coerce %r to Poly' % (o,))


C = Poly.const
A = Poly.atom


class Atoms:
    """Range table for atoms: name -> (lo Poly, hi Poly or None) meaning lo <= atom < hi.
    Atoms not in the table are unconstrained integers (no sign assumed)."""

    def __init__(self):
        self.rng = {}
        self.meta = {}
        self._floors = {}
        self.splits = {}

    def declare(self, name, lo=None, hi=None, **meta):
        self.rng[name] = (None if lo is None else _coerce(lo), None if hi is None else _coerce(hi))
        self.meta[name] = meta
        return A(name)

    def has(self, name):
        return name in self.rng

    def axis(self, name):
        return self.meta.get(name, {}).get('axis')

    def kind(self, name):
        return self.meta.get(name, {}).get('kind')

    def copy(self):
        a = Atoms()
        a.rng = dict(self.rng)
        a.meta = dict(self.meta)
        a._floors = dict(self._floors)
        a.splits = dict(self.splits)
        return a

    # -- bounds -----------------------------------------------------------
    def nonneg(self, p, depth=0):
        """Sound test for p >= 0 under the declared ranges.  False means 'not proved'."""
        p = _coerce(p)
        if p.is_zero():
            return True
        if depth > 8:
            return False
        if any(e < 0 for k in p.t for a, e in k):
            return False
        # choose a substitution per atom from the sign of the terms it occurs in
        signs = {}
        for k, v in p.t.items():
            for a, e in k:
                signs.setdefault(a, set()).add(v > 0)
        if not signs:
            return p.t.get((), 0) >= 0
        mapping = {}
        for a, sg in signs.items():
            lo, hi = self.rng.get(a, (None, None))
            prime = a + "'"
            if a.endswith("'"):
                # fresh slack atom: >= 0, no upper bound
                if sg != {True}:
                    return False
                continue
            if sg == {True}:
                if lo is None:
                    return False
                mapping[a] = lo + A(prime)
            elif sg == {False}:
                if hi is None:
                    return False
                mapping[a] = hi - 1 - A(prime)
            else:
                # mixed signs: only provable if the atom has an exact value range of width 1
                if lo is not None and hi is not None and (hi - lo) == C(1):
                    mapping[a] = lo
                elif lo is not None:
                    mapping[a] = lo + A(prime)
                else:
                    return False
        if not mapping:
            return all(v >= 0 for v in p.t.values())
        try:
            q = p.subst(mapping)
        except ValueError:
            return False
        if all(v >= 0 for v in q.t.values()) and all(a.endswith("'") or self._lo_nonneg(a) for a in q.atoms()):
            return True
        if q == p:
            return False
        return self.nonneg(q, depth + 1)

    def _lo_nonneg(self, a):
        lo, hi = self.rng.get(a, (None, None))
        return lo is not None and lo.is_const() and lo.const_value() >= 0

    def positive(self, p):
        return self.nonneg(_coerce(p) - 1)

    def bounds(self, p):
        """(LB, UB) polys with LB <= p <= UB obtained by replacing each *finite-range* atom occurring
        with a definite sign by its extreme; atoms with open ranges stay symbolic.  None if impossible."""
        p = _coerce(p)
        lb, ub = Poly(), Poly()
        for k, v in p.t.items():
            # only linear occurrences of ranged atoms multiplied by non-negative atoms are handled
            lo_t, hi_t = Poly.const(v), Poly.const(v)
            for a, e in k:
                if e < 0:
                    return None
                lo, hi = self.rng.get(a, (None, None))
                finite = lo is not None and hi is not None and self.meta.get(a, {}).get('kind') in (
                    'digit', 'loop', 'carry')
                if finite:
                    if e != 1:
                        return None
                    if v > 0:
                        lo_t, hi_t = lo_t * lo, hi_t * (hi - 1)
                    else:
                        lo_t, hi_t = lo_t * (hi - 1), hi_t * lo
                else:
                    if not self._lo_nonneg(a):
                        return None
                    ap = Poly({((a, e),): Fraction(1)})
                    lo_t, hi_t = lo_t * ap, hi_t * ap
            lb, ub = lb + lo_t, ub + hi_t
        return lb, ub

    # -- division ---------------------------------------------------------
    def exact_div(self, p, d):
        """p / d when every term divides exactly (non-negative powers, integer coefficients); else None."""
        p, d = _coerce(p), _coerce(d)
        if not d.is_monomial():
            return None
        (dk, dv), = d.t.items()
        out = {}
        for k, v in p.t.items():
            m = dict(k)
            for a, e in dk:
                m[a] = m.get(a, 0) - e
            if any(e < 0 for e in m.values()):
                return None
            c = v / dv
            if c.denominator != 1:
                return None
            out[tuple(sorted((a, e) for a, e in m.items() if e != 0))] = c
        return Poly(out)

    rational_const_div = False

    def poly_div(self, p, d):
        """exact quotient p / d for a non-monomial divisor (multivariate long division), else None."""
        p, d = _coerce(p), _coerce(d)
        if d.is_zero():
            return None
        key = lambda kv: (sum(e for a, e in kv[0]), kv[0])
        dl_k, dl_v = max(d.t.items(), key=key)
        q = Poly()
        rem = Poly(dict(p.t))
        for _ in range(200):
            if rem.is_zero():
                return q
            rl_k, rl_v = max(rem.t.items(), key=key)
            m = dict(rl_k)
            for a, e in dl_k:
                m[a] = m.get(a, 0) - e
            if any(e < 0 for e in m.values()):
                return None
            t = Poly({tuple(sorted((a, e) for a, e in m.items() if e != 0)): rl_v / dl_v})
            q = q + t
            rem = rem - t * d
        return None

    def split_loop(self, a, d):
        """loop atom a ranging over count = c*d is the two-digit number  d*a.hi + a.lo  (a.lo < d, a.hi < c)."""
        if a in self.splits:
            return self.splits[a][0] == d
        meta = self.meta.get(a, {})
        cnt = meta.get('count')
        if meta.get('kind') != 'loop' or not isinstance(cnt, Poly):
            return False
        c = self.exact_div(cnt, d) if d.is_monomial() else None
        if c is None or c == cnt or c.is_const():
            return False
        hi = self.declare(a + '.hi', 0, c, kind='loop', count=c, parent=a, node=meta.get('node'))
        lo = self.declare(a + '.lo', 0, d, kind='loop', count=d, parent=a, node=meta.get('node'))
        self.splits[a] = (d, d * hi + lo)
        return True

    def canon(self, p):
        """apply the registered loop splits."""
        if not isinstance(p, Poly) or not self.splits:
            return p
        m = {a: v[1] for a, v in self.splits.items() if a in p.atoms()}
        return p.subst(m) if m else p

    def floordiv(self, p, d):
        p, d = _coerce(p), _coerce(d)
        if d == C(1):
            return p
        if not d.is_monomial():
            q = self.poly_div(p, d)
            if q is not None:
                return q
        # a loop variable over a product range divided by one factor of the range: split it into two digits
        if d.is_monomial() and not d.is_const():
            for a in list(p.atoms()):
                if self.meta.get(a, {}).get('kind') == 'loop' and a not in self.splits and \
                        p.coeff_of(((a, 1),)) == 1:
                    self.split_loop(a, d)
        p = self.canon(p)
        if self.rational_const_div and d.is_const() and d.const_value() > 0 and not p.is_const():
            return p * C(1 / d.const_value())
        if p.is_const() and d.is_const() and d.const_value() != 0:
            import math
            return C(math.floor(p.const_value() / d.const_value()))
        if not d.is_monomial():
            return self._opaque(p, d)
        (dk, dv), = d.t.items()
        if dv <= 0:
            return self._opaque(p, d)
        # floor(floor(x/a)/b) = floor(x/(a*b)) for positive integers a, b
        if p.is_monomial():
            (pk, pv), = p.t.items()
            if pv == 1 and len(pk) == 1 and pk[0][1] == 1 and pk[0][0] in self._floors:
                x, a = self._floors[pk[0][0]]
                return self.floordiv(x, a * d)
        exact, rem = Poly(), Poly()
        for k, v in p.t.items():
            q = self.exact_div(Poly({k: v}), d)
            if q is not None:
                exact = exact + q
            else:
                rem = rem + Poly({k: v})
        if rem.is_zero():
            return exact
        b = self.bounds(rem)
        if b is not None:
            lb, ub = b
            for k in (0, -1, 1, -2, 2):
                # k*d <= rem < (k+1)*d
                if self.nonneg(lb - k * d) and self.nonneg((k + 1) * d - 1 - ub):
                    return exact + k
            for k in (0, -1, 1, -2):
                if self.nonneg(lb - k * d) and self.nonneg((k + 2) * d - 1 - ub):
                    carry = self._carry(rem - (k + 1) * d)
                    return exact + k + carry
        return exact + self._opaque(rem, d)

    def _opaque(self, p, d):
        name = 'floor((%r)/(%r))' % (p, d)
        self._floors[name] = (p, d)
        if name not in self.rng:
            self.declare(name, None, None, kind='opaque')
        return A(name)

    def _carry(self, p):
        """0/1 indicator of p >= 0, named canonically by the normal form of p.
        For integer p:  [p >= 0] = 1 - [-p - 1 >= 0]; the form whose first non-constant term has a
        positive coefficient is the canonical one."""
        nonconst = sorted((k, v) for k, v in p.t.items() if k != ())
        if nonconst and nonconst[0][1] < 0:
            return C(1) - self._carry(-p - 1)
        name = '[%r>=0]' % (p,)
        if name not in self.rng:
            self.declare(name, 0, 2, kind='carry', of=p)
        return A(name)

    def mod(self, p, d):
        p, d = _coerce(p), _coerce(d)
        q = self.floordiv(p, d)
        return self.canon(p) - d * q

    def ceildiv(self, p, d):
        return self.floordiv(_coerce(p) + _coerce(d) - 1, d)

    def has_opaque(self, p):
        return any(self.kind(a) == 'opaque' for a in _coerce(p).atoms())
