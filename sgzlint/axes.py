"""E3 - axis / kind tags inferred from the names the code itself uses.

A tag is (kind, axis) with kind in COUNT / ORIGIN / STEP / BLOCKSHAPE / INDEX / END / RATE and
axis in IL / XL / Z / TRACE.  Tags flow through the arithmetic that keeps a single axis;
anything mixed or unknown yields None and is never reported ("definite vs definite" only).
"""
import ast
import re
from .core import U

AXES = ('IL', 'XL', 'Z')


def axis_of_text(t):
    """axis named by an identifier-ish text, or None / 'MIXED'."""
    n = t.lower()
    n = n.replace('self.', '').replace('geom.', '').replace('seismicfile.', '').replace('seismic.', '') \
        .replace('source.', '').replace('reader.', '').replace('sgz_reader.', '')
    hits = set()
    if re.search(r'(^|[^a-z])(xl|xline|xlines|crossline|crosslines)([^a-z]|$)', n) or 'n_xl' in n or '_xl' in n or \
            n.startswith('xl') or 'xline' in n or 'crossline' in n:
        hits.add('XL')
    n2 = re.sub(r'xl|xline|crossline', '#', n)
    if re.search(r'(^|[^a-z])(il|iline|ilines|inline|inlines)([^a-z]|$)', n2) or 'n_il' in n2 or '_il' in n2 or \
            n2.startswith('il') or 'iline' in n2 or 'inline' in n2:
        hits.add('IL')
    n3 = re.sub(r'zfp|sgz|size|zip|zeros|zgy', '#', n2)
    if re.search(r'(^|[^a-z])z([^a-z]|$)', n3) or 'sample' in n3 or 'zslice' in n3 or 'trace_length' in n3 or \
            n3.startswith('z_') or '_z' in n3 or 'zmin' in n3 or n3 in ('samples',):
        hits.add('Z')
    if len(hits) == 1:
        return hits.pop()
    if len(hits) > 1:
        return 'MIXED'
    return None


def _strip(e):
    """peel value-preserving wrappers: int(..), np.int32(..), np.array(..), float(..)"""
    while isinstance(e, ast.Call) and len(e.args) == 1 and not e.keywords and \
            U(e.func).split('.')[-1] in ('int', 'int32', 'int64', 'intc', 'array', 'asarray', 'float', 'round', 'rint',
                                         'abs', 'float64'):
        e = e.args[0]
    return e


def role_of(e, resolve=None, depth=0):
    """(kind, axis) of an expression, None if unknown.  ``resolve(name)`` returns the defining
    expression node of a local name on the current path (or None)."""
    if e is None or depth > 5:
        return None
    e = _strip(e)
    if isinstance(e, ast.IfExp):
        a, b = role_of(e.body, resolve, depth + 1), role_of(e.orelse, resolve, depth + 1)
        if a == b:
            return a
        if a is not None and b is not None:
            return ('CONFLICT', (a, b))
        return None
    if isinstance(e, ast.BinOp):
        if isinstance(e.op, ast.Mult):
            # scaling by a constant keeps the role
            l, r = _strip(e.left), _strip(e.right)
            if isinstance(l, ast.Constant):
                return role_of(r, resolve, depth + 1)
            if isinstance(r, ast.Constant):
                return role_of(l, resolve, depth + 1)
            return None
        if isinstance(e.op, ast.Sub):
            l, r = _strip(e.left), _strip(e.right)
            # X[1] - X[0]   -> STEP axis(X)
            if isinstance(l, ast.Subscript) and isinstance(r, ast.Subscript) and U(l.value) == U(r.value) and \
                    isinstance(l.slice, ast.Constant) and isinstance(r.slice, ast.Constant) and \
                    l.slice.value - r.slice.value == 1:
                ax = axis_of_text(U(l.value))
                if ax not in AXES:
                    return None
                # difference of the two ends of an index range is a count; of two neighbours of an axis list a step
                if 'range' in U(l.value).lower():
                    return ('COUNT', ax)
                return ('STEP', ax)
            return None
        return None
    if isinstance(e, ast.Call):
        fn = U(e.func)
        if fn == 'len' and e.args:
            ax = axis_of_text(U(e.args[0]))
            if ax in AXES:
                return ('COUNT', ax)
            if 'traces' in U(e.args[0]):
                return ('COUNT', 'TRACE')
            return None
        return None
    if isinstance(e, ast.Subscript):
        base = U(e.value)
        if 'blockshape' in base.lower() and isinstance(e.slice, ast.Constant) and e.slice.value in (0, 1, 2):
            return ('BLOCKSHAPE', AXES[e.slice.value])
        ax = axis_of_text(base)
        if ax in AXES and not isinstance(e.slice, ast.Slice):
            # element of an axis list: a coordinate of that axis; [0]/[origin] -> ORIGIN
            return ('ORIGIN', ax)
        return None
    if isinstance(e, (ast.Name, ast.Attribute)):
        t = U(e)
        low = t.lower().split('.')[-1]
        if resolve is not None and isinstance(e, ast.Name):
            d = resolve(t)
            if d is not None:
                r = role_of(d, resolve, depth + 1)
                if r is not None:
                    return r
        ax = axis_of_text(t)
        if low in ('bpv', 'bits_per_voxel', 'rate'):
            return ('RATE', None)
        if ax not in AXES:
            if low in ('tracecount', 'n_traces'):
                return ('COUNT', 'TRACE')
            return None
        if low.startswith('n_') or low.startswith('len_') or low in ('trace_length',) or low.endswith('_count'):
            return ('COUNT', ax)
        if low.startswith('min_') or low.endswith('min') or low.startswith('first_'):
            return ('ORIGIN', ax)
        if 'step' in low or 'interval' in low or low.endswith('inc') or 'sample_rate' in low:
            return ('STEP', ax)
        return None
    return None
