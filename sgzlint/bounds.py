"""Guard-dominance analysis for index-like parameters (C14, reused by C09/C10/C13).

Obligation O(M, p): on every path from the entry of a public method M to a *sink*
reached by a value derived from parameter p, facts bounding p against the REAL extent
of its axis hold (or p is None / sanitised / delegated to a callee that discharges it).
"""
import ast
from .core import U, AnalysisError
from .facts import tokens
from . import readerfacts as RF

RELAX_FLAGS = ('access_padding',)
NON_INDEX_PARAMS = {'self', 'access_padding', 'multithreading', 'override_unstructured_mapping', 'load_all_headers',
                    'include_padding', 'tracefields', 'tracefield', 'file', 'filetype_checking', 'preload',
                    'chunk_cache_size', 'include_stop', 'out_file', 'filename', 'mode'}


def param_kind(name):
    n = name.lower()
    return 'end' if (n.startswith('max') or 'stop' in n) else 'index'


class BoundsAnalysis:
    def __init__(self, P, G):
        self.P, self.G = P, G
        self.san = RF.sanitiser_functions(P, G)
        self.reader_cls = RF.reader_classes(P)
        self.loader_cls = [P.cls('loader.SgzLoader')] + P.cls('loader.SgzLoader').all_subclasses()
        self.summ = {}
        self.inprog = set()
        self.fms = {}
        self.records = []     # (M, mode, p, sink node, status, why)

    # ------------------------------------------------------------------ helpers
    def fm(self, f, mode, relaxed=False):
        key = (f.qualname, mode, relaxed)
        if key not in self.fms:
            extra = [] if relaxed else [('F', fl) for fl in RELAX_FLAGS if fl in f.params]
            self.fms[key] = RF.factmap(self.P, f, mode, extra)
        return self.fms[key]

    def is_reader_method(self, t):
        return t is not None and t.cls is not None and any(c in self.reader_cls for c in t.cls.mro)

    def is_loader_method(self, t):
        return t is not None and t.cls is not None and t.cls in self.loader_cls

    def _clean_call(self, f, call):
        """calls whose result does not carry an unchecked index: sanitisers, slice.indices, len, exact arrays."""
        txt = U(call.func)
        if txt in ('len', 'isinstance', 'range', 'slice') and txt != 'range' and txt != 'slice':
            return True
        if txt.endswith('.indices') or txt.endswith('.format') or txt.endswith('.copy') or txt.endswith('.items'):
            return True
        es = self.G.edges_at(f, call)
        if es and all(e.target is not None and e.target.qualname in self.san for e in es):
            return True
        return False

    def tainted_names_in(self, f, expr, tainted):
        """names of ``tainted`` occurring in expr outside sanitising sub-expressions."""
        found = set()

        def walk(n):
            if isinstance(n, ast.Call) and self._clean_call(f, n):
                return
            if RF.is_exact_array_subscript(n):
                walk(n.value) if not isinstance(n.value, (ast.Name, ast.Attribute)) else None
                return
            if isinstance(n, ast.Name) and n.id in tainted:
                found.add(n.id)
            for c in ast.iter_child_nodes(n):
                walk(c)
        if expr is not None:
            walk(expr)
        return found

    def taint(self, f):
        """param -> set of local names (incl. itself) carrying a value derived from it (flow-insensitive)."""
        out = {}
        params = [p for p in (f.params + f.kwonly) if p not in NON_INDEX_PARAMS]
        assigns = []
        for n in ast.walk(f.node):
            if isinstance(n, ast.Assign):
                for t in n.targets:
                    assigns.append((t, n.value))
            elif isinstance(n, ast.AugAssign):
                assigns.append((n.target, n.value))
            elif isinstance(n, ast.For):
                assigns.append((n.target, n.iter))
            elif isinstance(n, ast.comprehension):
                assigns.append((n.target, n.iter))
        for p in params:
            t = {p}
            changed = True
            while changed:
                changed = False
                for tgt, val in assigns:
                    if self.tainted_names_in(f, val, t):
                        names = set()
                        self._targets(tgt, val, t, f, names)
                        if not names <= t:
                            t |= names
                            changed = True
            out[p] = t
        return out

    def _targets(self, tgt, val, t, f, names):
        if isinstance(tgt, ast.Name):
            names.add(tgt.id)
        elif isinstance(tgt, (ast.Tuple, ast.List)):
            if isinstance(val, (ast.Tuple, ast.List)) and len(val.elts) == len(tgt.elts):
                for a, b in zip(tgt.elts, val.elts):
                    if self.tainted_names_in(f, b, t):
                        self._targets(a, b, t, f, names)
            else:
                for a in tgt.elts:
                    self._targets(a, val, t, f, names)

    def derived_from(self, f, expr, p, names, facts, depth=0):
        """is ``expr`` derived from parameter p on the path described by ``facts``?  Follows the path's
        ('def', x, e) and loop ('in', x, iter) facts backwards; falls back to the flow-insensitive taint
        set ``names`` for locals without a definition fact on this path."""
        if depth > 6:
            return bool(self.tainted_names_in(f, expr, names))
        defs, loops = {}, {}
        for a in facts:
            if a[0] == 'def':
                defs[a[1]] = a[2]
            elif a[0] == 'in':
                loops[a[1]] = a[2]
        for nm in self.tainted_names_in(f, expr, names):
            if nm in defs and nm != p:
                src = defs[nm]
            elif nm in loops and nm != p:
                src = loops[nm]
            else:
                tup = [k for k in loops if nm in tokens(k)] if nm != p else []
                if tup:
                    src = loops[tup[0]]
                elif nm == p:
                    if p in defs:
                        try:
                            if isinstance(ast.parse(defs[p], mode='eval').body, ast.Constant):
                                continue
                        except SyntaxError:
                            pass
                    return True
                else:
                    return True     # no definition fact on this path: keep the flow-insensitive answer
            try:
                e = ast.parse(src, mode='eval').body
            except SyntaxError:
                return True
            for n in ast.walk(e):
                for c in ast.iter_child_nodes(n):
                    c._parent = n
            if self.derived_from(f, e, p, names, facts, depth + 1):
                return True
        return False

    # ------------------------------------------------------------------ sinks
    def sinks(self, f):
        """-> list of (node, kind, [(arg expr, callee param or None)], targets, relaxing)"""
        out = []
        padded = set()
        for n in ast.walk(f.node):
            if isinstance(n, ast.Assign) and isinstance(n.value, ast.Call):
                if self._returns_padded(f, n.value):
                    for t in n.targets:
                        if isinstance(t, ast.Name):
                            padded.add(t.id)
        # propagate through simple aliases (trace = chunk[...])
        changed = True
        while changed:
            changed = False
            for n in ast.walk(f.node):
                if isinstance(n, ast.Assign) and len(n.targets) == 1 and isinstance(n.targets[0], ast.Name):
                    v = n.value
                    base = v
                    while isinstance(base, ast.Subscript):
                        base = base.value
                    if isinstance(base, ast.Name) and base.id in padded and n.targets[0].id not in padded:
                        padded.add(n.targets[0].id)
                        changed = True
        for n in ast.walk(f.node):
            if isinstance(n, ast.Call):
                es = self.G.edges_at(f, n)
                tg = [e for e in es if e.target is not None]
                if not tg:
                    continue
                if all(self.is_loader_method(e.target) for e in tg):
                    args = [(a, None) for a in n.args] + [(k.value, k.arg) for k in n.keywords]
                    out.append((n, 'loader', args, tg, False))
                elif all(e.target.qualname in ('utils.read_range_file', 'utils.read_range_blob') for e in tg):
                    if len(n.args) >= 2:
                        out.append((n, 'range-read', [(n.args[1], 'offset')], tg, False))
                elif all(self.is_reader_method(e.target) for e in tg) and not \
                        all(e.target.qualname in self.san for e in tg):
                    e0 = tg[0]
                    args = [(v, p) for p, v in e0.binding.items()]
                    relaxing = any(p in RELAX_FLAGS and not (isinstance(v, ast.Constant) and v.value is False)
                                   for p, v in e0.binding.items())
                    out.append((n, 'delegate', args, tg, relaxing))
            elif isinstance(n, ast.Subscript) and isinstance(n.ctx, ast.Load):
                base = n.value
                if isinstance(base, ast.Name) and base.id in padded:
                    out.append((n, 'padded-subscript', [(n.slice, None)], [], False))
                elif isinstance(base, ast.Call) and self._returns_padded(f, base):
                    out.append((n, 'padded-subscript', [(n.slice, None)], [], False))
        return out

    def _returns_padded(self, f, call):
        es = [e for e in self.G.edges_at(f, call) if e.target is not None]
        if not es:
            return False
        if all(self.is_loader_method(e.target) for e in es):
            return True
        for e in es:
            if self.is_reader_method(e.target):
                if any(p in RELAX_FLAGS and not (isinstance(v, ast.Constant) and v.value is False)
                       for p, v in e.binding.items()):
                    return True
                if e.target.name.startswith('_read_containing'):
                    return True
        return False

    # ------------------------------------------------------------------ bounded?
    def bounded(self, p, facts, fm, mode, kind=None):
        """-> (ok, reason)"""
        kind = kind or param_kind(p)
        axis = RF.axis_of_name(p, mode)
        if ('is', p, 'None') in facts:
            return True, 'is None on this path'
        for a in facts:
            if a[0] == 'def' and a[1] == p:
                try:
                    e = ast.parse(a[2], mode='eval').body
                except SyntaxError:
                    continue
                if isinstance(e, ast.Constant):
                    return True, 'overwritten by constant %s' % a[2]
                # p = g(p): the facts that follow bound the MAPPED value.  Unless g is a sanitiser (subscript of an
                # exact-length array, coord_to_index, ..) the original argument must have been bounded before the mapping.
                f_ = getattr(fm, 'func_info', None)
                if f_ is not None and self.tainted_names_in(f_, e, {p}):
                    st = [n for n in ast.walk(f_.node) if isinstance(n, (ast.Assign, ast.AugAssign)) and
                          U(n.targets[0] if isinstance(n, ast.Assign) else n.target) == p and U(n.value) == a[2]]
                    if st:
                        pre = fm.facts_at(st[0]) or frozenset()
                        pre = frozenset(x for x in pre if not (x[0] == 'def' and x[1] == p))
                        lo0 = self._lower(p, pre, axis, 0)
                        up0 = self._upper(p, pre, fm, axis, kind, 0)
                        if not (lo0 and up0):
                            return False, ('the argument is re-mapped by `%s` before any bounds check: the later check applies to '
                                           'the mapped value, so out-of-range (e.g. negative) ordinals can be mapped into range' % a[2][:60])
        lo = self._lower(p, facts, axis, 0)
        up = self._upper(p, facts, fm, axis, kind, 0)
        if lo and up:
            return True, 'facts %s and %s' % (lo, up)
        missing = []
        if not lo:
            missing.append('no lower bound')
        if not up:
            missing.append('no %s upper bound against the real %s extent' % (
                'strict' if kind == 'index' else 'inclusive', axis or 'axis'))
        return False, ', '.join(missing)

    def _lower(self, p, facts, axis, depth):
        for a in facts:
            if a[0] in ('<', '<=') and a[2] == p:
                L = a[1]
                if L in ('0',) or (a[0] == '<' and L in ('-1', '0')):
                    return '%s %s %s' % (L, a[0], p)
                if axis == 'DIAG' and L.startswith('-') and L[1:] in RF.REAL_ATOMS:
                    if p == 'cd_id' and not (a[0] == '<' and L[1:] in ('self.n_xlines', 'len(self.xlines)')):
                        continue
                    return '%s %s %s' % (L, a[0], p)
                if depth < 2 and L != p and not L.lstrip('-').isdigit():
                    r = self._lower(L, facts, axis, depth + 1)
                    if r:
                        return '%s %s %s (%s)' % (L, a[0], p, r)
        return None

    @staticmethod
    def _diag_poly(txt):
        """{'il': a, 'xl': b, 'c': c} for a*n_ilines + b*n_xlines + c, else None"""
        try:
            e = ast.parse(txt, mode='eval').body
        except SyntaxError:
            return None

        def ev(x):
            if isinstance(x, ast.Constant) and isinstance(x.value, int):
                return {'il': 0, 'xl': 0, 'c': x.value}
            t = U(x)
            if t in ('self.n_ilines', 'len(self.ilines)'):
                return {'il': 1, 'xl': 0, 'c': 0}
            if t in ('self.n_xlines', 'len(self.xlines)'):
                return {'il': 0, 'xl': 1, 'c': 0}
            if isinstance(x, ast.UnaryOp) and isinstance(x.op, ast.USub):
                v = ev(x.operand)
                return None if v is None else {k: -v[k] for k in v}
            if isinstance(x, ast.BinOp) and isinstance(x.op, (ast.Add, ast.Sub)):
                l, r = ev(x.left), ev(x.right)
                if l is None or r is None:
                    return None
                sg = 1 if isinstance(x.op, ast.Add) else -1
                return {k: l[k] + sg * r[k] for k in l}
            return None
        return ev(e)

    def _upper(self, p, facts, fm, axis, kind, depth):
        for a in facts:
            if a[0] in ('<', '<=') and a[1] == p:
                H = a[2]
                if axis == 'DIAG' and depth == 0 and p in ('ad_id', 'cd_id'):
                    # the number of diagonals is exact: n_il + n_xl - 1 anticorrelated ones, correlated ids in (-n_xl, n_il)
                    hp = self._diag_poly(H)
                    if hp is None:
                        continue
                    off = 0 if a[0] == '<' else 1
                    want = {'il': 1, 'xl': 1, 'c': -1 - off} if p == 'ad_id' else {'il': 1, 'xl': 0, 'c': -off}
                    if hp == want:
                        return '%s %s %s' % (p, a[0], H)
                    continue
                if RF.is_real_extent(H, axis, facts, fm):
                    if a[0] == '<' or kind == 'end':
                        return '%s %s %s' % (p, a[0], H)
                    continue
                if depth < 2 and H != p:
                    # p < q <= H   or   p <= q < H
                    sub_kind = 'end' if a[0] == '<' else kind
                    r = self._upper(H, facts, fm, RF.axis_of_name(H) or axis, sub_kind, depth + 1)
                    if r and (RF.axis_of_name(H) in (None, axis) or axis is None):
                        return '%s %s %s (%s)' % (p, a[0], H, r)
        return None

    # ------------------------------------------------------------------ per-method analysis
    def analyse(self, f, mode, relaxed=False):
        """-> {param: ('REAL', why) | ('NONE', [(sink node, why)]) | ('NOSINK', '')}"""
        key = (f.qualname, mode, relaxed)
        if key in self.summ:
            return self.summ[key]
        if key in self.inprog:
            return None
        self.inprog.add(key)
        try:
            res = self._analyse(f, mode, relaxed)
        finally:
            self.inprog.discard(key)
        self.summ[key] = res
        return res

    def _analyse(self, f, mode, relaxed):
        fm = self.fm(f, mode, relaxed)
        taint = self.taint(f)
        sinks = self.sinks(f)
        res = {}
        for p, names in taint.items():
            fails, oks, inh, nsinks = [], [], [], 0
            # p = g(p) before any check: later guards bound the mapped value, not the argument
            for st in ast.walk(f.node):
                if isinstance(st, (ast.Assign, ast.AugAssign)):
                    tg = st.targets[0] if isinstance(st, ast.Assign) else st.target
                    if isinstance(tg, ast.Name) and tg.id == p and (isinstance(st, ast.AugAssign) or
                                                                    self.tainted_names_in(f, st.value, {p})):
                        if isinstance(st.value, ast.IfExp) and any(U(x) == p for x in (st.value.body, st.value.orelse)):
                            continue       # p = default if p is None else p
                        paths = fm.paths_at(st)
                        if not paths:
                            continue
                        axis = RF.axis_of_name(p, mode)
                        kind = param_kind(p)
                        for facts in paths:
                            if ('is', p, 'None') in facts:
                                continue
                            if not (self._lower(p, facts, axis, 0) and self._upper(p, facts, fm, axis, kind, 0)):
                                nsinks += 1
                                fails.append((st.value, 're-map', 'the argument is re-mapped by `%s` before any bounds check: the later '
                                              'check applies to the mapped value, so out-of-range (e.g. negative) values can be '
                                              'mapped into range' % U(st.value)[:60], False))
                                break
            for (node, skind, args, targets, relaxing) in sinks:
                hit = [(a, q) for (a, q) in args if self.tainted_names_in(f, a, names)]
                if not hit:
                    continue
                paths = fm.paths_at(node)
                if not paths:
                    continue       # unreachable in this mode
                nsinks += 1
                for facts in paths:
                    if not any(self.derived_from(f, a, p, names, facts) for (a, q) in hit):
                        oks.append((node, 'not derived from %s on this path' % p))
                        continue
                    ok, why = self.bounded(p, facts, fm, mode)
                    if ok and skind in ('loader', 'padded-subscript'):
                        # empty/reversed window (C14.4): both ends of a (min, max) pair reach this sink
                        pair = self._pair_of(p, taint)
                        if pair and any(self.tainted_names_in(f, a, taint[pair]) for (a, q) in args):
                            lo_p, hi_p = (p, pair) if param_kind(pair) == 'end' else (pair, p)
                            if not (('<', lo_p, hi_p) in facts or ('is', lo_p, 'None') in facts or
                                    ('is', hi_p, 'None') in facts):
                                ok, why = False, 'window (%s, %s) not shown non-empty (%s < %s)' % (
                                    lo_p, hi_p, lo_p, hi_p)
                    inherited = False
                    if not ok and skind == 'delegate':
                        d = self._delegates(f, node, skind, targets, hit, relaxing, mode, facts, fm, p)
                        if d and d[0] == 'ok':
                            ok, why = True, d[1]
                        elif d and d[0] == 'inherited':
                            inherited = True
                            why = d[1]
                    if ok:
                        oks.append((node, why))
                    elif inherited:
                        inh.append((node, why))
                    else:
                        fails.append((node, skind, why, relaxing))
            if nsinks == 0:
                res[p] = ('NOSINK', [])
            elif fails:
                # one record per sink node
                seen, uniq = set(), []
                for x in fails:
                    if id(x[0]) not in seen:
                        seen.add(id(x[0]))
                        uniq.append(x)
                res[p] = ('NONE', uniq)
            elif inh:
                res[p] = ('INHERITED', inh[:3])
            else:
                res[p] = ('REAL', oks[:3])
        return res

    def _pair_of(self, p, taint):
        for a, b in (('min', 'max'), ('max', 'min')):
            if p.startswith(a):
                q = b + p[len(a):]
                if q in taint:
                    return q
        return None

    def _delegates(self, f, node, skind, targets, hit, relaxing, mode, facts, fm, p):
        """p is handed unchanged (or shifted by a constant) to callee parameters that the callee discharges.
        -> ('ok', why) | ('inherited', why)  (a *public* callee owns the undischarged obligation) | None"""
        if skind != 'delegate' or relaxing:
            return None
        whys, inherited = [], []
        for (a, q0) in hit:
            if not self._simple_pass(a, p):
                return None
            for e in targets:
                t = e.target
                qs = [q for q, v in e.binding.items() if v is a]
                if not qs:
                    return None
                q = qs[0]
                s = self.analyse(t, mode)
                if s is None or q not in s:
                    if q in NON_INDEX_PARAMS:
                        continue
                    return None
                if s[q][0] in ('REAL', 'NOSINK'):
                    whys.append('%s(%s) discharged by callee' % (t.name, q))
                elif not t.name.startswith('_'):
                    inherited.append('%s(%s) is undischarged in the public callee (reported there)' % (t.name, q))
                else:
                    return None
        if inherited:
            return ('inherited', '; '.join(sorted(set(inherited))))
        return ('ok', '; '.join(sorted(set(whys)))) if whys else None

    def _simple_pass(self, a, p):
        if isinstance(a, ast.Name):
            return True
        if isinstance(a, ast.BinOp) and isinstance(a.op, (ast.Add, ast.Sub)):
            return (isinstance(a.left, ast.Name) and isinstance(a.right, ast.Constant)) or \
                (isinstance(a.right, ast.Name) and isinstance(a.left, ast.Constant)) or \
                (U(a.left).startswith('len(') and isinstance(a.right, ast.Name)) or \
                (isinstance(a.op, ast.Add) and U(a.right).startswith('len(') and isinstance(a.left, ast.Name))
        return False
