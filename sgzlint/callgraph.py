"""E1 (second half) - resolved call graph.

Resolution is syntactic but not name matching: ``self.m()`` goes through the C3 MRO
of the class and every subclass that can reach the call; ``self.attr.m()`` through the
constructor calls stored into ``self.attr``; function-valued attributes and locals by
their stores; ``lru_cache(...)(f)`` is transparent; ``Thread(target=f, args=a)`` and
``executor.submit(f, *a)`` become edges of kind thread/pool with argument binding.
A receiver of unknown type resolves *by unique method name* inside the package
(kind 'byname'); anything else is an external leaf named by its dotted text.
"""
import ast
from .core import ClassInfo, FuncInfo, Module, U, AnalysisError

# method names that are overwhelmingly external (file / queue / dict / numpy objects);
# a package method with one of these names is reached only through a typed receiver.
GENERIC_METHODS = {'read', 'write', 'seek', 'close', 'flush', 'get', 'put', 'join', 'start', 'copy', 'items',
                   'keys', 'values', 'update', 'append', 'extend', 'format', 'clear', 'result', 'submit', 'open',
                   'run', 'reshape', 'astype', 'tobytes', 'flatten', 'hex', 'digest', 'task_done', 'index',
                   'split', 'lower', 'strip', 'decode', 'indices', 'cache_clear', 'readall', 'download_blob',
                   'warn', 'echo', 'exists', 'filterwarnings', 'catch_warnings'}


class Edge:
    def __init__(self, caller, call, target, kind, binding, ext=None):
        self.caller = caller
        self.call = call
        self.target = target   # FuncInfo or None
        self.ext = ext         # external dotted name when target is None
        self.kind = kind       # direct | ctor | thread | pool | byname | funcattr
        self.binding = binding  # param -> arg node (FuncInfo targets only)

    def __repr__(self):
        return '<E %s -> %s (%s) L%d>' % (self.caller.qualname, self.target.qualname if self.target else self.ext,
                                          self.kind, self.call.lineno)


def bind(call_args, call_kwargs, target, skip_self):
    params = list(target.params)
    if skip_self and params:
        params = params[1:]
    b = {}
    for p, a in zip(params, call_args):
        if isinstance(a, ast.Starred):
            break
        b[p] = a
    for k in call_kwargs:
        if k.arg is not None:
            b[k.arg] = k.value
    return b


class CallGraph:
    def __init__(self, program):
        self.P = program
        self.edges_from = {}
        self.edges_to = {}
        self.unresolved = []   # (func, call) inside the package that could not be resolved
        self.n_calls = 0
        self.n_pkg = 0
        self.n_ext = 0
        self._local_cache = {}
        self._by_name = {}
        for f in program.functions.values():
            if f.cls is not None:
                self._by_name.setdefault(f.name, []).append(f)
        # function-valued stores into attributes of attributes (self.file.read_range = utils.read_range_file)
        self._nested_func_stores = {}
        for f in program.functions.values():
            for n in ast.walk(f.node):
                if isinstance(n, ast.Assign) and len(n.targets) == 1 and isinstance(n.targets[0], ast.Attribute) \
                        and isinstance(n.targets[0].value, ast.Attribute):
                    t = self._resolve_static(f, n.value) if isinstance(n.value, (ast.Name, ast.Attribute)) else None
                    if isinstance(t, FuncInfo):
                        self._nested_func_stores.setdefault(n.targets[0].attr, [])
                        if t not in self._nested_func_stores[n.targets[0].attr]:
                            self._nested_func_stores[n.targets[0].attr].append(t)
        for f in program.functions.values():
            self._scan(f)

    # ------------------------------------------------------------------
    def _locals(self, f):
        """per-function facts: local name -> list of ('class', ClassInfo) | ('func', [FuncInfo]) |
        ('expr', node) from simple assignments / with-as."""
        if f.qualname in self._local_cache:
            return self._local_cache[f.qualname]
        loc = {}
        for n in ast.walk(f.node):
            pairs = []
            if isinstance(n, ast.Assign) and len(n.targets) == 1 and isinstance(n.targets[0], ast.Name):
                pairs.append((n.targets[0].id, n.value))
            elif isinstance(n, ast.With):
                for it in n.items:
                    if isinstance(it.optional_vars, ast.Name):
                        pairs.append((it.optional_vars.id, it.context_expr))
            for name, v in pairs:
                loc.setdefault(name, []).append(v)
        self._local_cache[f.qualname] = loc
        return loc

    def classes_of_expr(self, f, e, depth=0):
        """Package classes an expression may evaluate to (instances)."""
        if depth > 4:
            return []
        if isinstance(e, ast.Name):
            if f.is_method and f.params and e.id == f.params[0]:
                return [f.cls] + f.cls.all_subclasses()
            out = []
            for v in self._locals(f).get(e.id, []):
                out.extend(self.classes_of_expr(f, v, depth + 1))
            return out
        if isinstance(e, ast.Call):
            fn = e.func
            # X(...).__enter__()  -> instance of X
            if isinstance(fn, ast.Attribute) and fn.attr == '__enter__':
                return self.classes_of_expr(f, fn.value, depth + 1)
            t = self._resolve_static(f, fn)
            if isinstance(t, ClassInfo):
                return [t]
            if isinstance(fn, ast.Name) and not isinstance(t, FuncInfo) and fn.id not in f.params:
                out = []
                for v in self._locals(f).get(fn.id, []):
                    for x in ([v.body, v.orelse] if isinstance(v, ast.IfExp) else [v]):
                        c = self.P.resolve_name(f.module, U(x)) if isinstance(x, (ast.Name, ast.Attribute)) else None
                        if isinstance(c, ClassInfo) and c not in out:
                            out.append(c)
                if out:
                    return out
            if isinstance(t, FuncInfo):
                # factory functions: look at return expressions
                out = []
                for r in ast.walk(t.node):
                    if isinstance(r, ast.Return) and r.value is not None:
                        out.extend(self.classes_of_expr(t, r.value, depth + 1))
                return out
            return []
        if isinstance(e, ast.Attribute):
            owners = self.classes_of_expr(f, e.value, depth + 1)
            out = []
            for c in owners:
                for (sf, stmt, v) in self.P.attr_stores_mro(c, e.attr):
                    if v is not None:
                        for k in self.classes_of_expr(sf, v, depth + 1):
                            if k not in out:
                                out.append(k)
            return out
        if isinstance(e, ast.IfExp):
            return self.classes_of_expr(f, e.body, depth + 1) + self.classes_of_expr(f, e.orelse, depth + 1)
        return []

    def _resolve_static(self, f, fn):
        """Resolve a Name/Attribute chain that denotes a module-level object."""
        txt = U(fn)
        if isinstance(fn, ast.Name):
            # nested function defined in f
            for n in ast.walk(f.node):
                if isinstance(n, ast.FunctionDef) and n is not f.node and n.name == fn.id:
                    return ('nested', n)
            return self.P.resolve_name(f.module, fn.id)
        if isinstance(fn, ast.Attribute):
            root = fn
            while isinstance(root, ast.Attribute):
                root = root.value
            if isinstance(root, ast.Name) and not (f.is_method and f.params and root.id == f.params[0]) \
                    and root.id not in self._locals(f) and root.id not in f.params:
                return self.P.resolve_name(f.module, txt)
        return None

    def funcs_of_expr(self, f, e, depth=0):
        """Package functions a function-valued expression may denote -> list[(FuncInfo, skip_self)]."""
        if depth > 4:
            return []
        if isinstance(e, ast.Call):
            # lru_cache(maxsize=n)(g)  is transparent
            if isinstance(e.func, ast.Call) and U(e.func.func).split('.')[-1] == 'lru_cache' and e.args:
                return self.funcs_of_expr(f, e.args[0], depth + 1)
            return []
        if isinstance(e, ast.Name):
            out = []
            t = self._resolve_static(f, e)
            if isinstance(t, FuncInfo):
                return [(t, t.is_method)]
            for v in self._locals(f).get(e.id, []):
                out.extend(self.funcs_of_expr(f, v, depth + 1))
            return out
        if isinstance(e, ast.Attribute):
            t = self._resolve_static(f, e)
            if isinstance(t, FuncInfo):
                return [(t, False)]
            out = []
            for c in self.classes_of_expr(f, e.value, depth + 1):
                m = c.find_method(e.attr)
                if m is not None:
                    if (m, m.is_method) not in out:
                        out.append((m, m.is_method))
                else:
                    for (sf, stmt, v) in self.P.attr_stores_mro(c, e.attr):
                        if v is not None:
                            for r in self.funcs_of_expr(sf, v, depth + 1):
                                if r not in out:
                                    out.append(r)
            if not out and isinstance(e.value, ast.Attribute) and e.attr in self._nested_func_stores:
                out = [(t, False) for t in self._nested_func_stores[e.attr]]
            return out
        return []

    # ------------------------------------------------------------------
    def _kwargs(self, f, call):
        """keywords of a call with `**name` expanded when name is bound once to dict(k=v, ..) or a {'k': v} display."""
        out = []
        for k in call.keywords:
            if k.arg is not None:
                out.append(k)
                continue
            v = k.value
            if isinstance(v, ast.Name):
                vals = self._locals(f).get(v.id, [])
                v = vals[0] if len(vals) == 1 and v.id not in f.params else None
            if isinstance(v, ast.Call) and U(v.func) == 'dict' and not v.args and all(x.arg is not None for x in v.keywords):
                out.extend(v.keywords)
            elif isinstance(v, ast.Dict) and all(isinstance(x, ast.Constant) and isinstance(x.value, str) for x in v.keys):
                out.extend(ast.keyword(arg=x.value, value=y) for x, y in zip(v.keys, v.values))
            else:
                out.append(k)
        return out

    def resolve(self, f, call):
        """-> list[Edge] for one Call node located in function f."""
        fn = call.func
        kws = self._kwargs(f, call)
        edges = []
        txt = U(fn)
        last = txt.split('.')[-1]

        # thread / pool entry points
        if last == 'Thread':
            tgt = [k.value for k in call.keywords if k.arg == 'target']
            args = [k.value for k in call.keywords if k.arg == 'args']
            if tgt:
                argl = list(args[0].elts) if args and isinstance(args[0], (ast.Tuple, ast.List)) else []
                for (t, skip) in self.funcs_of_expr(f, tgt[0]):
                    edges.append(Edge(f, call, t, 'thread', bind(argl, [], t, skip)))
                if edges:
                    return edges
        if last == 'submit' and call.args:
            for (t, skip) in self.funcs_of_expr(f, call.args[0]):
                edges.append(Edge(f, call, t, 'pool', bind(call.args[1:], call.keywords, t, skip)))
            if edges:
                return edges

        # super().__init__ / super(X, self).m
        if isinstance(fn, ast.Attribute) and isinstance(fn.value, ast.Call) and U(fn.value.func) == 'super' and f.cls:
            start = f.cls
            if fn.value.args:
                t = self.P.resolve_name(f.module, U(fn.value.args[0]))
                if isinstance(t, ClassInfo):
                    start = t
            # for every concrete class whose MRO contains f.cls, the next after `start`
            seen = []
            for c in [f.cls] + f.cls.all_subclasses():
                if start in c.mro:
                    for nxt in c.mro[c.mro.index(start) + 1:]:
                        if fn.attr in nxt.methods:
                            m = nxt.methods[fn.attr]
                            if m not in seen:
                                seen.append(m)
                                edges.append(Edge(f, call, m, 'direct', bind(call.args, kws, m, True)))
                            break
            if edges:
                return edges
            return [Edge(f, call, None, 'ext', {}, ext='super().' + fn.attr)]

        t = self._resolve_static(f, fn)
        if isinstance(t, tuple) and t[0] == 'nested':
            return [Edge(f, call, None, 'nested', {}, ext='<nested %s>' % t[1].name)]
        if isinstance(t, ClassInfo):
            init = t.find_method('__init__')
            if init is not None:
                return [Edge(f, call, init, 'ctor', bind(call.args, kws, init, True))]
            return [Edge(f, call, None, 'ctor', {}, ext=t.qualname)]
        if isinstance(t, FuncInfo):
            return [Edge(f, call, t, 'direct', bind(call.args, kws, t, False))]
        if isinstance(t, tuple) and t[0] == 'ext' and isinstance(fn, ast.Attribute):
            return [Edge(f, call, None, 'ext', {}, ext=t[1])]

        if isinstance(fn, ast.Name):
            # a local bound to one of several classes: cls = A if c else B; cls(..)
            cls_vals = []
            for v in self._locals(f).get(fn.id, []):
                for x in ([v.body, v.orelse] if isinstance(v, ast.IfExp) else [v]):
                    if isinstance(x, (ast.Name, ast.Attribute)):
                        c = self.P.resolve_name(f.module, U(x))
                        if isinstance(c, ClassInfo) and c not in cls_vals:
                            cls_vals.append(c)
                        elif not isinstance(c, ClassInfo):
                            cls_vals = None
                            break
                    else:
                        cls_vals = None
                        break
                if cls_vals is None:
                    break
            if cls_vals and fn.id not in f.params:
                out_e = []
                for c in cls_vals:
                    init = c.find_method('__init__')
                    if init is not None:
                        out_e.append(Edge(f, call, init, 'ctor', bind(call.args, kws, init, True)))
                if out_e:
                    # the same constructor inherited by every candidate: one edge
                    uniq = []
                    for e_ in out_e:
                        if not any(e_.target is u.target for u in uniq):
                            uniq.append(e_)
                    return uniq
            fs = self.funcs_of_expr(f, fn)
            if fs:
                return [Edge(f, call, m, 'funcattr', bind(call.args, kws, m, skip)) for (m, skip) in fs]
            if isinstance(t, tuple) and t[0] == 'ext':
                return [Edge(f, call, None, 'ext', {}, ext=t[1])]
            return [Edge(f, call, None, 'ext', {}, ext=fn.id)]

        if isinstance(fn, ast.Attribute):
            fs = self.funcs_of_expr(f, fn)
            if fs:
                return [Edge(f, call, m, 'direct' if m.cls else 'funcattr',
                             bind(call.args, kws, m, skip)) for (m, skip) in fs]
            recv_classes = self.classes_of_expr(f, fn.value)
            if not recv_classes and fn.attr not in GENERIC_METHODS:
                cands = self._by_name.get(fn.attr, [])
                # unique by hierarchy: keep the most-derived definitions
                if cands:
                    return [Edge(f, call, m, 'byname', bind(call.args, kws, m, m.is_method))
                            for m in cands]
            return [Edge(f, call, None, 'ext', {}, ext=txt)]
        # call of a call result etc.
        if isinstance(fn, ast.Call):
            fs = self.funcs_of_expr(f, fn)
            if fs:
                return [Edge(f, call, m, 'funcattr', bind(call.args, kws, m, skip)) for (m, skip) in fs]
        return [Edge(f, call, None, 'ext', {}, ext=txt)]

    def _scan(self, f):
        out = []
        for n in ast.walk(f.node):
            if isinstance(n, ast.Call):
                self.n_calls += 1
                es = self.resolve(f, n)
                for e in es:
                    out.append(e)
                    if e.target is not None:
                        self.edges_to.setdefault(e.target.qualname, []).append(e)
                if any(e.target is not None for e in es):
                    self.n_pkg += 1
                else:
                    self.n_ext += 1
        self.edges_from[f.qualname] = out

    # ------------------------------------------------------------------
    def callees(self, f):
        return self.edges_from.get(f.qualname if isinstance(f, FuncInfo) else f, [])

    def callers(self, f):
        return self.edges_to.get(f.qualname if isinstance(f, FuncInfo) else f, [])

    def edges_at(self, f, call):
        return [e for e in self.callees(f) if e.call is call]

    def reach(self, f, kinds=None):
        """transitively reachable package functions (qualnames) from f."""
        seen, todo = set(), [f.qualname if isinstance(f, FuncInfo) else f]
        while todo:
            q = todo.pop()
            for e in self.edges_from.get(q, []):
                if e.target is not None and (kinds is None or e.kind in kinds):
                    if e.target.qualname not in seen:
                        seen.add(e.target.qualname)
                        todo.append(e.target.qualname)
        return seen

    def stats(self):
        return {'calls': self.n_calls, 'to_package': self.n_pkg, 'external_leaves': self.n_ext}
