"""C04.4 / C11.3 - frame consistency of the plane readers: indices into the SOURCE carry the window
origin of every axis they address (FILE frame); indices into window-local storage are origin free.

Expressions are normalised over the atoms
    O_IL = geom.ilines[0]   O_XL = geom.xlines[0]   L_XL = geom.xlines[-1]
    SXL  = len(seismicfile.xlines)   WXL = len(geom.xlines)   SET = plane_set_id   BS0 = blockshape[0]   i
"""
import ast
from .core import U, AnalysisError, parent, enclosing_stmt
from .algebra import Atoms, Poly, C, A

ATOM_TEXT = {
    'geom.ilines[0]': 'O_IL', 'geom.xlines[0]': 'O_XL', 'geom.xlines[-1]': 'L_XL',
    'len(seismicfile.xlines)': 'SXL', 'len(geom.xlines)': 'WXL', 'plane_set_id': 'SET', 'blockshape[0]': 'BS0',
    'i': 'i', 'planes_to_read': 'PTR', 't': 't', 't_xl': 't_xl', 't_il': 't_il',
}


class Frame:
    def __init__(self, f, atom_text=None):
        self.f = f
        self.T = Atoms()
        self.atom_text = atom_text if atom_text is not None else ATOM_TEXT
        for v in set(self.atom_text.values()):
            self.T.declare(v, 0, None)
        self.defs = {}
        for n in ast.walk(f.node):
            if isinstance(n, ast.Assign) and len(n.targets) == 1 and isinstance(n.targets[0], ast.Name):
                self.defs.setdefault(n.targets[0].id, []).append(n.value)
            elif isinstance(n, ast.Assign) and len(n.targets) == 1 and isinstance(n.targets[0], ast.Tuple) and \
                    isinstance(n.value, ast.Tuple) and len(n.value.elts) == len(n.targets[0].elts):
                for t_, v_ in zip(n.targets[0].elts, n.value.elts):
                    if isinstance(t_, ast.Name):
                        self.defs.setdefault(t_.id, []).append(v_)
            elif isinstance(n, ast.Assign) and len(n.targets) == 1 and isinstance(n.targets[0], ast.Tuple) and \
                    len(n.targets[0].elts) == 2 and isinstance(n.value, ast.Call) and U(n.value.func) == 'divmod' and \
                    len(n.value.args) == 2:
                # q, r = divmod(a, b)
                a_, b_ = n.value.args
                q_, r_ = n.targets[0].elts
                if isinstance(q_, ast.Name):
                    self.defs.setdefault(q_.id, []).append(ast.copy_location(ast.BinOp(left=a_, op=ast.FloorDiv(), right=b_), n))
                if isinstance(r_, ast.Name):
                    self.defs.setdefault(r_.id, []).append(ast.copy_location(ast.BinOp(left=a_, op=ast.Mod(), right=b_), n))
        # the per-item loop variable is whatever the code calls it: `for <v> in range(blockshape[0])`
        if 'i' in self.atom_text:
            self.atom_text = dict(self.atom_text)
            for n in ast.walk(f.node):
                if isinstance(n, ast.For) and isinstance(n.target, ast.Name) and isinstance(n.iter, ast.Call) and \
                        U(n.iter.func) == 'range' and len(n.iter.args) == 1 and U(n.iter.args[0]).endswith('blockshape[0]'):
                    self.atom_text[n.target.id] = self.atom_text['i']

    def ev(self, e, depth=0):
        if depth > 24:
            return None
        t = U(e)
        if t in self.atom_text:
            return A(self.atom_text[t])
        if isinstance(e, ast.Constant) and isinstance(e.value, int):
            return C(e.value)
        if isinstance(e, ast.Name) and e.id in self.defs and len(self.defs[e.id]) == 1:
            return self.ev(self.defs[e.id][0], depth + 1)
        if isinstance(e, ast.BinOp):
            l, r = self.ev(e.left, depth + 1), self.ev(e.right, depth + 1)
            if l is None or r is None:
                return None
            if isinstance(e.op, ast.Add):
                return l + r
            if isinstance(e.op, ast.Sub):
                return l - r
            if isinstance(e.op, ast.Mult):
                return l * r
        return None


def check_plane_reader(ctx, rule, f):
    """f = the regular plane filler (role: receives the group buffer, the source handle and geom)."""
    fr = Frame(f)
    A_ = lambda n: A(n)
    ord_real = A_('O_IL') + A_('SET') * A_('BS0') + A_('i')
    ord_last = A_('O_IL') + A_('SET') * A_('BS0') + A_('PTR') - 1
    n_src = n_loc = 0
    # --- source inline reads: seismicfile.iline[seismicfile.ilines[<ordinal>]]
    for n in ast.walk(f.node):
        if isinstance(n, ast.Subscript) and U(n.value).endswith('.iline') and isinstance(n.ctx, ast.Load):
            idx = n.slice
            inner = idx.slice if isinstance(idx, ast.Subscript) and U(idx.value).endswith('.ilines') else None
            if inner is None:
                ctx.fail(rule, f, enclosing_stmt(n), 'source inline is addressed by `%s`, not by line number through the '
                         'source axis (seismicfile.ilines[ordinal])' % U(idx), line=n.lineno)
                continue
            p = fr.ev(inner)
            n_src += 1
            if p is None:
                raise AnalysisError('%s: source inline ordinal `%s` does not normalise' % (f.qualname, U(inner)))
            # which side of `i < <real items of the group>` is this read on?
            side = None
            q, child = parent(n), n
            while q is not None and q is not f.node:
                if isinstance(q, ast.If) and isinstance(q.test, ast.Compare) and len(q.test.ops) == 1 and \
                        isinstance(q.test.ops[0], (ast.Lt, ast.GtE)) and fr.atom_text.get(U(q.test.left)) == 'i' and \
                        U(q.test.comparators[0]) == 'planes_to_read':
                    inb = any(child is s_ or any(child is x for x in ast.walk(s_)) for s_ in q.body)
                    side = 'real' if inb == isinstance(q.test.ops[0], ast.Lt) else 'pad'
                child, q = q, parent(q)
            want_p = {'real': (ord_real,), 'pad': (ord_last,)}.get(side, (ord_real, ord_last))
            if p in want_p:
                ctx.ok(rule, f, n, 'source inline ordinal = window origin + set*bs0 + %s' % ('i' if p == ord_real else 'last real item'),
                       sample={'poly': repr(p)})
            elif p in (ord_real, ord_last):
                ctx.fail(rule, f, enclosing_stmt(n), 'source inline ordinal `%s` = %r is read on the %s side of `i < planes_to_read`: '
                         '%s' % (U(inner)[:60], p, 'padding' if side == 'pad' else 'real-data',
                                 'padding planes must repeat the last real plane of the group (planes_to_read - 1)'
                                 if side == 'pad' else 'real planes must be read at ordinal i'), line=n.lineno)
            else:
                miss = 'it lacks the inline origin of the window (geom.ilines[0])' if 'O_IL' not in p.atoms() else 'unexpected form'
                ctx.fail(rule, f, enclosing_stmt(n), 'source inline ordinal `%s` = %r: %s; a windowed conversion reads the wrong '
                         'inlines' % (U(inner)[:60], p, miss), line=n.lineno)
    # --- crossline cut of the plane: [...][O_XL : L_XL + 1, :]
    for n in ast.walk(f.node):
        cut = None
        if isinstance(n, ast.Subscript) and isinstance(n.slice, ast.Tuple) and len(n.slice.elts) == 2 and \
                isinstance(n.slice.elts[0], ast.Slice) and 'asarray' in U(n.value):
            cut = n.slice.elts[0]
            lo, hi = cut.lower, cut.upper
        elif isinstance(n, ast.Call) and U(n.func) == 'slice' and len(n.args) == 2 and 'geom' in U(n):
            lo, hi = n.args
            cut = n
        if cut is None:
            continue
        pl, ph = fr.ev(lo), fr.ev(hi)
        n_src += 1
        if pl == A_('O_XL') and ph == A_('L_XL') + 1:
            ctx.ok(rule, f, n, 'crossline cut is [first : last + 1] of the window')
        else:
            ctx.fail(rule, f, enclosing_stmt(n), 'crossline cut `%s:%s` is not [geom.xlines[0] : geom.xlines[-1] + 1]' % (
                U(lo), U(hi)), line=n.lineno)
    # --- header trace range of the source
    for n in ast.walk(f.node):
        if isinstance(n, ast.Subscript) and U(n.value).endswith('.header') and isinstance(n.slice, ast.Slice):
            lo, hi = fr.ev(n.slice.lower), fr.ev(n.slice.upper)
            n_src += 1
            want = ord_real * A_('SXL') + A_('O_XL')
            if lo is None or hi is None:
                raise AnalysisError('%s: header range `%s` does not normalise' % (f.qualname, U(n.slice)))
            if lo == want and hi - lo == A_('WXL'):
                ctx.ok(rule, f, n, 'header range starts at (origin_il + set*bs0 + i)*source_xl_count + origin_xl, window width',
                       sample={'poly': repr(lo)})
            else:
                what = []
                if 'O_IL' not in lo.atoms():
                    what.append('the start lacks the inline origin of the window')
                if 'O_XL' not in lo.atoms():
                    what.append('the start lacks the crossline origin of the window')
                if hi - lo != A_('WXL'):
                    what.append('the range is %r long, not the window width' % (hi - lo,))
                ctx.fail(rule, f, enclosing_stmt(n), 'source header range `%s` = [%r, ...): %s; headers of other traces are '
                         'stored' % (U(n.slice)[:60], lo, '; '.join(what) or 'unexpected form'), line=n.lineno)
    # --- decomposition of the running source trace ordinal and the local store position: the index of every store
    #     `array[IDX] = header[field]` into a header array, with locals resolved, where  t % D / t // D  of the running
    #     source ordinal t (the enumerate counter) stand for the source crossline / inline ordinals when D is the
    #     source crossline count
    stores = []
    for n in ast.walk(f.node):
        if isinstance(n, ast.Assign) and len(n.targets) == 1 and isinstance(n.targets[0], ast.Subscript) and \
                isinstance(n.value, ast.Subscript) and isinstance(n.targets[0].value, ast.Name):
            base = n.targets[0].value.id
            # the array is a value of the header dictionary: loop variable over <dict>.items() / .values()
            for lp in ast.walk(f.node):
                if isinstance(lp, ast.For) and any(n is x for x in ast.walk(lp)) and isinstance(lp.iter, ast.Call) and \
                        isinstance(lp.iter.func, ast.Attribute) and lp.iter.func.attr in ('items', 'values') and \
                        'headers_dict' in U(lp.iter.func.value) and base in [x.id for x in ast.walk(lp.target) if isinstance(x, ast.Name)]:
                    stores.append(n)
    for n in stores:
        idx = n.targets[0].slice
        splits = []

        class SplitFrame(Frame):
            def ev(self_, e, depth=0):
                if isinstance(e, ast.BinOp) and isinstance(e.op, (ast.Mod, ast.FloorDiv)):
                    l = Frame.ev(self_, e.left, depth + 1)
                    d = Frame.ev(self_, e.right, depth + 1)
                    if l == A('t'):
                        splits.append((e, d))
                        return A('t_xl') if isinstance(e.op, ast.Mod) else A('t_il')
                    return None
                return Frame.ev(self_, e, depth)
        at = dict(fr.atom_text)
        at.pop('t_xl', None)
        at.pop('t_il', None)
        sf = SplitFrame(f, at)
        for nm in ('t_xl', 't_il'):
            sf.T.declare(nm, 0, None)
        # the running ordinal: counter of `for t, header in enumerate(headers, start)`
        for lp in ast.walk(f.node):
            if isinstance(lp, ast.For) and any(n is x for x in ast.walk(lp)) and isinstance(lp.iter, ast.Call) and \
                    U(lp.iter.func) == 'enumerate' and isinstance(lp.target, ast.Tuple) and isinstance(lp.target.elts[0], ast.Name):
                sf.atom_text[lp.target.elts[0].id] = 't'
        p = sf.ev(idx)
        n_loc += 1
        bad_split = [(e, d) for (e, d) in splits if d != A('SXL')]
        if bad_split:
            e, d = bad_split[0]
            ctx.fail(rule, f, enclosing_stmt(e) if enclosing_stmt(e) is not None else n, 'source trace ordinal is split with `%s`, not with the '
                     'crossline count of the source' % U(e.right), line=getattr(e, 'lineno', n.lineno))
        elif splits:
            ctx.ok(rule, f, 'split of the source trace ordinal', 'source trace ordinal is split with the source crossline count')
        n_loc += 1
        want = (A_('t_xl') - A_('O_XL')) + (A_('t_il') - A_('O_IL')) * A_('WXL')
        if p is None:
            raise AnalysisError('%s: header store position `%s` does not normalise' % (f.qualname, U(idx)[:60]))
        if p == want:
            ctx.ok(rule, f, n, 'local store position = (xl - origin_xl) + (il - origin_il) * window width', sample={'poly': repr(p)})
        elif not bad_split:
            ctx.fail(rule, f, n, 'header store position `%s` = %r is not (t_xl - origin_xl) + (t_il - origin_il)*len(geom.xlines)' % (
                U(idx)[:60], p))
    # --- window-local buffer indices are origin free
    for n in ast.walk(f.node):
        if isinstance(n, ast.Subscript) and isinstance(n.ctx, ast.Store) and U(n.value) == 'seismic_buffer':
            txt = U(n.slice)
            n_loc += 1
            if 'geom.ilines[0]' in txt or 'geom.xlines[0]' in txt:
                ctx.fail(rule, f, enclosing_stmt(n), 'window-local buffer is indexed with a window origin: `%s`' % txt[:60], line=n.lineno)
            else:
                ctx.ok(rule, f, 'seismic_buffer[%s]' % txt[:40], 'local index is origin free', nontrivial=False)
    return n_src, n_loc


# ---------------------------------------------------------------------------
# The reduced-I/O reader addresses the SOURCE by window-local ordinals (read_line(set*bs0 + i), whole crossline rows):
# that is a FILE-frame index only when the window is the whole file.  Either its argument carries the window origin,
# or every path on which the reader survives establishes  source inline count == window inline count  and
# source crossline count == window crossline count.

def _tuple_elts(txt):
    try:
        e = ast.parse(txt, mode='eval').body
    except SyntaxError:
        return None
    return [U(x) for x in e.elts] if isinstance(e, ast.Tuple) else None


def _expand(txt, defs, depth=0):
    while txt in defs and depth < 4:
        txt = defs[txt]
        depth += 1
    return txt


def _eq_pairs(facts):
    defs = {a[1]: a[2] for a in facts if a[0] == 'def'}
    pairs = set()
    for a in facts:
        if a[0] != '==':
            continue
        l, r = _expand(a[1], defs), _expand(a[2], defs)
        tl, tr = _tuple_elts(l), _tuple_elts(r)
        if tl is not None and tr is not None and len(tl) == len(tr):
            for x, y in zip(tl, tr):
                pairs.add(frozenset((_expand(x, defs), _expand(y, defs))))
        else:
            pairs.add(frozenset((l, r)))
    return pairs


def check_reduced_reader(ctx, rule, producer, filler, edge):
    """producer: the function that creates the reduced-I/O reader and passes it to ``filler`` through ``edge``."""
    from .facts import FactMap
    fr = Frame(filler)
    A_ = lambda n: A(n)
    ord_real = A_('O_IL') + A_('SET') * A_('BS0') + A_('i')
    ord_last = A_('O_IL') + A_('SET') * A_('BS0') + A_('PTR') - 1
    calls = [c for c in ast.walk(filler.node) if isinstance(c, ast.Call) and isinstance(c.func, ast.Attribute) and
             c.func.attr == 'read_line' and c.args]
    if not calls:
        return 0
    local = []
    for c in calls:
        p = fr.ev(c.args[0])
        if p is None:
            raise AnalysisError('%s: read_line argument `%s` does not normalise' % (filler.qualname, U(c.args[0])))
        if p in (ord_real, ord_last):
            ctx.ok(rule, filler, c, 'reduced-I/O reader is addressed by a FILE-frame inline ordinal (window origin included)')
        elif p + A_('O_IL') in (ord_real, ord_last):
            local.append(c)
        else:
            ctx.fail(rule, filler, enclosing_stmt(c), 'reduced-I/O reader is asked for line `%s` = %r, which is neither the '
                     'window-local nor the file ordinal of the plane being filled' % (U(c.args[0])[:50], p), line=c.lineno)
    if not local:
        return len(calls)
    # window-local ordinals: the reader may only survive when the window is the whole file
    rparam = [p_ for p_, v in edge.binding.items() if isinstance(v, ast.Name) and any(
        isinstance(c.func.value, ast.Name) and c.func.value.id == p_ for c in local)]
    if not rparam:
        raise AnalysisError('%s: cannot tell which argument carries the reduced-I/O reader' % filler.qualname)
    var = edge.binding[rparam[0]].id
    fm = FactMap(producer.node)
    bad = None
    for facts in fm.paths_at(edge.call):
        d = fm.resolve_def(var, facts)
        if d == 'None':
            continue
        pairs = _eq_pairs(facts)
        src = [x for x in edge.binding.values() if isinstance(x, ast.Name) and 'file' in x.id]
        il_ok = any(len(pr) == 2 and any('.ilines' in t and 'geom' not in t for t in pr) and
                    any('geom.ilines' in t for t in pr) for pr in pairs)
        xl_ok = any(len(pr) == 2 and any('.xlines' in t and 'geom' not in t for t in pr) and
                    any('geom.xlines' in t for t in pr) for pr in pairs)
        if not (il_ok and xl_ok):
            bad = ('inline' if not il_ok else 'crossline')
            break
    if bad:
        ctx.fail(rule, producer, enclosing_stmt(edge.call), 'the reduced-I/O reader is addressed by window-local line ordinals '
                 '(`%s`) but reaches the plane loop on a path that does not establish source %s count == window %s count: '
                 'for a window that does not start at the first %s the wrong lines (and their headers) are converted' % (
                     U(local[0])[:60], bad, bad, bad), line=edge.call.lineno, key_extra='reduced-reader-frame')
    else:
        ctx.ok(rule, producer, edge.call, 'reduced-I/O reader (window-local ordinals) survives only when the window is the whole '
               'file: source and window line counts are compared on both axes')
    return len(calls)
