"""E1 - program index of /repo/seismic_zfp: modules, classes (C3 MRO), functions,
module constants, attribute stores, plus the reporting scaffolding shared by all
checks (findings, analysis errors, evidence).

Nothing here imports the package under analysis; everything is read with ``ast``.
"""
import ast
import hashlib
import json
import os
import sys
import time

REPO = os.environ.get('SGZ_REPO', '/repo')
PKG = 'seismic_zfp'
VERIF = os.path.dirname(os.path.dirname(os.path.abspath(__file__)))


class AnalysisError(Exception):
    """The analysis could not understand the code (vanished anchor, construct
    outside the enumerated idioms).  Never a property verdict: exit code 2."""


def U(node):
    """Canonical text of an AST node (ast.unparse normalises spacing/parentheses)."""
    if node is None:
        return ''
    if isinstance(node, str):
        return node
    return ast.unparse(node)


def norm_stmt(node):
    """Normalised one-line text of a statement, used in finding keys."""
    s = U(node)
    s = ' '.join(s.split())
    return s[:160]


class FuncInfo:
    def __init__(self, module, cls, node):
        self.module = module
        self.cls = cls
        self.node = node
        self.name = node.name
        self.qualname = (module.name + '.' + (cls.name + '.' if cls else '') + node.name)
        a = node.args
        self.params = [x.arg for x in a.posonlyargs + a.args]
        self.kwonly = [x.arg for x in a.kwonlyargs]
        self.defaults = {}
        pos = a.posonlyargs + a.args
        for p, d in zip(pos[len(pos) - len(a.defaults):], a.defaults):
            self.defaults[p.arg] = d
        for p, d in zip(a.kwonlyargs, a.kw_defaults):
            if d is not None:
                self.defaults[p.arg] = d
        self.decorators = [U(d) for d in node.decorator_list]
        self.is_static = any(d in ('staticmethod',) for d in self.decorators)
        self.is_cached = any(d.startswith('lru_cache') or d.startswith('functools.lru_cache')
                             for d in self.decorators)

    @property
    def is_method(self):
        return self.cls is not None and not self.is_static

    def call_params(self):
        """parameter names as seen by a caller (without self)."""
        return self.params[1:] if self.is_method else list(self.params)

    def __repr__(self):
        return '<F %s>' % self.qualname

    @property
    def where(self):
        return '%s:%d' % (self.module.relpath, self.node.lineno)


class ClassInfo:
    def __init__(self, module, node):
        self.module = module
        self.node = node
        self.name = node.name
        self.qualname = module.name + '.' + node.name
        self.methods = {}
        self.base_exprs = [U(b) for b in node.bases]
        self.bases = []      # resolved ClassInfo (package classes only)
        self.ext_bases = []  # names of external bases
        self.mro = []
        self.subclasses = []
        for n in node.body:
            if isinstance(n, (ast.FunctionDef, ast.AsyncFunctionDef)):
                self.methods[n.name] = FuncInfo(module, self, n)

    def find_method(self, name):
        for c in self.mro:
            if name in c.methods:
                return c.methods[name]
        return None

    def all_subclasses(self):
        out, todo = [], list(self.subclasses)
        while todo:
            c = todo.pop()
            if c not in out:
                out.append(c)
                todo.extend(c.subclasses)
        return out

    def __repr__(self):
        return '<C %s>' % self.qualname


class Module:
    def __init__(self, name, path, relpath):
        self.name = name
        self.path = path
        self.relpath = relpath
        with open(path, 'rb') as f:
            raw = f.read()
        self.sha1 = hashlib.sha1(raw).hexdigest()
        self.source = raw.decode('utf-8')
        try:
            self.tree = ast.parse(self.source, filename=path)
        except SyntaxError as e:
            raise AnalysisError('cannot parse %s: %s' % (relpath, e))
        from . import norm as _norm
        self.tree, self.norm_log = _norm.normalise(self.tree, name)
        self.functions = {}
        self.classes = {}
        self.constants = {}      # NAME -> python value (literal-evaluable module constants)
        self.const_nodes = {}
        self.imports = {}        # local name -> dotted target ('seismic_zfp.utils.pad', 'numpy', 'segyio.field.Field')
        self.index()

    def index(self):
        self.functions, self.classes = {}, {}
        for n in ast.walk(self.tree):
            for c in ast.iter_child_nodes(n):
                c._parent = n
        for n in self.tree.body:
            self._top(n)

    def _top(self, n):
        if isinstance(n, (ast.FunctionDef, ast.AsyncFunctionDef)):
            self.functions[n.name] = FuncInfo(self, None, n)
        elif isinstance(n, ast.ClassDef):
            self.classes[n.name] = ClassInfo(self, n)
        elif isinstance(n, ast.Assign) and len(n.targets) == 1 and isinstance(n.targets[0], ast.Name):
            self.const_nodes[n.targets[0].id] = n.value
            try:
                self.constants[n.targets[0].id] = ast.literal_eval(n.value)
            except Exception:
                pass
        elif isinstance(n, ast.Import):
            for a in n.names:
                self.imports[a.asname or a.name.split('.')[0]] = a.name if a.asname else a.name.split('.')[0]
        elif isinstance(n, ast.ImportFrom):
            base = n.module or ''
            if n.level:
                base = PKG + ('.' + base if base else '')
            for a in n.names:
                self.imports[a.asname or a.name] = base + '.' + a.name
        elif isinstance(n, ast.Try):
            for b in n.body + [x for h in n.handlers for x in h.body] + n.orelse + n.finalbody:
                self._top(b)
        elif isinstance(n, ast.With):
            for b in n.body:
                self._top(b)
        elif isinstance(n, ast.If):
            for b in n.body + n.orelse:
                self._top(b)


def _c3(cls, seen=()):
    if cls in seen:
        raise AnalysisError('cyclic class hierarchy at %s' % cls.qualname)
    seqs = [list(_c3(b, seen + (cls,))) for b in cls.bases] + [list(cls.bases)]
    res = [cls]
    while True:
        seqs = [s for s in seqs if s]
        if not seqs:
            return res
        for s in seqs:
            cand = s[0]
            if not any(cand in t[1:] for t in seqs):
                break
        else:
            raise AnalysisError('inconsistent MRO for %s' % cls.qualname)
        res.append(cand)
        for s in seqs:
            if s[0] is cand:
                del s[0]


class Program:
    """All modules of the package, parsed once."""

    def __init__(self, repo=None, extra_dirs=()):
        self.repo = repo or REPO
        self.modules = {}
        pkgdir = os.path.join(self.repo, PKG)
        if not os.path.isdir(pkgdir):
            raise AnalysisError('package directory %s not found' % pkgdir)
        for fn in sorted(os.listdir(pkgdir)):
            if fn.endswith('.py'):
                name = fn[:-3]
                self.modules[name] = Module(name, os.path.join(pkgdir, fn), PKG + '/' + fn)
        if not self.modules:
            raise AnalysisError('no modules under %s' % pkgdir)
        from . import norm as _norm
        if _norm.enabled():
            _norm.prune([m.tree for m in self.modules.values()])
            for m in self.modules.values():
                m.index()
        self.classes = {}
        self.functions = {}   # qualname -> FuncInfo
        for m in self.modules.values():
            for c in m.classes.values():
                self.classes[c.qualname] = c
            for f in m.functions.values():
                self.functions[f.qualname] = f
        for c in self.classes.values():
            for f in c.methods.values():
                self.functions[f.qualname] = f
        # resolve bases
        for c in self.classes.values():
            for b in c.base_exprs:
                t = self.resolve_name(c.module, b)
                if isinstance(t, ClassInfo):
                    c.bases.append(t)
                    t.subclasses.append(c)
                else:
                    c.ext_bases.append(b)
        for c in self.classes.values():
            c.mro = _c3(c)
        self._constants = None

    # -- lookup helpers -------------------------------------------------
    def resolve_name(self, module, dotted):
        """Resolve a (possibly dotted) name used in ``module`` to a ClassInfo, FuncInfo,
        Module, ('const', value) or ('ext', dotted-name)."""
        parts = dotted.split('.')
        head = parts[0]
        if head in module.classes and len(parts) == 1:
            return module.classes[head]
        if head in module.functions and len(parts) == 1:
            return module.functions[head]
        if head in module.classes and len(parts) == 2:
            m = module.classes[head].find_method(parts[1]) if module.classes[head].mro else \
                module.classes[head].methods.get(parts[1])
            if m:
                return m
        if head in module.constants and len(parts) == 1:
            return ('const', module.constants[head])
        if head in module.imports:
            target = module.imports[head] + ('.' + '.'.join(parts[1:]) if len(parts) > 1 else '')
            return self.resolve_dotted(target)
        return ('ext', dotted)

    def resolve_dotted(self, target):
        parts = target.split('.')
        if parts[0] != PKG:
            return ('ext', target)
        if len(parts) == 1:
            m = self.modules.get('__init__')
            return m if m else ('ext', target)
        # seismic_zfp.<module>...
        if parts[1] in self.modules:
            m = self.modules[parts[1]]
            rest = parts[2:]
            if not rest:
                return m
            return self._in_module(m, rest, target)
        # name re-exported by __init__
        init = self.modules.get('__init__')
        if init and parts[1] in init.imports:
            return self.resolve_dotted(init.imports[parts[1]] + ('.' + '.'.join(parts[2:]) if parts[2:] else ''))
        return ('ext', target)

    def _in_module(self, m, rest, target):
        if rest[0] in m.classes:
            c = m.classes[rest[0]]
            if len(rest) == 1:
                return c
            f = c.find_method(rest[1]) if c.mro else c.methods.get(rest[1])
            return f if f else ('ext', target)
        if rest[0] in m.functions and len(rest) == 1:
            return m.functions[rest[0]]
        if rest[0] in m.constants and len(rest) == 1:
            return ('const', m.constants[rest[0]])
        if rest[0] in m.imports:
            return self.resolve_dotted(m.imports[rest[0]] + ('.' + '.'.join(rest[1:]) if rest[1:] else ''))
        return ('ext', target)

    def const_value(self, module, name):
        r = self.resolve_name(module, name)
        if isinstance(r, tuple) and r[0] == 'const':
            return r[1]
        return None

    def func(self, qualname):
        f = self.functions.get(qualname)
        if f is None:
            raise AnalysisError('anchor function %s not found' % qualname)
        return f

    def cls(self, qualname):
        c = self.classes.get(qualname)
        if c is None:
            raise AnalysisError('anchor class %s not found' % qualname)
        return c

    def methods_named(self, name):
        return [f for f in self.functions.values() if f.cls is not None and f.name == name]

    def all_functions(self):
        return list(self.functions.values())

    def units(self):
        return [{'unit': m.relpath, 'sha1': m.sha1} for m in self.modules.values()]

    # attribute stores: class qualname -> attr -> [(FuncInfo, stmt node, value node)]
    def attr_stores(self):
        if getattr(self, '_attr_stores', None) is not None:
            return self._attr_stores
        out = {}
        for f in self.functions.values():
            if not f.is_method:
                continue
            selfname = f.params[0] if f.params else 'self'
            for n in ast.walk(f.node):
                targets = []
                if isinstance(n, ast.Assign):
                    for t in n.targets:
                        targets.extend(_flatten_targets(t, n.value))
                elif isinstance(n, (ast.AugAssign, ast.AnnAssign)):
                    targets.append((n.target, n.value))
                for t, v in targets:
                    if isinstance(t, ast.Attribute) and isinstance(t.value, ast.Name) and t.value.id == selfname:
                        out.setdefault(f.cls.qualname, {}).setdefault(t.attr, []).append((f, n, v))
        self._attr_stores = out
        return out

    def attr_stores_mro(self, cls, attr):
        """stores to self.<attr> visible on an instance of cls (own class and bases)."""
        res = []
        st = self.attr_stores()
        for c in cls.mro:
            res.extend(st.get(c.qualname, {}).get(attr, []))
        return res


def _flatten_targets(t, value):
    if isinstance(t, (ast.Tuple, ast.List)):
        out = []
        vals = value.elts if isinstance(value, (ast.Tuple, ast.List)) and len(value.elts) == len(t.elts) else None
        for i, e in enumerate(t.elts):
            out.extend(_flatten_targets(e, vals[i] if vals else value))
        return out
    return [(t, value)]


def parent(node):
    return getattr(node, '_parent', None)


def enclosing_stmt(node):
    n = node
    while n is not None and not isinstance(n, ast.stmt):
        n = parent(n)
    return n


def conditional_def(fnode, name):
    """`if c: name = a  else: name = b` (the only definitions of ``name``) as the expression `a if c else b`."""
    defs = [n for n in ast.walk(fnode) if isinstance(n, ast.Assign) and len(n.targets) == 1 and U(n.targets[0]) == name]
    if len(defs) != 2:
        return None
    p0, p1 = parent(defs[0]), parent(defs[1])
    if p0 is not p1 or not isinstance(p0, ast.If) or len(p0.body) != 1 or len(p0.orelse) != 1:
        return None
    a = p0.body[0] if p0.body[0] in defs else None
    b = p0.orelse[0] if p0.orelse[0] in defs else None
    if a is None or b is None:
        return None
    e = ast.IfExp(test=p0.test, body=a.value, orelse=b.value)
    ast.copy_location(e, p0)
    e._parent = p0
    return e


def enclosing_func_node(node):
    n = parent(node)
    while n is not None and not isinstance(n, (ast.FunctionDef, ast.AsyncFunctionDef)):
        n = parent(n)
    return n


# ---------------------------------------------------------------------------
# Reporting
# ---------------------------------------------------------------------------

class Finding:
    def __init__(self, prop, rule, func, construct, message, line=None, file=None, detail=None, key_extra=None):
        self.prop = prop
        self.rule = rule
        self.func = func if isinstance(func, str) else (func.qualname if func is not None else '')
        self.construct = construct if isinstance(construct, str) else norm_stmt(construct)
        self.message = message
        self.line = line if line is not None else getattr(construct, 'lineno', None)
        if file is None and not isinstance(func, str) and func is not None:
            file = func.module.relpath
        self.file = file
        self.detail = detail or {}
        self.key_extra = key_extra

    @property
    def key(self):
        k = '%s|%s|%s' % (self.rule, self.func, self.construct)
        if self.key_extra:
            k += '|' + self.key_extra
        return k

    def as_dict(self):
        return {'property': self.prop, 'rule': self.rule, 'function': self.func, 'file': self.file,
                'line': self.line, 'construct': self.construct, 'message': self.message,
                'key': self.key, 'detail': self.detail}

    def __str__(self):
        return '%s %s:%s %s [%s] %s  <<%s>>' % (self.rule, self.file, self.line, self.func, self.prop,
                                              self.message, self.construct)


class Context:
    """One run of one property check: collects obligations, findings, samples."""

    def __init__(self, prop, program, tier='quick', seed=0):
        self.prop = prop
        self.P = program
        self.tier = tier
        self.seed = seed
        self.findings = []
        self.obligations = 0
        self.discharged = 0
        self.nontrivial = set()
        self.samples = []
        self.rule_counts = {}
        self.rule_docs = {}
        self.functions_visited = set()
        self.notes = []
        self.t0 = time.time()

    def rule(self, rule_id, doc):
        self.rule_docs[rule_id] = doc
        self.rule_counts.setdefault(rule_id, [0, 0])

    def visit(self, func):
        if func is not None:
            self.functions_visited.add(func if isinstance(func, str) else func.qualname)

    def ok(self, rule, func, construct, what, nontrivial=True, sample=None):
        """Record one discharged obligation (rule instance that holds)."""
        self.obligations += 1
        self.discharged += 1
        self.rule_counts.setdefault(rule, [0, 0])
        self.rule_counts[rule][0] += 1
        self.rule_counts[rule][1] += 1
        self.visit(func)
        fn = func if isinstance(func, str) else (func.qualname if func is not None else '')
        cs = construct if isinstance(construct, str) else norm_stmt(construct)
        if nontrivial:
            self.nontrivial.add((rule, fn, cs))
        if len([s for s in self.samples if s.get('rule') == rule]) < 4:
            s = {'rule': rule, 'site': fn, 'construct': cs, 'verdict': 'holds', 'what': what}
            if sample:
                s.update(sample)
            self.samples.append(s)

    def fail(self, rule, func, construct, message, detail=None, key_extra=None, line=None):
        self.obligations += 1
        self.rule_counts.setdefault(rule, [0, 0])
        self.rule_counts[rule][0] += 1
        self.visit(func)
        f = Finding(self.prop, rule, func, construct, message, detail=detail, key_extra=key_extra, line=line)
        if any(g.key == f.key for g in self.findings):
            return f        # same construct already reported (e.g. once per layout mode)
        self.findings.append(f)
        self.nontrivial.add((rule, f.func, f.construct))
        self.samples.append({'rule': rule, 'site': f.func, 'construct': f.construct,
                             'verdict': 'VIOLATED', 'what': message})
        return f

    def floor(self, rule, n, what=''):
        """Instance floor: fewer than ``n`` instances of ``rule`` means the anchor vanished."""
        self.floors = getattr(self, 'floors', [])
        self.floors.append((rule, n, what))

    def check_floors(self):
        """evaluated at the end of a run, and only when nothing was positively identified as violated: a finding
        usually removes the instances that depended on the broken construct."""
        for (rule, n, what) in getattr(self, 'floors', []):
            got = self.rule_counts.get(rule, [0, 0])[0]
            if got < n:
                raise AnalysisError('rule %s found %d instance(s), floor is %d (%s): anchor vanished or idiom '
                                    'not recognised' % (rule, got, n, what))


def load_known_findings():
    p = os.path.join(VERIF, 'known_findings.json')
    if not os.path.exists(p):
        return {'known': [], 'fixed': []}
    with open(p) as f:
        return json.load(f)


def finish(ctx, level_explanation, assumptions, not_decided):
    """Write evidence, print report lines, return exit code."""
    known = load_known_findings()
    known_keys = {k['key']: k for k in known.get('known', []) if k.get('property') == ctx.prop}
    new, listed = [], []
    for f in ctx.findings:
        (listed if f.key in known_keys else new).append(f)
    if not new:
        ctx.check_floors()
    evdir = os.environ.get('SGZ_EVIDENCE_DIR') or os.path.join(VERIF, 'evidence')
    os.makedirs(os.path.join(evdir, 'replay'), exist_ok=True)
    if not getattr(ctx, 'only', None):
        for fn in os.listdir(os.path.join(evdir, 'replay')):
            if fn.startswith(ctx.prop + '-'):
                os.remove(os.path.join(evdir, 'replay', fn))
    lines = []
    for f in listed:
        lines.append('KNOWN-FINDING: property=%s %s' % (ctx.prop, known_keys[f.key].get('what', f.message)))
    replay_paths = []
    for f in new:
        h = hashlib.sha1(f.key.encode()).hexdigest()[:10]
        rp = os.path.join(evdir, 'replay', '%s-%s-%s.json' % (ctx.prop, f.rule, h))
        rec = f.as_dict()
        rec['rerun'] = './check %s --only %s' % (ctx.prop, f.rule)
        with open(rp, 'w') as fh:
            json.dump(rec, fh, indent=1)
        replay_paths.append(rp)
        lines.append('FINDING %s' % f)
        lines.append('VIOLATION property=%s replay=%s' % (ctx.prop, rp))
    rules = {r: {'doc': ctx.rule_docs.get(r, ''), 'instances': c[0], 'discharged': c[1]}
             for r, c in sorted(ctx.rule_counts.items())}
    cov = {
        'explanation': level_explanation,
        'obligations': ctx.obligations,
        'discharged': ctx.discharged,
        'evaluations': max(ctx.obligations, 0),
        'distinct_nontrivial': len(ctx.nontrivial),
        'rule': 'one evaluation = one rule instance at one construct of /repo (all sites of each anchor are '
                'enumerated, no sampling); non-trivial = the verdict depended on at least one non-constant '
                'expression or path of the analysed source; distinct = distinct (rule, function, construct)',
        'samples': ctx.samples[:40],
        'exhaustive': True,
        'rules': rules,
        'units_analysed': ctx.P.units(),
        'functions_visited': sorted(ctx.functions_visited),
        'not_decided': not_decided,
        'known_findings_reproduced': [f.key for f in listed],
        'notes': ctx.notes,
        'checker_cmd': './check %s --tier %s' % (ctx.prop, ctx.tier),
        'trusted_base': assumptions,
    }
    if getattr(ctx, 'selftest', None) is not None:
        cov['selftest'] = ctx.selftest
    ev = {'property_id': ctx.prop, 'tier': ctx.tier, 'seed': ctx.seed, 'level': 'other',
          'coverage': cov, 'assumptions': assumptions, 'wall_s': round(time.time() - ctx.t0, 3),
          'violations': len(new)}
    with open(os.path.join(evdir, ctx.prop + '.json'), 'w') as fh:
        json.dump(ev, fh, indent=1, default=str)
    print('%s tier=%s rules=%d instances=%d discharged=%d findings=%d (known %d) functions=%d wall=%.2fs' % (
        ctx.prop, ctx.tier, len(rules), ctx.obligations, ctx.discharged, len(ctx.findings), len(listed),
        len(ctx.functions_visited), time.time() - ctx.t0))
    for r, d in rules.items():
        print('  %-8s %3d/%-3d %s' % (r, d['discharged'], d['instances'], d['doc'][:100]))
    for ln in lines:
        print(ln)
    sys.stdout.flush()
    return 1 if new else 0
