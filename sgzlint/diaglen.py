"""Diagonal lengths (C02.7 / C14.1): the length functions bound the ordinals along a diagonal, and C14 accepts them as
real extents.  That is only sound if they return exactly the number of grid cells on the diagonal.

The specification is *derived from the reader's own index polynomials*: along a diagonal the trace ordinal is
IL(d)*n_xl + XL(d) with IL(d) = a + d and XL(d) = b + s*d (s = +1 correlated, -1 anticorrelated); cell d exists iff
0 <= IL(d) < n_il and 0 <= XL(d) < n_xl, so the length is min(n_il - a, n_xl - b) for s = +1 and min(n_il - a, b + 1)
for s = -1 (the lower bounds hold at d = 0 by the id guard).

Every path of the length function (conjunction of its branch conditions, `abs`, `min`, `max` resolved by case
splits on the sign of the id and on the order of n_il and n_xl) is compared with that minimum under the path
condition, the id guard and the reader branch.  Linear facts are decided by a small Farkas search: E >= 0 follows
from constraints C_i >= 0 when E - sum k_i*C_i is a non-negative constant for some k_i in {0, 1, 2}.  There is no
enumeration of values and no external solver; an undecidable comparison is an analysis error.
"""
import ast
import itertools
from fractions import Fraction
from .core import U, AnalysisError
from .algebra import Poly

A = Poly.atom
C = Poly.const
NI, NX = A('n_il'), A('n_xl')


def _lin(p):
    """Poly (degree <= 1) -> ({atom: coef}, const); None if not linear"""
    co, c0 = {}, Fraction(0)
    for k, v in p.t.items():
        if k == ():
            c0 += v
        elif len(k) == 1 and k[0][1] == 1:
            co[k[0][0]] = co.get(k[0][0], Fraction(0)) + v
        else:
            return None
    return co, c0


def infeasible(cons):
    """Fourier-Motzkin over the rationals: is {c >= 0 for c in cons} empty?  (rational emptiness implies integer
    emptiness; a rationally feasible but integer-empty system is simply not proved - the caller then reports an
    analysis error, never a verdict)."""
    rows = []
    for c in cons:
        l = _lin(c)
        if l is None:
            raise AnalysisError('non-linear constraint %r in the diagonal-length analysis' % (c,))
        rows.append(l)
    vars_ = sorted({a for co, _ in rows for a in co})
    for v in vars_:
        pos = [(co, c0) for co, c0 in rows if co.get(v, 0) > 0]
        neg = [(co, c0) for co, c0 in rows if co.get(v, 0) < 0]
        rest = [(co, c0) for co, c0 in rows if co.get(v, 0) == 0]
        for (cp, kp) in pos:
            for (cn, kn) in neg:
                a, b = cp[v], -cn[v]
                co = {}
                for x in set(cp) | set(cn):
                    if x == v:
                        continue
                    val = cp.get(x, 0) * b + cn.get(x, 0) * a
                    if val != 0:
                        co[x] = val
                rest.append((co, kp * b + kn * a))
        rows = rest
        if len(rows) > 4000:
            raise AnalysisError('diagonal-length analysis: constraint system too large')
    return any(not co and c0 < 0 for co, c0 in rows)


def implies(cons, e):
    """cons: list of Poly (each >= 0, integer valued).  Is e >= 0 implied?  (e <= -1 must be infeasible)"""
    return infeasible(list(cons) + [-e - 1])


class NeedSplit(Exception):
    def __init__(self, a, b):
        self.a, self.b = a, b


class LenFunc:
    def __init__(self, f, id_param, ni_param, nx_param):
        self.f = f
        self.names = {id_param: A('id'), ni_param: NI, nx_param: NX}
        self.names_src = {id_param, ni_param, nx_param}

    def paths(self):
        """-> list of (conditions [(test node, truth)], return expr node)"""
        out = []

        import copy

        class Sub(ast.NodeTransformer):
            def __init__(self, env):
                self.env = env

            def visit_Name(self, n):
                if isinstance(n.ctx, ast.Load) and n.id in self.env:
                    return copy.deepcopy(self.env[n.id])
                return n

        def walk(stmts, conds, env):
            """paths through a statement list; returns the states (conds, env) that fall off its end.
            env: result locals assigned on this path (name -> expression over the parameters)"""
            if not stmts:
                return [(conds, env)]
            st, rest = stmts[0], stmts[1:]
            if isinstance(st, ast.Return):
                out.append((list(conds), Sub(env).visit(copy.deepcopy(st.value))))
                return []
            if isinstance(st, ast.If):
                falls = walk(st.body, conds + [(st.test, True)], dict(env)) + \
                    walk(st.orelse, conds + [(st.test, False)], dict(env))
                res = []
                for (c, e) in falls:
                    res.extend(walk(rest, c, e))
                return res
            if isinstance(st, ast.Assign) and len(st.targets) == 1 and isinstance(st.targets[0], ast.Name) and \
                    st.targets[0].id not in self.names_src:
                env = dict(env)
                env[st.targets[0].id] = Sub(env).visit(copy.deepcopy(st.value))
                return walk(rest, conds, env)
            if isinstance(st, (ast.Expr, ast.Pass)):
                return walk(rest, conds, env)
            raise AnalysisError('%s: statement `%s` is outside the length algebra' % (self.f.qualname, U(st)[:40]))
        walk(self.f.node.body, [], {})
        return out

    # expressions -> Poly, under a constraint set (for abs / min / max)
    def ev(self, e, cons):
        if isinstance(e, ast.Constant) and isinstance(e.value, int):
            return C(e.value)
        if isinstance(e, ast.Name) and e.id in self.names:
            return self.names[e.id]
        if isinstance(e, ast.UnaryOp) and isinstance(e.op, ast.USub):
            return -self.ev(e.operand, cons)
        if isinstance(e, ast.BinOp) and isinstance(e.op, (ast.Add, ast.Sub)):
            l, r = self.ev(e.left, cons), self.ev(e.right, cons)
            return l + r if isinstance(e.op, ast.Add) else l - r
        if isinstance(e, ast.Call) and U(e.func) == 'abs' and len(e.args) == 1:
            v = self.ev(e.args[0], cons)
            if implies(cons, v):
                return v
            if implies(cons, -v):
                return -v
            raise NeedSplit(v, C(0))
        if isinstance(e, ast.Call) and U(e.func) in ('min', 'max') and len(e.args) == 2:
            a, b = self.ev(e.args[0], cons), self.ev(e.args[1], cons)
            if implies(cons, b - a):
                return a if U(e.func) == 'min' else b
            if implies(cons, a - b):
                return b if U(e.func) == 'min' else a
            raise NeedSplit(a, b)
        raise AnalysisError('%s: expression `%s` is outside the length algebra' % (self.f.qualname, U(e)[:50]))

    def cond_polys(self, test, truth, cons):
        """a test (or its negation) as a list of polys >= 0; `!=` cannot be expressed -> None (skipped: weaker facts)"""
        if isinstance(test, ast.Compare) and len(test.ops) == 1:
            l, r = self.ev(test.left, cons), self.ev(test.comparators[0], cons)
            op = type(test.ops[0])
            if not truth:
                op = {ast.Gt: ast.LtE, ast.GtE: ast.Lt, ast.Lt: ast.GtE, ast.LtE: ast.Gt, ast.Eq: ast.NotEq, ast.NotEq: ast.Eq}[op]
            if op is ast.Gt:
                return [l - r - 1]
            if op is ast.GtE:
                return [l - r]
            if op is ast.Lt:
                return [r - l - 1]
            if op is ast.LtE:
                return [r - l]
            if op is ast.Eq:
                return [l - r, r - l]
            return []
        if isinstance(test, ast.Compare) and len(test.ops) == 2 and truth:
            # a <= x < b
            out = []
            left = test.left
            for op, right in zip(test.ops, test.comparators):
                out += self.cond_polys(ast.Compare(left=left, ops=[op], comparators=[right]), True, cons)
                left = right
            return out
        if isinstance(test, ast.Compare) and len(test.ops) == 2 and not truth:
            return None     # a disjunction: handled by the caller through case splitting
        raise AnalysisError('%s: test `%s` is outside the length algebra' % (self.f.qualname, U(test)[:50]))


def check_family(ctx, rule, f, params, guard, branches):
    """guard: polys >= 0 describing the valid ids; branches: list of (name, extra constraints, [bound polys]) -
    the reader's branches with the bounds whose minimum is the length."""
    lf = LenFunc(f, *params)
    n = 0
    for order_name, order in (('n_il < n_xl', [NX - NI - 1]), ('n_il == n_xl', [NX - NI, NI - NX]), ('n_il > n_xl', [NI - NX - 1])):
        base = [NI - 2, NX - 2] + guard + order
        for bname, bcons, bounds in branches:
            cons0 = base + bcons
            if infeasible(cons0):
                continue
            for conds, ret in lf.paths():
                cons = list(cons0)
                skip = False
                for (t, truth) in conds:
                    try:
                        cp = lf.cond_polys(t, truth, cons)
                    except NeedSplit:
                        raise AnalysisError('%s: test `%s` needs a case split that is not implemented' % (f.qualname, U(t)))
                    if cp is None:
                        # negated chained comparison a <= x < b: split into x < a  or  x >= b
                        left, mid, right = t.left, t.comparators[0], t.comparators[1]
                        alts = [lf.cond_polys(ast.Compare(left=left, ops=[t.ops[0]], comparators=[mid]), False, cons),
                                lf.cond_polys(ast.Compare(left=mid, ops=[t.ops[1]], comparators=[right]), False, cons)]
                        feas = [a_ for a_ in alts if not infeasible(cons + a_)]
                        if len(feas) != 1:
                            if not feas:
                                skip = True
                                break
                            raise AnalysisError('%s: negation of `%s` leaves two feasible cases' % (f.qualname, U(t)))
                        cp = feas[0]
                    cons = cons + cp
                    if infeasible(cons):
                        skip = True
                        break
                if skip:
                    continue
                n += _compare(ctx, rule, f, lf, ret, cons, bounds, order_name, bname, 0)
    return n


def _compare(ctx, rule, f, lf, ret, cons, bounds, order_name, bname, depth):
    if infeasible(cons):
        return 0
    try:
        val = lf.ev(ret, cons)
    except NeedSplit as sp:
        if depth >= 4:
            raise AnalysisError('%s: too many case splits in `%s`' % (f.qualname, U(ret)))
        return _compare(ctx, rule, f, lf, ret, cons + [sp.b - sp.a], bounds, order_name, bname, depth + 1) + \
            _compare(ctx, rule, f, lf, ret, cons + [sp.a - sp.b - 1], bounds, order_name, bname, depth + 1)
    mins = [b for b in bounds if all(implies(cons, o - b) for o in bounds if o is not b)]
    if not mins:
        if depth >= 2 or len(bounds) != 2:
            raise AnalysisError('%s: cannot order the bounds %s on path `%s` (%s, %s)' % (f.qualname, bounds, U(ret), order_name, bname))
        b1, b2 = bounds
        return _compare(ctx, rule, f, lf, ret, cons + [b2 - b1], bounds, order_name, bname + ', %r <= %r' % (b1, b2), depth + 1) + \
            _compare(ctx, rule, f, lf, ret, cons + [b1 - b2 - 1], bounds, order_name, bname + ', %r > %r' % (b1, b2), depth + 1)
    want = mins[0]
    label = '%s | %s | returns %s' % (order_name, bname, U(ret))
    if val == want or (implies(cons, val - want) and implies(cons, want - val)):
        ctx.ok(rule, f, label, 'length = %r = min%r of the cells the reader addresses' % (want, tuple(bounds)))
    elif implies(cons, val - want - 1):
        ctx.fail(rule, f, ret, 'for %s, %s the function returns `%s` = %r, but the diagonal holds %r cells: ordinals '
                 'beyond the last cell pass the bounds check and address traces of a neighbouring line (or '
                 'padding)' % (order_name, bname, U(ret), val, want), key_extra=U(ret))
    elif implies(cons, want - val - 1):
        ctx.fail(rule, f, ret, 'for %s, %s the function returns `%s` = %r, but the diagonal holds %r cells: the '
                 'diagonal is cut short' % (order_name, bname, U(ret), val, want), key_extra=U(ret))
    else:
        # neither always equal nor always apart: look for a concrete point of this case where they differ (a
        # constructive counterexample of the two extracted formulas; nothing of the package is executed)
        w = _witness(cons, val - want)
        if w is None:
            raise AnalysisError('%s: cannot compare `%s` with the diagonal length %r (%s, %s)' % (
                f.qualname, U(ret), want, order_name, bname))
        pt, diff = w
        ctx.fail(rule, f, ret, 'for %s, %s the function returns `%s` = %r where the diagonal holds %r cells: e.g. n_il=%d, '
                 'n_xl=%d, id=%d gives %+d' % (order_name, bname, U(ret), val, want, pt['n_il'], pt['n_xl'], pt['id'], diff),
                 key_extra=U(ret))
    return 1


def _value(p, pt):
    tot = Fraction(0)
    for k, v in p.t.items():
        term = v
        for a, e in k:
            term = term * (pt[a] ** e)
        tot += term
    return tot


def _witness(cons, diff):
    for ni in range(2, 8):
        for nx in range(2, 8):
            for i in range(-8, 15):
                pt = {'n_il': ni, 'n_xl': nx, 'id': i}
                if all(_value(c, pt) >= 0 for c in cons):
                    d = _value(diff, pt)
                    if d != 0:
                        return pt, int(d)
    return None


def check(ctx, rule):
    P = ctx.P
    cd = P.func('utils.get_correlated_diagonal_length')
    ad = P.func('utils.get_anticorrelated_diagonal_length')
    ID = A('id')
    n = 0
    # correlated: id in (-n_xl, n_il); id >= 0: IL = d + id, XL = d ; id < 0: IL = d, XL = d - id
    n += check_family(ctx, rule, cd, tuple(cd.params[:3]), [ID + NX - 1, NI - ID - 1],
                      [('id >= 0', [ID], [NI - ID, NX]), ('id < 0', [-ID - 1], [NI, NX + ID])])
    # anticorrelated: id in [0, n_il + n_xl - 1); id < n_xl: IL = d, XL = id - d ; else IL = id - n_xl + 1 + d, XL = n_xl - 1 - d
    n += check_family(ctx, rule, ad, tuple(ad.params[:3]), [ID, NI + NX - 2 - ID],
                      [('id < n_xl', [NX - ID - 1], [NI, ID + 1]), ('id >= n_xl', [ID - NX], [NI + NX - 1 - ID, NX])])
    if n < 8:
        raise AnalysisError('diagonal length functions: only %d (path, case) combinations analysed' % n)
