"""Dimensionality refusals (C09.5 / C13.3 / C14.3).

3D-only attribute  = attribute of the reader stored in __init__ only on statements that are
                     unreachable for a 2D file (read off the code: ilines, xlines today).
mode-specific event = a read of such an attribute, or a call of a SgzLoader3d (resp. SgzLoader2d)
                     method.
A method of SgzReader is 3D-only (2D-only) when its body contains such an event or calls a
3D-only (2D-only) method of the reader.  Obligation: with the reader in the *other* mode, no
event is reachable, and every exit is `raise WrongDimensionalityError(..)` or the return of a
call to a method that refuses in its turn.
"""
import ast
from .core import U, AnalysisError
from . import readerfacts as RF


def mode_only_attrs(P):
    """-> {'3d': set(attrs only assigned for 3D files), '2d': set(...)}"""
    init = P.func(RF.READER + '.__init__')
    out = {}
    stores = {}
    for n in ast.walk(init.node):
        if isinstance(n, ast.Assign):
            for t in n.targets:
                for x in ([t] if not isinstance(t, (ast.Tuple, ast.List)) else t.elts):
                    if isinstance(x, ast.Attribute) and U(x.value) == 'self':
                        stores.setdefault(x.attr, []).append(n)
    for mode, other in (('3d', '2d'), ('2d', '3d')):
        fm_other = RF.factmap(P, init, other)
        fm_mode = RF.factmap(P, init, mode)
        s = set()
        for a, stmts in stores.items():
            if all(not fm_other.is_reachable(st) for st in stmts) and any(fm_mode.is_reachable(st) for st in stmts):
                s.add(a)
        out[mode] = s
    return out


class DimGuard:
    def __init__(self, P, G):
        self.P, self.G = P, G
        self.only = mode_only_attrs(P)
        if not self.only['3d']:
            raise AnalysisError('no 3D-only attribute found in SgzReader.__init__ (expected the line-number axes)')
        self.loader3d = P.cls('loader.SgzLoader3d')
        self.loader2d = P.cls('loader.SgzLoader2d')
        self.reader = P.cls(RF.READER)
        self.kind = {}     # qualname -> '3d' | '2d' | None
        self._classify()

    def events(self, f, mode):
        """nodes in f that are specific to files of ``mode``"""
        ev = []
        lcls = self.loader3d if mode == '3d' else self.loader2d
        for n in ast.walk(f.node):
            if isinstance(n, ast.Attribute) and isinstance(n.ctx, ast.Load) and U(n.value) == 'self' \
                    and n.attr in self.only[mode]:
                ev.append((n, 'reads %s-only attribute self.%s' % (mode.upper(), n.attr)))
            elif isinstance(n, ast.Call):
                es = [e for e in self.G.edges_at(f, n) if e.target is not None]
                if es and all(e.target.cls is not None and e.target.name in lcls.methods and e.target.cls is lcls
                              for e in es):
                    ev.append((n, 'calls %s' % es[0].target.qualname))
        return ev

    def _classify(self):
        """touches(k): direct events of kind k, or any call to a reader method that touches k.
        A method is k-only iff it touches k and does not touch the other kind."""
        methods = list(self.reader.methods.values())
        touch = {m.qualname: set() for m in methods}
        for m in methods:
            for k in ('3d', '2d'):
                if self.events(m, k):
                    touch[m.qualname].add(k)
        changed = True
        while changed:
            changed = False
            for m in methods:
                for e in self.G.callees(m):
                    if e.target is not None and e.target.qualname in touch:
                        new = touch[e.target.qualname] - touch[m.qualname]
                        if new:
                            touch[m.qualname] |= new
                            changed = True
        for m in methods:
            t = touch[m.qualname]
            self.kind[m.qualname] = next(iter(t)) if len(t) == 1 else None

    def check(self, ctx, rule):
        checked = 0
        for m in self.reader.methods.values():
            k = self.kind.get(m.qualname)
            if k is None or m.name.startswith('__'):
                continue
            if m.name.startswith('_'):
                continue
            other = '2d' if k == '3d' else '3d'
            fm = RF.factmap(self.P, m, other)
            bad = []
            for (n, what) in self.events(m, k):
                if fm.is_reachable(n):
                    bad.append((n, what))
            exits_ok = True
            why = ''
            for (kind, stmt, facts) in fm.exits:
                if kind == 'raise':
                    exc = stmt.exc
                    name = U(exc.func) if isinstance(exc, ast.Call) else U(exc)
                    if name.split('.')[-1] != 'WrongDimensionalityError':
                        exits_ok, why = False, 'exit raises %s, not the dimensionality error' % name
                elif kind == 'return':
                    v = stmt.value
                    ok = False
                    if v is not None:
                        for c in ast.walk(v):
                            if isinstance(c, ast.Call):
                                for e in self.G.edges_at(m, c):
                                    if e.target is not None and self.kind.get(e.target.qualname) == k:
                                        ok = True
                    if not ok:
                        exits_ok, why = False, 'returns normally for a %s file' % other.upper()
                else:
                    exits_ok, why = False, 'falls off the end for a %s file' % other.upper()
            checked += 1
            label = '%s [%s-only, %s file]' % (m.name, k.upper(), other.upper())
            if bad:
                n, what = bad[0]
                ctx.fail(rule, m, fm.stmt_of(n) or n,
                         '%s is %s-only but on a %s file it %s before any dimensionality refusal' % (
                             m.name, k.upper(), other.upper(), what), line=n.lineno,
                         detail={'method': m.name, 'event': what})
            elif not exits_ok:
                ctx.fail(rule, m, m.name, '%s is %s-only but %s' % (m.name, k.upper(), why), line=m.node.lineno)
            else:
                ctx.ok(rule, m, label, 'no %s-only attribute read or loader call is reachable; every exit is the '
                       'dimensionality error or a delegation to a refusing method' % k.upper())
        return checked
