"""C01.1 / C09.1 / C08.3 - edge replication in the producers.

Accepted idioms (enumerated from the repository, each confirmed by reading):
  I1  np.pad(x, ((0, w0), (0, w1), ...), 'edge')           zero leading widths; trailing width of position j is
                                                            padded_extent[j] - real_extent[j] of the same axis
  I2  buf[.., N:, ..] = buf[.., N - 1, ..]                  N = real extent of the axis at that position; optionally
                                                            through np.expand_dims; other positions identical or ':'
  I3  the `else` of `i < <real items in this group>`        re-reads the last real item of the same group
                                                            (ordinal ... + <real items> - 1, or element [-1])
The irregular-grid filler is exempt (zero fill is what C08 demands) but must be selected by the
isinstance(geom, InferredGeometry3d) branch.
"""
import ast
from .core import U, AnalysisError, parent, enclosing_stmt
from .axes import axis_of_text


def sub_elts(s):
    sl = s.slice
    return list(sl.elts) if isinstance(sl, ast.Tuple) else [sl]


def strip_expand(v):
    while isinstance(v, ast.Call) and U(v.func).split('.')[-1] in ('expand_dims', 'asarray', 'array') and v.args:
        v = v.args[0]
    return v


class Fill:
    def __init__(self, kind, axis_pos, stmt, N=None):
        self.kind, self.pos, self.stmt, self.N = kind, axis_pos, stmt, N


def analyse_filler(f, bufparam):
    """classify the stores into the buffer parameter of a plane/trace filling function."""
    fills = []
    for n in ast.walk(f.node):
        if not isinstance(n, ast.Assign):
            continue
        tg = n.targets[0]
        if isinstance(tg, ast.Tuple):
            # `headers, buf[...] = reader.read_line(...)`
            subs = [t for t in tg.elts if isinstance(t, ast.Subscript) and U(t.value) == bufparam]
            if not subs:
                continue
            tg = subs[0]
        if not (isinstance(tg, ast.Subscript) and U(tg.value) == bufparam):
            continue
        te = sub_elts(tg)
        v = strip_expand(n.value)
        edge = None
        for j, e in enumerate(te):
            if isinstance(e, ast.Slice) and e.lower is not None and e.upper is None and U(e.lower) != '0':
                edge = (j, e.lower)
        if edge is not None:
            j, N = edge
            ok = False
            why = 'value is not a subscript of the same buffer'
            if isinstance(v, ast.Subscript) and U(v.value) == bufparam:
                ve = sub_elts(v)
                if len(ve) == len(te):
                    want = U(N) + ' - 1'
                    ok = U(ve[j]).replace(' ', '') == want.replace(' ', '')
                    why = 'position %d of the source is `%s`, not `%s`' % (j, U(ve[j]), want)
                    if ok:
                        for k, (a, b) in enumerate(zip(te, ve)):
                            if k == j:
                                continue
                            if U(a) != U(b):
                                ok = False
                                why = 'position %d differs between target `%s` and source `%s`' % (k, U(a), U(b))
            fills.append(Fill('edge' if ok else 'bad-edge', j, n, U(N)))
            fills[-1].why = '' if ok else why
        else:
            fills.append(Fill('real', None, n))
            fills[-1].target = tg
    return fills


def check_filler(ctx, rule, f, bufparam, group_count_names, label):
    fills = analyse_filler(f, bufparam)
    reals = [x for x in fills if x.kind == 'real']
    if not reals:
        raise AnalysisError('%s: no real-data store into %s found' % (f.qualname, bufparam))
    ndim = len(sub_elts(reals[0].target))
    # real extents per position from the real store: `0:N`
    ext = {}
    for r in reals:
        for j, e in enumerate(sub_elts(r.target)):
            if isinstance(e, ast.Slice) and e.upper is not None and (e.lower is None or U(e.lower) == '0'):
                ext.setdefault(j, set()).add(U(e.upper))
    for j in range(1, ndim):
        if j not in ext:
            raise AnalysisError('%s: real store does not bound position %d (`%s`)' % (f.qualname, j, U(reals[0].target)))
        if len(ext[j]) != 1:
            ctx.fail(rule, f, reals[0].stmt, 'real-data stores bound position %d by different extents %s' % (j, sorted(ext[j])))
            continue
        N = next(iter(ext[j]))
        edges = [x for x in fills if x.pos == j]
        good = [x for x in edges if x.kind == 'edge' and x.N == N]
        name = '%s axis position %d (real extent %s)' % (label, j, N)
        if not edges:
            ctx.fail(rule, f, reals[0].stmt, '%s: cells beyond the real extent are never filled: the padding stays zero instead '
                     'of repeating the edge sample' % name, key_extra='pos%d' % j)
            continue
        if not good:
            e = edges[0]
            ctx.fail(rule, f, e.stmt, '%s: edge fill `%s` does not copy the last real index (%s)' % (
                name, U(e.stmt)[:70], getattr(e, 'why', '') or 'starts at %s, the real extent is %s' % (e.N, N)),
                key_extra='pos%d' % j)
            continue
        e = good[0]
        # unconditional inside the per-item loop (applies to replicated items as well)
        p = parent(e.stmt)
        cond = False
        while p is not None and p is not f.node:
            if isinstance(p, ast.If):
                cond = True
            p = parent(p)
        if cond:
            ctx.fail(rule, f, e.stmt, '%s: the edge fill is conditional; replicated items keep zero padding' % name,
                     key_extra='pos%d' % j)
            continue
        # later positions must be filled after earlier ones and span them with ':' so corners are covered
        ctx.ok(rule, f, e.stmt, '%s: buf[.., N:, ..] = buf[.., N-1, ..], unconditionally' % name)
    # order: the fill of the last position spans ':' on earlier positions or comes after their fills
    edges = sorted([x for x in fills if x.kind == 'edge'], key=lambda x: x.stmt.lineno)
    for a in edges:
        for b in edges:
            if a.pos < b.pos and b.stmt.lineno < a.stmt.lineno:
                te = sub_elts(a.stmt.targets[0])
                if not (isinstance(te[b.pos], ast.Slice) and te[b.pos].lower is None and te[b.pos].upper is None):
                    ctx.fail(rule, f, a.stmt, 'corner cells: position %d is filled after position %d but only over `%s`' % (
                        a.pos, b.pos, U(te[b.pos])))
    for a in edges:
        for b in edges:
            if a.pos < b.pos and a.stmt.lineno < b.stmt.lineno:
                te = sub_elts(b.stmt.targets[0])
                if not (isinstance(te[a.pos], ast.Slice) and te[a.pos].lower is None and te[a.pos].upper is None):
                    ctx.fail(rule, f, b.stmt, 'corner cells: the fill of position %d covers only `%s` of position %d, so the '
                             'cells padded on both axes stay zero' % (b.pos, U(te[a.pos]), a.pos), key_extra='corner')
                else:
                    ctx.ok(rule, f, b.stmt, 'corner cells: fill of position %d spans all of position %d' % (b.pos, a.pos))
    # I3: the group axis (position 0): else-branch of `i < <real items>` repeats the last real item
    # the split `item < <real items of the group>` in any spelling: i < N, N > i (real items in the body),
    # i >= N, N <= i, not i < N (real items in the else branch)
    ifs = []
    for n in ast.walk(f.node):
        if not isinstance(n, ast.If):
            continue
        t, neg = n.test, False
        while isinstance(t, ast.UnaryOp) and isinstance(t.op, ast.Not):
            t, neg = t.operand, not neg
        if not (isinstance(t, ast.Compare) and len(t.ops) == 1):
            continue
        l, op, r = t.left, t.ops[0], t.comparators[0]
        real_in_body = None
        if U(r) in group_count_names and isinstance(l, ast.Name):
            real_in_body = True if isinstance(op, ast.Lt) else False if isinstance(op, ast.GtE) else None
            cnt_ = U(r)
        elif U(l) in group_count_names and isinstance(r, ast.Name):
            real_in_body = True if isinstance(op, ast.Gt) else False if isinstance(op, ast.LtE) else None
            cnt_ = U(l)
        if real_in_body is None:
            continue
        if neg:
            real_in_body = not real_in_body
        ifs.append((n, cnt_, n.orelse if real_in_body else n.body))
    if not ifs:
        ctx.fail(rule, f, f.name, '%s: no `i < %s` split between real and replicated items' % (label, '/'.join(group_count_names)))
        return
    g, cnt, repl = ifs[0]
    if not repl:
        ctx.fail(rule, f, g, '%s: items beyond the real ones in the last group are left zero (no else branch)' % label,
                 key_extra='group')
        return
    stores = [s for s in ast.walk(ast.Module(body=repl, type_ignores=[])) if isinstance(s, ast.Assign)]
    # the last real item of the group: ordinal <count> - 1, or the last trace of the source (2D: `.trace[-1]`)
    marker = lambda src: ('%s - 1' % cnt) in src or '.trace[-1]' in src
    flagged = set()
    changed = True
    while changed:
        changed = False
        for s in stores:
            if isinstance(s.targets[0], ast.Name) and s.targets[0].id not in flagged:
                src = U(s.value)
                if marker(src) or any(isinstance(x, ast.Name) and x.id in flagged for x in ast.walk(s.value)):
                    flagged.add(s.targets[0].id)
                    changed = True
    ok = True
    seen = []
    nbuf = 0
    for s in stores:
        tgts = s.targets[0].elts if isinstance(s.targets[0], ast.Tuple) else [s.targets[0]]
        if not any(isinstance(t, ast.Subscript) and U(t.value) == bufparam for t in tgts):
            continue
        nbuf += 1
        src = U(s.value)
        if not (marker(src) or any(isinstance(x, ast.Name) and x.id in flagged for x in ast.walk(s.value))):
            ok = False
            seen.append(U(s)[:80])
    if nbuf == 0:
        ok = False
        seen.append('no store into the buffer')
    if ok:
        ctx.ok(rule, f, repl[0], '%s: replicated items re-read the last real item of the group (%s - 1 / [-1])' % (label, cnt))
    else:
        ctx.fail(rule, f, repl[0], '%s: the else-branch of `i < %s` does not re-read the last real item (%s - 1): %s' % (
            label, cnt, cnt, seen), key_extra='group')


def check_np_pad(ctx, rule, f):
    """I1 in the numpy producer."""
    pads = [c for c in ast.walk(f.node) if isinstance(c, ast.Call) and U(c.func).split('.')[-1] == 'pad' and
            U(c.func).startswith(('np.', 'numpy.'))]
    if not pads:
        raise AnalysisError('%s: no np.pad call' % f.qualname)
    for c in pads:
        mode = None
        if len(c.args) >= 3:
            mode = c.args[2]
        for k in c.keywords:
            if k.arg == 'mode':
                mode = k.value
        if not (isinstance(mode, ast.Constant) and mode.value == 'edge'):
            ctx.fail(rule, f, enclosing_stmt(c), 'np.pad mode is %s, not \'edge\': padding is not edge replication' % (
                U(mode) if mode is not None else 'the default (constant zero)'), line=c.lineno)
            continue
        widths = c.args[1] if len(c.args) > 1 else None
        if not (isinstance(widths, ast.Tuple) and all(isinstance(w, ast.Tuple) and len(w.elts) == 2 for w in widths.elts)):
            raise AnalysisError('%s: np.pad widths are not a literal tuple of pairs' % f.qualname)
        probs = []
        for j, w in enumerate(widths.elts):
            lead, trail = w.elts
            if U(lead) != '0':
                probs.append('position %d pads %s leading cells' % (j, U(lead)))
            t = U(trail)
            if t == '0':
                continue
            # trailing width: padded_shape[j] - n_<axis j>   or a local defined as blockshape[j] - n % blockshape[j]
            d = t
            if isinstance(trail, ast.Name):
                defs = [a for a in ast.walk(f.node) if isinstance(a, ast.Assign) and U(a.targets[0]) == trail.id]
                if defs:
                    d = U(defs[0].value)
            idx = [int(x) for x in __import__('re').findall(r'(?:padded_shape|blockshape)\[(\d)\]', d)]
            ax_names = [axis_of_text(x) for x in __import__('re').findall(r'[A-Za-z_][A-Za-z_0-9]*', d)
                        if x not in ('padded_shape', 'blockshape')]
            ax_names = {a for a in ax_names if a in ('IL', 'XL', 'Z')}
            want_ax = ('IL', 'XL', 'Z')[j] if j < 3 else None
            if idx and any(i != j for i in idx):
                probs.append('position %d is padded by `%s`, which uses component %s' % (j, d, idx))
            if ax_names and ax_names != {want_ax}:
                probs.append('position %d (%s) is padded by `%s`, a %s quantity' % (j, want_ax, d, '/'.join(sorted(ax_names))))
        if probs:
            ctx.fail(rule, f, enclosing_stmt(c), 'np.pad widths: ' + '; '.join(probs), line=c.lineno)
        else:
            ctx.ok(rule, f, c, "np.pad(.., mode='edge') with zero leading widths and per-axis trailing widths")
