"""E2 - syntax-directed forward must-analysis over structured Python.

The package under analysis has no goto-like flow beyond break/continue/early
return/raise, so must-facts are computed by a walk over the statement tree:
facts-in -> facts-out per statement, a branch that ends in raise/return
contributes nothing to the join, joins are set intersection.

Facts (atoms) are tuples:
  ('<', a, b) ('<=', a, b) ('==', a, b) ('!=', a, b) ('is', a, b) ('isnot', a, b)
  ('in', a, b) ('notin', a, b)     comparison atoms over canonical expression text
  ('T', e) / ('F', e)              truthiness of an expression
  ('def', x, e)                    x currently holds the value of expression e
  ('called', f)                    a call whose callee text is f has completed on every path
  ('entered', ctx)                 inside a ``with ctx`` block
  ('exited', ctx)                  after a ``with ctx`` block
"""
import ast
import re
from .core import U

NEG = {'<': '<=', '<=': '<', '==': '!=', '!=': '==', 'is': 'isnot', 'isnot': 'is', 'in': 'notin', 'notin': 'in'}
OPS = {ast.Lt: '<', ast.LtE: '<=', ast.Gt: '>', ast.GtE: '>=', ast.Eq: '==', ast.NotEq: '!=', ast.Is: 'is',
       ast.IsNot: 'isnot', ast.In: 'in', ast.NotIn: 'notin'}

_tok = re.compile(r'[A-Za-z_][A-Za-z_0-9]*(?:\.[A-Za-z_][A-Za-z_0-9]*)*')


def tokens(s):
    """identifier chains in a text, with all their dotted prefixes (self.a.b -> self, self.a, self.a.b)."""
    out = set()
    for m in _tok.findall(s):
        parts = m.split('.')
        for i in range(1, len(parts) + 1):
            out.add('.'.join(parts[:i]))
    return out


def neg_atom(a):
    if a[0] == 'T':
        return ('F', a[1])
    if a[0] == 'F':
        return ('T', a[1])
    if a[0] in ('<', '<='):
        # not (x < y)  ==  y <= x
        return (NEG[a[0]], a[2], a[1])
    if a[0] in NEG:
        return (NEG[a[0]], a[1], a[2])
    return None


def cmp_atom(op, l, r):
    if op == '>':
        return ('<', r, l)
    if op == '>=':
        return ('<=', r, l)
    return (op, l, r)


class CondCtx:
    """alias table: attribute text -> ('not', other text), read off the code by the caller."""

    def __init__(self, aliases=None):
        self.aliases = aliases or {}

    def truthy(self, text, positive=True):
        seen = 0
        while text in self.aliases and seen < 5:
            kind, other = self.aliases[text]
            if kind == 'not':
                positive = not positive
            text = other
            seen += 1
        return ('T' if positive else 'F', text)


def truth(test, facts, cc):
    """True / False / None: value of ``test`` given the known facts."""
    if isinstance(test, ast.Constant):
        return bool(test.value)
    if isinstance(test, ast.UnaryOp) and isinstance(test.op, ast.Not):
        t = truth(test.operand, facts, cc)
        return None if t is None else (not t)
    if isinstance(test, ast.BoolOp):
        vals = [truth(v, facts, cc) for v in test.values]
        if isinstance(test.op, ast.And):
            if any(v is False for v in vals):
                return False
            return True if all(v is True for v in vals) else None
        if any(v is True for v in vals):
            return True
        return False if all(v is False for v in vals) else None
    if isinstance(test, ast.Compare):
        items = [test.left] + list(test.comparators)
        res = []
        for a, op, b in zip(items, test.ops, items[1:]):
            at = cmp_atom(OPS[type(op)], U(a), U(b))
            res.append(_atom_truth(at, facts))
        if any(v is False for v in res):
            return False
        return True if all(v is True for v in res) else None
    at = cc.truthy(U(test))
    r = _atom_truth(at, facts)
    if r is None and isinstance(test, (ast.Name, ast.Attribute)):
        # a flag (local or attribute) whose current definition on this path is a boolean literal
        for a in facts:
            if a[0] == 'def' and a[1] == U(test) and a[2] in ('True', 'False'):
                return a[2] == 'True'
    return r


def _atom_truth(at, facts):
    if at in facts:
        return True
    if at[0] in ('T', 'F'):
        # sticky mode assumptions ('mode', text, bool) survive re-assignment of the attribute
        if ('mode', at[1], at[0] == 'T') in facts:
            return True
        if ('mode', at[1], at[0] != 'T') in facts:
            return False
    n = neg_atom(at)
    if n is not None and n in facts:
        return False
    if at[0] in ('==', '!=') and (at[0], at[2], at[1]) in facts:
        return True
    if at[0] in ('==', '!=') and n is not None and (n[0], n[2], n[1]) in facts:
        return False
    # strict implies non-strict
    if at[0] == '<=' and ('<', at[1], at[2]) in facts:
        return True
    if at[0] == '<' and ('<=', at[2], at[1]) in facts:
        return False
    return None


def facts_true(test, facts, cc):
    """atoms implied when ``test`` evaluates true (given already-known facts)."""
    if isinstance(test, ast.UnaryOp) and isinstance(test.op, ast.Not):
        return facts_false(test.operand, facts, cc)
    if isinstance(test, ast.BoolOp):
        if isinstance(test.op, ast.And):
            out = set()
            for v in test.values:
                out |= facts_true(v, facts | out, cc)
            return out
        # Or: drop disjuncts known false; a single survivor must be true
        live = [v for v in test.values if truth(v, facts, cc) is not False]
        if len(live) == 1:
            return facts_true(live[0], facts, cc)
        if not live:
            return set()
        sets = [facts_true(v, facts, cc) for v in live]
        out = sets[0]
        for s in sets[1:]:
            out = out & s
        return out | {('T', U(test))}
    if isinstance(test, ast.Compare):
        items = [test.left] + list(test.comparators)
        out = set()
        for a, op, b in zip(items, test.ops, items[1:]):
            out.add(cmp_atom(OPS[type(op)], U(a), U(b)))
        return out
    if isinstance(test, ast.Constant):
        return set()
    out = {cc.truthy(U(test))}
    d = _flag_def(test, facts)
    if d is not None:
        out |= facts_true(d, facts, cc)
    return out


def _flag_def(test, facts, _depth=[0]):
    """a local flag whose definition on this path is a boolean expression (comparison / and / or / not / call-free
    name): the expression node, else None.  The def fact is only present while none of its operands was re-assigned."""
    if not isinstance(test, ast.Name) or _depth[0] > 3:
        return None
    for a in facts:
        if a[0] == 'def' and a[1] == test.id and isinstance(a[2], str) and a[2] not in ('True', 'False', test.id):
            try:
                e = ast.parse(a[2], mode='eval').body
            except SyntaxError:
                return None
            if isinstance(e, (ast.Compare, ast.BoolOp)) or (isinstance(e, ast.UnaryOp) and isinstance(e.op, ast.Not)):
                if not any(isinstance(x, ast.Name) and x.id == test.id for x in ast.walk(e)):
                    return e
    return None


def facts_false(test, facts, cc):
    if isinstance(test, ast.UnaryOp) and isinstance(test.op, ast.Not):
        return facts_true(test.operand, facts, cc)
    if isinstance(test, ast.BoolOp):
        if isinstance(test.op, ast.Or):
            out = set()
            for v in test.values:
                out |= facts_false(v, facts | out, cc)
            return out
        # And false: drop conjuncts known true; a single survivor must be false
        live = [v for v in test.values if truth(v, facts, cc) is not True]
        if len(live) == 1:
            return facts_false(live[0], facts, cc)
        if not live:
            return set()
        sets = [facts_false(v, facts, cc) for v in live]
        out = sets[0]
        for s in sets[1:]:
            out = out & s
        # the falsified conjunction itself is kept as a compound atom (disjunctive knowledge)
        return out | {('F', U(test))}
    if isinstance(test, ast.Compare):
        items = [test.left] + list(test.comparators)
        pairs = list(zip(items, test.ops, items[1:]))
        live = []
        for a, op, b in pairs:
            at = cmp_atom(OPS[type(op)], U(a), U(b))
            if _atom_truth(at, facts) is not True:
                live.append(at)
        if len(live) == 1:
            n = neg_atom(live[0])
            return {n} if n else set()
        return set()
    if isinstance(test, ast.Constant):
        return set()
    a = cc.truthy(U(test))
    out = {neg_atom(a)}
    d = _flag_def(test, facts)
    if d is not None:
        out |= facts_false(d, facts, cc)
    return out


def _target_names(t, out):
    if isinstance(t, (ast.Name, ast.Attribute)):
        out.add(U(t))
    elif isinstance(t, ast.Subscript):
        # a store through a subscript modifies the container, not the index expressions
        _target_names(t.value, out)
    elif isinstance(t, (ast.Tuple, ast.List)):
        for e in t.elts:
            _target_names(e, out)
    elif isinstance(t, ast.Starred):
        _target_names(t.value, out)


def assigned_names(nodes):
    """names / attribute texts / subscripted bases that may be (re)bound inside the given statements."""
    out = set()
    for s in nodes:
        for n in ast.walk(s):
            if isinstance(n, (ast.Assign, ast.AugAssign, ast.AnnAssign, ast.For, ast.comprehension, ast.NamedExpr)):
                tg = n.targets if isinstance(n, ast.Assign) else [n.target]
                for t in tg:
                    _target_names(t, out)
            elif isinstance(n, ast.With):
                for it in n.items:
                    if it.optional_vars is not None:
                        _target_names(it.optional_vars, out)
            elif isinstance(n, ast.ExceptHandler) and n.name:
                out.add(n.name)
    return out


def kill(facts, names):
    if not names:
        return facts
    out = set()
    for a in facts:
        if a[0] in ('called', 'calledat', 'entered', 'exited', 'mode'):
            out.add(a)
            continue
        if a[0] == 'def':
            if a[1] in names or (tokens(a[1]) & names) or (tokens(a[2]) & names):
                continue
            out.add(a)
            continue
        txt = ' '.join(str(x) for x in a[1:])
        if tokens(txt) & names:
            continue
        out.add(a)
    return out


class FactMap:
    """Result of walking one function: facts holding immediately before each statement, refined
    for sub-expressions guarded by IfExp / and / or / comprehension conditions.

    The walk is path-sensitive up to PATH_CAP distinct fact sets per program point (each `if`
    forks); beyond the cap the sets are joined (intersection).  ``facts_at`` returns the join over
    all paths reaching a node, ``paths_at`` the individual per-path fact sets."""

    PATH_CAP = 2048

    def __init__(self, func_node, assume=(), aliases=None, extra_terminators=()):
        self.node = func_node
        self.cc = CondCtx(aliases)
        self.before = {}        # id(stmt) -> [frozenset, ...]  (one per path class)
        self.reachable = set()
        self.exits = []         # (kind, stmt, facts) kind in return/raise/fall
        self.terminators = set(extra_terminators)   # call texts that never return (raise)
        self._parents = {}
        self._loops = []
        for n in ast.walk(func_node):
            for c in ast.iter_child_nodes(n):
                self._parents[id(c)] = n
        outs = self._walk(func_node.body, [frozenset(assume)])
        for o in outs:
            self.exits.append(('fall', None, o))

    # -- walking ----------------------------------------------------------
    def _norm(self, states):
        seen, out = set(), []
        for st in states:
            st = frozenset(st)
            if st not in seen:
                seen.add(st)
                out.append(st)
        if len(out) > self.PATH_CAP:
            j = out[0]
            for o in out[1:]:
                j = j & o
            out = [j]
        return out

    def _walk(self, body, states):
        states = self._norm(states)
        for s in body:
            if not states:
                return []
            self.before.setdefault(id(s), [])
            for st in states:
                if st not in self.before[id(s)]:
                    self.before[id(s)].append(st)
            self.reachable.add(id(s))
            nxt = []
            for st in states:
                nxt.extend(self._stmt(s, set(st)))
            states = self._norm(nxt)
        return states

    def _calls_in(self, node):
        """calls that are certainly evaluated when ``node`` is: not those in the arms of a conditional expression, after the
        first operand of and / or, or inside a lambda / comprehension element (evaluated zero or more times)."""
        out = []

        def walk(n):
            if isinstance(n, ast.Call):
                out.append(n)
            if isinstance(n, ast.IfExp):
                walk(n.test)
                return
            if isinstance(n, ast.BoolOp):
                walk(n.values[0])
                return
            if isinstance(n, ast.Lambda):
                return
            if isinstance(n, (ast.ListComp, ast.SetComp, ast.GeneratorExp, ast.DictComp)):
                walk(n.generators[0].iter)
                return
            for c in ast.iter_child_nodes(n):
                walk(c)
        walk(node)
        return out

    def _add_calls(self, facts, *nodes):
        for nd in nodes:
            if nd is None:
                continue
            for c in self._calls_in(nd):
                facts.add(('called', U(c.func)))
                facts.add(('calledat', U(c.func), c.lineno, c.col_offset))
                # a function held in a local: the call completes the function the local denotes on this path
                if isinstance(c.func, ast.Name):
                    for a in list(facts):
                        if a[0] == 'def' and a[1] == c.func.id and isinstance(a[2], str) and \
                                a[2].replace('.', '').replace('_', '').isalnum() and a[2] != c.func.id:
                            facts.add(('called', a[2]))
        return facts

    def _stmt(self, s, facts):
        """-> list of out fact sets (empty list: no fall-through)."""
        cc = self.cc
        if isinstance(s, ast.If):
            t = truth(s.test, facts, cc)
            base = self._add_calls(set(facts), s.test)
            if t is True:
                return self._walk(s.body, [base | facts_true(s.test, facts, cc)])
            if t is False:
                return self._walk(s.orelse, [base | facts_false(s.test, facts, cc)]) if s.orelse else [base]
            ft = self._walk(s.body, [base | facts_true(s.test, facts, cc)])
            ffin = base | facts_false(s.test, facts, cc)
            ff = self._walk(s.orelse, [ffin]) if s.orelse else [ffin]
            return list(ft) + list(ff)
        if isinstance(s, ast.Raise):
            self.exits.append(('raise', s, frozenset(facts)))
            return []
        if isinstance(s, ast.Return):
            self.exits.append(('return', s, frozenset(self._add_calls(set(facts), s.value))))
            return []
        if isinstance(s, ast.Assert):
            facts = self._add_calls(facts, s.test)
            return [facts | facts_true(s.test, facts, cc)]
        if isinstance(s, (ast.For, ast.AsyncFor)):
            facts = self._add_calls(facts, s.iter)
            names = assigned_names([s])
            inner = set(kill(facts, names))
            inner.add(('in', U(s.target), U(s.iter)))
            self._loops.append([])
            self._walk(s.body, [inner])
            brk = self._loops.pop()
            after = [set(kill(facts, names))]
            if s.orelse:
                after = self._walk(s.orelse, after)
            return list(after) + [set(b) for b in brk]
        if isinstance(s, ast.While):
            names = assigned_names([s])
            inner = set(kill(facts, names))
            t = truth(s.test, inner, cc)
            self._loops.append([])
            self._walk(s.body, [inner | facts_true(s.test, inner, cc)])
            brk = self._loops.pop()
            res = [] if t is True else [inner | facts_false(s.test, inner, cc)]
            return res + [set(b) for b in brk]
        if isinstance(s, ast.Break):
            if self._loops:
                self._loops[-1].append(frozenset(facts))
            return []
        if isinstance(s, ast.Continue):
            return []
        if isinstance(s, (ast.With, ast.AsyncWith)):
            for it in s.items:
                facts = self._add_calls(facts, it.context_expr)
                if it.optional_vars is not None:
                    facts = set(kill(facts, assigned_names([ast.Assign(targets=[it.optional_vars],
                                                                       value=it.context_expr)])))
                    if isinstance(it.optional_vars, ast.Name):
                        facts.add(('def', it.optional_vars.id, U(it.context_expr)))
            ctxs = [U(it.context_expr) for it in s.items]
            facts = set(facts) | {('entered', c) for c in ctxs}
            outs = self._walk(s.body, [facts])
            res = []
            for out in outs:
                out = {a for a in out if not (a[0] == 'entered' and a[1] in ctxs)}
                res.append(out | {('exited', c) for c in ctxs})
            return res
        if isinstance(s, ast.Try):
            names = assigned_names(s.body)
            outs = self._walk(s.body, [set(facts)])
            if s.orelse and outs:
                outs = self._walk(s.orelse, outs)
            outs = list(outs)
            for h in s.handlers:
                # handler entry: anything before any statement of the body may have happened
                hf = set(kill(facts, names))
                outs.extend(self._walk(h.body, [hf]))
            if s.finalbody:
                if outs:
                    return self._walk(s.finalbody, outs)
                self._walk(s.finalbody, [set(kill(facts, names))])
                return []
            return outs
        if isinstance(s, (ast.FunctionDef, ast.AsyncFunctionDef, ast.ClassDef, ast.Import, ast.ImportFrom,
                          ast.Pass, ast.Global, ast.Nonlocal)):
            return [facts]
        if isinstance(s, ast.Expr):
            facts = self._add_calls(facts, s.value)
            if isinstance(s.value, ast.Call) and U(s.value.func) in self.terminators:
                return []
            return [facts]
        if isinstance(s, (ast.Assign, ast.AnnAssign, ast.AugAssign)):
            value = s.value
            facts = self._add_calls(facts, value)
            targets = s.targets if isinstance(s, ast.Assign) else [s.target]
            names = assigned_names([s])
            facts = set(kill(facts, names))
            if isinstance(s, ast.Assign) and value is not None:
                for t in targets:
                    self._defs(t, value, facts, names)
            return [facts]
        if isinstance(s, ast.Delete):
            return [set(kill(facts, {U(t) for t in s.targets} |
                             {U(t.value) for t in s.targets if isinstance(t, ast.Subscript)}))]
        # anything else: treat as opaque, keep facts
        return [self._add_calls(facts, s)]

    def _defs(self, t, value, facts, names):
        if isinstance(t, (ast.Name, ast.Attribute)):
            vt = U(value)
            if not (tokens(vt) & names):
                facts.add(('def', U(t), vt))
        elif isinstance(t, (ast.Tuple, ast.List)):
            if isinstance(value, (ast.Tuple, ast.List)) and len(value.elts) == len(t.elts):
                for a, b in zip(t.elts, value.elts):
                    self._defs(a, b, facts, names)
            else:
                vt = U(value)
                if not (tokens(vt) & names):
                    for i, a in enumerate(t.elts):
                        if isinstance(a, (ast.Name, ast.Attribute)):
                            facts.add(('def', U(a), '(%s)[%d]' % (vt, i)))

    # -- queries ----------------------------------------------------------
    def stmt_of(self, node):
        n = node
        while n is not None and not isinstance(n, ast.stmt):
            n = self._parents.get(id(n))
        return n

    def is_reachable(self, node):
        s = self.stmt_of(node)
        return s is not None and id(s) in self.reachable

    def _refine(self, node, s, facts):
        facts = set(facts)
        chain = []
        n = node
        while n is not s and n is not None:
            p = self._parents.get(id(n))
            chain.append((p, n))
            n = p
        for p, child in reversed(chain):
            if isinstance(p, ast.IfExp):
                if child is p.body:
                    facts |= facts_true(p.test, facts, self.cc)
                elif child is p.orelse:
                    facts |= facts_false(p.test, facts, self.cc)
            elif isinstance(p, ast.BoolOp):
                idx = p.values.index(child) if child in p.values else 0
                for v in p.values[:idx]:
                    facts |= (facts_true if isinstance(p.op, ast.And) else facts_false)(v, facts, self.cc)
            elif isinstance(p, (ast.ListComp, ast.SetComp, ast.GeneratorExp, ast.DictComp)):
                bound = set()
                for g in p.generators:
                    bound |= {U(x) for x in ast.walk(g.target) if isinstance(x, ast.Name)}
                facts = set(kill(facts, bound))
                if not isinstance(child, ast.comprehension):
                    for g in p.generators:
                        facts.add(('in', U(g.target), U(g.iter)))
                        for c in g.ifs:
                            facts |= facts_true(c, facts, self.cc)
            elif isinstance(p, ast.Lambda):
                facts = set(kill(facts, {a.arg for a in p.args.args}))
        return frozenset(facts)

    def paths_at(self, node):
        """per-path must-facts holding when ``node`` is evaluated (list; [] if unreachable)."""
        s = self.stmt_of(node)
        if s is None or id(s) not in self.before:
            return []
        return [self._refine(node, s, st) for st in self.before[id(s)]]

    def facts_at(self, node):
        """must-facts holding on every path when ``node`` is evaluated (None if unreachable)."""
        ps = self.paths_at(node)
        if not ps:
            return None
        j = ps[0]
        for o in ps[1:]:
            j = j & o
        return j

    def resolve_def(self, name, facts):
        """current defining expression text of ``name`` if a ('def', name, e) fact holds."""
        for a in facts:
            if a[0] == 'def' and a[1] == name:
                return a[2]
        return None


def expand_defs(txt, facts, depth=0):
    """expression text with every name that has a ('def', name, e) fact replaced by its definition (to depth 3)."""
    import copy
    defs = {a[1]: a[2] for a in facts if a[0] == 'def' and isinstance(a[1], str) and a[1].isidentifier()}
    if not defs or depth > 3:
        return txt
    try:
        tree = ast.parse(txt, mode='eval')
    except SyntaxError:
        return txt
    changed = [False]

    class S(ast.NodeTransformer):
        def visit_Name(self, n):
            if isinstance(n.ctx, ast.Load) and n.id in defs and defs[n.id] != n.id:
                try:
                    changed[0] = True
                    return ast.parse(defs[n.id], mode='eval').body
                except SyntaxError:
                    return n
            return n
    new = S().visit(tree)
    out = ast.unparse(new)
    return expand_defs(out, facts, depth + 1) if changed[0] else out


def holds(facts, op, left, right):
    """(op, left, right) is a fact, modulo the definitions of single-assignment locals on this path."""
    if (op, left, right) in facts:
        return True
    L, R = expand_defs(left, facts), expand_defs(right, facts)
    for a in facts:
        if len(a) == 3 and a[0] == op and isinstance(a[1], str) and isinstance(a[2], str):
            if expand_defs(a[1], facts) == L and expand_defs(a[2], facts) == R:
                return True
    return False


def happened_before(fm, first_call, node):
    """on every path reaching ``node`` the call ``first_call`` (an ast.Call of the same function) completed."""
    # a call nested in the arguments (or the receiver) of ``node`` completes before ``node`` itself is called
    if isinstance(node, ast.Call):
        inner = list(node.args) + [k.value for k in node.keywords] + [node.func]
        if any(first_call is x for a in inner for x in ast.walk(a)):
            return True
    f = fm.facts_at(node)
    if f is None:
        return False
    return ('calledat', U(first_call.func), first_call.lineno, first_call.col_offset) in f


def dominated_by_call(fm, node, callee_text_pred):
    """True when on every path to ``node`` a call whose callee text satisfies the predicate completed."""
    f = fm.facts_at(node)
    if f is None:
        return False
    return any(a[0] == 'called' and callee_text_pred(a[1]) for a in f)
