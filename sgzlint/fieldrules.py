"""Rules over the segyio-style whole-file header accessors of the reader:

* ``constant_fields`` - a trace-field request (``attributes(field)``) is answered for fields that are constant through the
  file as well: the reader keeps arrays only for the *variant* fields (``variant_headers``), so a lookup in that store by
  a key that comes from the caller must be guarded by a membership / FileOffset test, or it raises KeyError for most
  fields of most files.
* ``text_codec`` - the 3200-byte textual header reaches the caller through conversions that are total and keep one
  output byte per stored byte (an ``errors='ignore'`` step drops characters and shifts the 80-column cards).
"""
import ast
from .core import U, AnalysisError
from .facts import tokens
from . import readerfacts as RF

VARIANT_STORE = 'variant_headers'


def _param_derived(fm, f, expr, facts, depth=0):
    names = {n.id.split('@')[0] for n in ast.walk(expr) if isinstance(n, ast.Name)}
    if names & set(f.call_params()):
        return True
    if depth < 3:
        for nm in names:
            d = fm.resolve_def(nm, facts)
            if d is not None:
                try:
                    e = ast.parse(d, mode='eval').body
                except SyntaxError:
                    continue
                if _param_derived(fm, f, e, facts, depth + 1):
                    return True
    return False


def _key_texts(key):
    """the key and what it wraps:  TraceField(tracefield) -> {'TraceField(tracefield)', 'tracefield'}"""
    out = {U(key)}
    k = key
    while isinstance(k, ast.Call) and len(k.args) == 1 and not k.keywords:
        k = k.args[0]
        out.add(U(k))
    return out


INTERNAL_ENUMERATIONS = ('stored_header_keys', VARIANT_STORE, 'segy_traceheader_template')


def _request_params(fm, f, expr, facts, depth=0):
    """parameters of ``f`` the expression is computed from"""
    names = {n.id.split('@')[0] for n in ast.walk(expr) if isinstance(n, ast.Name)}
    out = names & set(f.call_params())
    if depth < 3:
        for nm in names - out:
            d = fm.resolve_def(nm, facts)
            if d is not None:
                try:
                    e = ast.parse(d, mode='eval').body
                except SyntaxError:
                    continue
                out |= _request_params(fm, f, e, facts, depth + 1)
    return out


def _supplied_by_caller(P, G, f, p, depth=0):
    """can parameter ``p`` of ``f`` hold a field chosen outside the package?  Yes for an entry (no caller in the package,
    or the function escapes as a value - `self.attributes = self.get_tracefield_1d`); through a package caller only if
    that caller forwards one of its own parameters that is supplied from outside; a caller that enumerates the reader's
    own tables (stored_header_keys, the variant store, the template) passes stored fields only."""
    edges = [e for e in G.callers(f) if p in e.binding]
    escapes = False
    for g in P.functions.values():
        for n in ast.walk(g.node):
            if isinstance(n, ast.Attribute) and n.attr == f.name and isinstance(n.ctx, ast.Load):
                # a load that is not the callee of a call
                if not any(isinstance(c, ast.Call) and c.func is n for c in ast.walk(g.node)):
                    escapes = True
    if escapes or not edges or depth > 3:
        return True
    for e in edges:
        bound = e.binding[p]
        names = {n.id for n in ast.walk(bound) if isinstance(n, ast.Name)}
        fwd = names & set(e.caller.call_params())
        if fwd:
            if any(_supplied_by_caller(P, G, e.caller, q, depth + 1) for q in fwd):
                return True
            continue
        internal = False
        for loop in ast.walk(e.caller.node):
            if isinstance(loop, (ast.For, ast.comprehension)):
                tgt = {n.id for n in ast.walk(loop.target) if isinstance(n, ast.Name)}
                if tgt & names and any(k in U(loop.iter) for k in INTERNAL_ENUMERATIONS):
                    internal = True
        if not internal:
            return True
    return False


def constant_fields(ctx, rule):
    P = ctx.P
    G = ctx.G
    ctx.rule(rule, 'a caller-supplied trace field is looked up in the variant-header store only under a test that it is stored there')
    n = 0
    for cls in RF.reader_classes(P):
        for f in sorted(cls.methods.values(), key=lambda f: f.node.lineno):
            sites = [s for s in ast.walk(f.node) if isinstance(s, ast.Subscript) and isinstance(s.ctx, ast.Load) and
                     U(s.value).endswith('.' + VARIANT_STORE)]
            if not sites:
                continue
            fm = RF.factmap(P, f, '3d')
            for s in sites:
                paths = fm.paths_at(s)
                if not paths:
                    continue
                req = set()
                for facts in paths:
                    req |= _request_params(fm, f, s.slice, facts)
                if not any(_supplied_by_caller(P, G, f, q) for q in sorted(req)):
                    continue        # keys enumerated from the reader's own tables (stored_header_keys, the template)
                n += 1
                keys = _key_texts(s.slice)
                bad = None
                for facts in paths:
                    ok = False
                    for a in facts:
                        txt = ' '.join(str(x) for x in a[1:])
                        if a[0] == 'in' and str(a[1]) in keys and str(a[2]).endswith(VARIANT_STORE):
                            ok = True
                        elif a[0] == 'T' and any(('%s in ' % k) in txt for k in keys) and VARIANT_STORE in txt and 'not in' not in txt:
                            ok = True
                        elif a[0] == 'F' and any(('%s not in ' % k) in txt for k in keys) and VARIANT_STORE in txt:
                            ok = True
                        elif a[0] == 'T' and 'FileOffset' in txt and 'isinstance' in txt and \
                                (set(tokens(txt)) & {t for k in keys for t in tokens(k)}):
                            ok = True
                    if not ok:
                        bad = facts
                        break
                if bad is None:
                    ctx.ok(rule, f, s, 'lookup of a requested field in the variant-header store is guarded by a test that the field is stored there')
                else:
                    ctx.fail(rule, f, s, 'the field requested by the caller is looked up in `%s` without a test that it is one of '
                             'the fields stored as arrays: for a field that is constant through the file (kept once, in the '
                             'header template) the lookup raises KeyError where segyio returns the constant array' % U(s.value),
                             line=s.lineno)
            # the answer for a field that is not stored: one entry per trace / grid position.  A length taken from a size
            # slot of the file header is 0 for the files that store no header arrays at all (legacy files).
            for r in ast.walk(f.node):
                if not (isinstance(r, ast.Return) and isinstance(r.value, ast.Call)):
                    continue
                if U(r.value.func).split('.')[-1] not in ('full', 'zeros', 'ones', 'repeat', 'full_like') or not r.value.args:
                    continue
                rp = fm.paths_at(r)
                if not rp or not all(any((a[0] == 'T' and 'not in' in str(a[1]) and VARIANT_STORE in str(a[1])) or
                                         (a[0] == 'F' and ' in ' in str(a[1]) and VARIANT_STORE in str(a[1])) or
                                         (a[0] == 'notin' and str(a[2]).endswith(VARIANT_STORE)) for a in facts) for facts in rp):
                    continue
                ln = r.value.args[1] if U(r.value.func).split('.')[-1] == 'repeat' and len(r.value.args) > 1 else r.value.args[0]
                txt = U(ln)
                for _ in range(3):
                    d = fm.resolve_def(txt, rp[0]) if isinstance(ln, ast.Name) else None
                    if d is None:
                        break
                    txt = d
                    try:
                        ln = ast.parse(d, mode='eval').body
                    except SyntaxError:
                        break
                n += 1
                if 'bytes' in txt or 'header_entry' in txt or 'padded' in txt or 'diskblocks' in txt:
                    ctx.fail(rule, f, r, 'the constant array returned for a field that is not stored has `%s` entries: a size slot of '
                             'the file header, which is 0 in files that store no header arrays (legacy files) - the accessor then '
                             'returns an empty array instead of one value per trace' % txt[:60], line=r.lineno)
                else:
                    ctx.ok(rule, f, r, 'constant answer has `%s` entries' % txt[:50])
    ctx.floor(rule, 1, 'lookups of a caller-supplied field in the variant-header store')


TOTAL_SINGLE_BYTE = {'cp037', 'cp500', 'cp1140', 'cp273', 'cp1026', 'latin-1', 'latin1', 'latin_1', 'iso-8859-1', 'iso8859-1',
                     'l1', 'cp437', 'cp850'}
LATIN1 = {'latin-1', 'latin1', 'latin_1', 'iso-8859-1', 'iso8859-1', 'l1'}
MULTI_BYTE = {'utf-8', 'utf8', 'utf_8', 'utf-16', 'utf16', 'utf-32', 'utf32'}


def _const_str(e):
    return e.value.lower() if isinstance(e, ast.Constant) and isinstance(e.value, str) else None


def text_codec(ctx, rule):
    P = ctx.P
    ctx.rule(rule, 'the textual file header is handed out through total, length-preserving character conversions only')
    n = 0
    for cls in RF.reader_classes(P):
        for f in sorted(cls.methods.values(), key=lambda f: f.node.lineno):
            if 'text' not in f.name:
                continue
            if not any(isinstance(x, ast.Attribute) and 'text_header' in x.attr for x in ast.walk(f.node)):
                continue
            for c in ast.walk(f.node):
                if not isinstance(c, ast.Call):
                    continue
                last = U(c.func).split('.')[-1]
                kw = {k.arg: k.value for k in c.keywords if k.arg}
                step = None
                if last in ('decode', 'encode') and isinstance(c.func, ast.Attribute):
                    codec = c.args[0] if c.args else kw.get('encoding')
                    errors = c.args[1] if len(c.args) > 1 else kw.get('errors')
                    step = (last, codec, errors)
                elif last in ('bytearray', 'bytes') and ('encoding' in kw or len(c.args) >= 2):
                    codec = c.args[1] if len(c.args) > 1 else kw.get('encoding')
                    errors = c.args[2] if len(c.args) > 2 else kw.get('errors')
                    step = ('encode', codec, errors)
                elif last == 'str' and ('encoding' in kw or len(c.args) >= 2):
                    codec = c.args[1] if len(c.args) > 1 else kw.get('encoding')
                    errors = c.args[2] if len(c.args) > 2 else kw.get('errors')
                    step = ('decode', codec, errors)
                if step is None:
                    continue
                n += 1
                direction, codec, errors = step
                cn = _const_str(codec) if codec is not None else 'utf-8'
                en = _const_str(errors) if errors is not None else 'strict'
                if cn is None or en is None:
                    raise AnalysisError('%s: codec / error handler of `%s` is not a literal' % (f.qualname, U(c)[:60]))
                problem = None
                if cn in MULTI_BYTE:
                    problem = 'a multi-byte codec changes the number of bytes of any character outside ASCII'
                elif en in ('ignore', 'xmlcharrefreplace', 'backslashreplace', 'namereplace'):
                    problem = "errors='%s' %s every character the codec cannot express" % (
                        en, 'drops' if en == 'ignore' else 'expands')
                elif cn == 'ascii' and en != 'replace':
                    problem = "the ascii codec with errors='%s' raises for the first character outside ASCII" % en
                elif cn not in TOTAL_SINGLE_BYTE and cn != 'ascii':
                    raise AnalysisError('%s: codec %r of `%s` is not in the table of single-byte codecs' % (f.qualname, cn, U(c)[:60]))
                if problem is None:
                    ctx.ok(rule, f, c, '%s with %s / %s keeps one unit per stored byte' % (direction, cn, en))
                else:
                    ctx.fail(rule, f, c, 'the 3200-byte textual header is converted by `%s`: %s, so text[0] is not 3200 bytes '
                             '(40 cards of 80 columns) for a header holding such a character' % (U(c)[:70], problem), line=c.lineno)
    ctx.floor(rule, 1, 'character conversions of the textual header')


def attributes_kind(ctx, rule):
    """segyio's ``attributes(field)`` is an object whose subscript always yields an array: an int selects a length-1 array
    (``attributes(f)[i]`` has shape (1,)).  The emulation hands out whatever the callable bound to ``attributes`` returns;
    if that is a bare numpy array, an int subscript yields a scalar and an out-of-range int raises."""
    P, G = ctx.P, ctx.G
    ctx.rule(rule, 'attributes(field) returns an object that indexes like segyio\'s (an int selects a length-1 array)')
    em = P.func('segyio_emulator.SegyioEmulator.__init__')
    binds = [a for a in ast.walk(em.node) if isinstance(a, ast.Assign) and len(a.targets) == 1 and U(a.targets[0]) == 'self.attributes']
    if len(binds) != 1:
        raise AnalysisError('SegyioEmulator.__init__ binds self.attributes %d times' % len(binds))
    v = binds[0].value
    target = None
    if isinstance(v, ast.Attribute) and isinstance(v.value, ast.Name) and v.value.id == 'self':
        target = em.cls.find_method(v.attr) if em.cls is not None else None
        if target is None:
            for c in RF.reader_classes(P):
                if v.attr in c.methods:
                    target = c.methods[v.attr]
    rets = []
    if target is not None:
        rets = [r.value for r in ast.walk(target.node) if isinstance(r, ast.Return) and r.value is not None]
        where = target
    elif isinstance(v, ast.Lambda):
        rets = [v.body]
        where = em
    if not rets:
        raise AnalysisError('cannot resolve the callable bound to self.attributes (`%s`)' % U(v)[:60])

    def kind(e, f, depth=0):
        if isinstance(e, ast.Call):
            r = P.resolve_name(f.module, U(e.func))
            if hasattr(r, 'methods'):
                return 'wrapped' if r.find_method('__getitem__') is not None else 'object'
            if U(e.func).split('.')[0] in ('np', 'numpy'):
                return 'array'
            return None
        if isinstance(e, ast.Subscript):
            return 'array' if VARIANT_STORE in U(e.value) else None
        if isinstance(e, ast.Name) and depth < 2:
            ds = [a for a in ast.walk(f.node) if isinstance(a, ast.Assign) and len(a.targets) == 1 and U(a.targets[0]) == e.id]
            ks = {kind(a.value, f, depth + 1) for a in ds}
            return ks.pop() if len(ks) == 1 else None
        return None
    kinds = [kind(e, where) for e in rets]
    if any(k is None for k in kinds):
        raise AnalysisError('%s: cannot classify what attributes() returns (`%s`)' % (where.qualname, U(rets[kinds.index(None)])[:60]))
    if all(k == 'wrapped' for k in kinds):
        ctx.ok(rule, em, binds[0], 'attributes() returns an accessor object with its own subscript')
    else:
        ctx.fail(rule, em, binds[0], 'attributes(field) hands out a bare numpy array (%s returns `%s`): attributes(f)[i] with an int '
                 'is a scalar where segyio gives an array of shape (1,), and an out-of-range int raises where segyio gives '
                 'an empty array' % (where.qualname, U(rets[0])[:50]), line=binds[0].lineno)
