"""Footer stride (C03.5 / C10.3 / C12.3): bytes emitted per header array by each writer vs the
stride the reader derives for the version stamped in that file's header.

The array byte length is the digit variable  L = 512*q + r  (0 <= r < 512), so `%` and `//`
by 512 reduce to polynomials in q, r and one canonical carry [r >= 1]: both residue classes
r = 0 and r > 0 are compared at once, no length is enumerated.
"""
import ast
from .core import U, AnalysisError, parent, enclosing_stmt
from .algebra import Poly, Atoms, C, A
from .facts import FactMap, truth, facts_true, facts_false

GATE_HINT = 'file_version'
HELPERS = {}      # simple name -> FuncInfo of package functions with one return expression (set by the footer rule)


def register_helpers(P):
    HELPERS.clear()
    seen = {}
    for f in P.functions.values():
        body = [st for st in f.node.body if not (isinstance(st, ast.Expr) and isinstance(st.value, ast.Constant))]
        if len(body) == 1 and isinstance(body[0], ast.Return) and body[0].value is not None:
            seen.setdefault(f.name, []).append(f)
    for name, fs in seen.items():
        if len(fs) == 1:
            HELPERS[name] = fs[0]


def _through_helper(e, resolve):
    """(return expression, resolver binding the helper's parameters to the call's arguments) for a call of a one-expression
    package function; None otherwise"""
    if not isinstance(e, ast.Call):
        return None
    name = U(e.func).split('.')[-1]
    h = HELPERS.get(name)
    if h is None:
        return None
    params = [p_ for p_ in h.params if p_ not in ('self', 'cls')]
    if any(isinstance(a, ast.Starred) for a in e.args) or len(e.args) > len(params):
        return None
    b = dict(zip(params, e.args))
    for k in e.keywords:
        if k.arg in params:
            b[k.arg] = k.value
    d = h.node.args.defaults
    for p_, dv in zip([a.arg for a in h.node.args.args][len(h.node.args.args) - len(d):], d):
        b.setdefault(p_, dv)
    if set(b) != set(params):
        return None
    body = [st for st in h.node.body if isinstance(st, ast.Return)]

    def res(nm, b=b, outer=resolve):
        if nm in b:
            return b[nm]
        return None
    return body[0].value, res, b, resolve


class FooterAlgebra:
    def __init__(self):
        self.T = Atoms()
        q = self.T.declare('q', 0, None, kind='digitb')
        r = self.T.declare('r', 0, 512, kind='digit')
        self.L = 512 * q + r


def footer_write_sites(P):
    """write(..) calls whose argument serialises a header array: contains `.tobytes()`."""
    out = []
    for f in P.functions.values():
        for n in ast.walk(f.node):
            if isinstance(n, ast.Call) and isinstance(n.func, ast.Attribute) and n.func.attr == 'write' and n.args:
                a = n.args[0]
                if _serialises_array(f, a, 0):
                    out.append((f, n))
    return out


def _serialises_array(f, e, depth):
    if any(isinstance(x, ast.Attribute) and x.attr == 'tobytes' for x in ast.walk(e)):
        return True
    if depth > 3:
        return False
    for x in ast.walk(e):
        if isinstance(x, ast.Name):
            for d in ast.walk(f.node):
                if isinstance(d, ast.Assign) and len(d.targets) == 1 and U(d.targets[0]) == x.id and \
                        _serialises_array(f, d.value, depth + 1):
                    return True
    return False


class _ArgSub(ast.NodeTransformer):
    def __init__(self, b):
        self.b = b

    def visit_Name(self, n):
        import copy
        return copy.deepcopy(self.b[n.id]) if n.id in self.b else n


def bytelen(e, FA, resolve, gate):
    """length in bytes of a bytes-valued expression -> Poly or None.  ``gate`` is the assumed truth of the
    version gate (None: expression must not depend on it)."""
    T = FA.T
    th = _through_helper(e, resolve)
    if th is not None:
        import copy
        expr = _ArgSub(th[2]).visit(copy.deepcopy(th[0]))
        return bytelen(expr, FA, resolve, gate)
    if isinstance(e, ast.Call):
        fn = e.func
        if isinstance(fn, ast.Attribute) and fn.attr == 'tobytes':
            return FA.L
        if U(fn) in ('bytes', 'bytearray') and len(e.args) == 1:
            a = e.args[0]
            v = intval(a, FA, resolve, gate)
            if v is not None:
                return v
            return bytelen(a, FA, resolve, gate)
        return None
    if isinstance(e, ast.BinOp) and isinstance(e.op, ast.Add):
        l, r = bytelen(e.left, FA, resolve, gate), bytelen(e.right, FA, resolve, gate)
        if l is None or r is None:
            return None
        return l + r
    if isinstance(e, ast.Constant) and isinstance(e.value, bytes):
        return C(len(e.value))
    if isinstance(e, ast.IfExp):
        t = gate_truth(e.test, gate, resolve)
        if t is True:
            return bytelen(e.body, FA, resolve, gate)
        if t is False:
            return bytelen(e.orelse, FA, resolve, gate)
        a, b = bytelen(e.body, FA, resolve, gate), bytelen(e.orelse, FA, resolve, gate)
        return a if (a is not None and b is not None and a == b) else None
    if isinstance(e, ast.Name) and resolve:
        d = resolve(e.id)
        if d is not None:
            return bytelen(d, FA, resolve, gate)
    return None


def gate_truth(test, gate, resolve=None, depth=0):
    """truth of a condition that is the version gate (mentions file_version and a SeismicZfpVersion literal); a gate
    held in a local flag is resolved through ``resolve``."""
    if resolve is not None and depth < 3:
        x = test
        neg = False
        while isinstance(x, ast.UnaryOp) and isinstance(x.op, ast.Not):
            neg = not neg
            x = x.operand
        if isinstance(x, ast.Name):
            d = resolve(x.id)
            if d is not None and not (isinstance(d, ast.Name) and d.id == x.id):
                v = gate_truth(d, gate, resolve, depth + 1)
                return None if v is None else ((not v) if neg else v)
    t = U(test)
    if GATE_HINT in t and 'SeismicZfpVersion' in t and gate is not None:
        neg = False
        x = test
        while isinstance(x, ast.UnaryOp) and isinstance(x.op, ast.Not):
            neg = not neg
            x = x.operand
        if isinstance(x, ast.Compare) and len(x.ops) == 1:
            op = x.ops[0]
            left_is_file = GATE_HINT in U(x.left)
            # file_version > V  (or V < file_version) is the gate; <= is its negation
            if isinstance(op, ast.Gt):
                val = gate if left_is_file else (not gate)
            elif isinstance(op, ast.Lt):
                val = (not gate) if left_is_file else gate
            elif isinstance(op, ast.LtE):
                val = (not gate) if left_is_file else gate
            elif isinstance(op, ast.GtE):
                val = gate if left_is_file else (not gate)
            else:
                return None
            return (not val) if neg else val
    return None


def intval(e, FA, resolve, gate):
    T = FA.T
    th = _through_helper(e, resolve)
    if th is not None:
        import copy
        expr = _ArgSub(th[2]).visit(copy.deepcopy(th[0]))
        return intval(expr, FA, resolve, gate)
    if isinstance(e, ast.Constant) and isinstance(e.value, int) and not isinstance(e.value, bool):
        return C(e.value)
    if isinstance(e, ast.Call) and U(e.func) == 'len' and e.args:
        return bytelen(e.args[0], FA, resolve, gate)
    if isinstance(e, ast.Call) and U(e.func).split('.')[-1] == 'pad' and len(e.args) == 2 and not e.keywords:
        # utils.pad(x, m): x rounded up to a multiple of m  =  m * ceil(x / m)
        x, m = intval(e.args[0], FA, resolve, gate), intval(e.args[1], FA, resolve, gate)
        if x is None or m is None:
            return None
        return m * T.ceildiv(x, m)
    if isinstance(e, ast.UnaryOp) and isinstance(e.op, ast.USub):
        v = intval(e.operand, FA, resolve, gate)
        return None if v is None else -v
    if isinstance(e, ast.BinOp):
        l, r = intval(e.left, FA, resolve, gate), intval(e.right, FA, resolve, gate)
        if l is None or r is None:
            return None
        if isinstance(e.op, ast.Add):
            return l + r
        if isinstance(e.op, ast.Sub):
            return l - r
        if isinstance(e.op, ast.Mult):
            return l * r
        if isinstance(e.op, ast.FloorDiv):
            return T.floordiv(l, r)
        if isinstance(e.op, ast.Mod):
            return T.mod(l, r)
        return None
    if isinstance(e, ast.IfExp):
        t = gate_truth(e.test, gate, resolve)
        if t is True:
            return intval(e.body, FA, resolve, gate)
        if t is False:
            return intval(e.orelse, FA, resolve, gate)
        return None
    if isinstance(e, ast.Attribute):
        t = U(e)
        if t.endswith('.padded_header_entry_length_bytes'):
            return FA.reader_stride[gate] if gate is not None and getattr(FA, 'reader_stride', None) else None
        if t.endswith('.header_entry_length_bytes') or t.endswith('.nbytes'):
            return FA.L
    if isinstance(e, ast.Name) and resolve:
        d = resolve(e.id)
        if d is not None:
            return intval(d, FA, resolve, gate)
    return None


def reader_stride(P, FA):
    """{True: stride for files newer than the gate, False: older} read off SgzReader.__init__."""
    init = P.func('read.SgzReader.__init__')
    out = {}
    stores = [n for n in ast.walk(init.node) if isinstance(n, ast.Assign) and
              U(n.targets[0]).endswith('.padded_header_entry_length_bytes')]
    if not stores:
        raise AnalysisError('SgzReader.__init__ no longer assigns padded_header_entry_length_bytes')
    for st in stores:
        # find the governing gate
        p, child = parent(st), st
        gate = None
        while p is not None and p is not init.node:
            if isinstance(p, ast.If):
                gt = gate_truth(p.test, True)
                if gt is not None:
                    gate = gt if child in p.body else (not gt)
                    break
            child, p = p, parent(p)
        v = intval(st.value, FA, None, gate)
        if v is None:
            raise AnalysisError('cannot normalise the reader stride `%s`' % U(st.value))
        if gate is None:
            out[True] = out[False] = v
        else:
            out[gate] = v
    if True not in out or False not in out:
        raise AnalysisError('reader stride is not defined on both sides of the version gate')
    return out


def header_version_preserved(P, f):
    """does writer f stamp its own version into bytes 72:76 (converters) or carry the source's (copy)?"""
    return None


# ---------------------------------------------------------------------------
# Footer order (C03.5 / C10.3 / C12.3): the reader locates array j of the footer as the j-th stored key of the
# header-word table, so a writer that is itself a reader of the source file (cropper, re-blocker) must emit the
# arrays in table order - which is the order of the keys the reader derived at open, not the insertion order of a
# dictionary that is filled lazily by earlier look-ups (its order is the call history).

def _def_chain(f, e, depth=0, seen=None):
    """expression nodes that flow into e through single-assignment locals of f (bounded)."""
    seen = seen if seen is not None else []
    seen.append(e)
    if depth > 4:
        return seen
    for x in ast.walk(e):
        if isinstance(x, ast.Name):
            for d in ast.walk(f.node):
                if isinstance(d, ast.Assign) and len(d.targets) == 1 and d.value not in seen and (
                        U(d.targets[0]) == x.id or (isinstance(d.targets[0], ast.Tuple) and any(
                            isinstance(t, ast.Name) and t.id == x.id for t in d.targets[0].elts))):
                    _def_chain(f, d.value, depth + 1, seen)
    return seen


def lazy_memo_attrs(P, cls):
    """attributes of cls (and bases) initialised empty in a constructor and filled by subscript stores elsewhere."""
    out = {}
    for c in cls.mro:
        for m in c.methods.values():
            for n in ast.walk(m.node):
                if isinstance(n, ast.Assign) and isinstance(n.targets[0], ast.Subscript):
                    t = n.targets[0].value
                    if isinstance(t, ast.Attribute) and isinstance(t.value, ast.Name) and t.value.id == 'self' \
                            and m.name != '__init__':
                        out.setdefault(t.attr, []).append(m)
    res = {}
    for attr, ms in out.items():
        inits = [v for (fn, st, v) in P.attr_stores_mro(cls, attr) if fn.name == '__init__']
        if inits and all(U(v) in ('{}', 'dict()', 'collections.OrderedDict()', 'OrderedDict()') for v in inits):
            res[attr] = ms
    return res


def footer_order(P, f, call):
    """-> (verdict, text); verdict in ok / bad / na / unknown."""
    if f.cls is None or not any(c.qualname == 'read.SgzReader' for c in f.cls.mro):
        return 'na', ''
    loop, n = None, parent(call)
    while n is not None and n is not f.node:
        if isinstance(n, ast.For):
            loop = n
            break
        n = parent(n)
    if loop is None:
        return 'unknown', 'footer write outside a loop over the stored arrays'
    it = loop.iter
    base, via = it, None
    if isinstance(it, ast.Call) and isinstance(it.func, ast.Attribute) and it.func.attr in ('items', 'values', 'keys') \
            and not it.args:
        base, via = it.func.value, it.func.attr
    if isinstance(it, ast.Call) and U(it.func) == 'sorted':
        return 'ok', 'iterates sorted(...): ascending header-word order = table order'
    if not (isinstance(base, ast.Attribute) and isinstance(base.value, ast.Name) and base.value.id == 'self'):
        return 'unknown', 'footer loop iterates `%s`' % U(it)[:60]
    attr = base.attr
    memos = lazy_memo_attrs(P, f.cls)
    if attr in memos:
        return 'bad', ('the footer is written in the iteration order of self.%s, a dictionary filled on demand by %s: '
                       'its order is the order of earlier header look-ups on this object, while the reader locates '
                       'array j as the j-th stored key of the header-word table' % (
                           attr, ', '.join(sorted({m.name for m in memos[attr]}))))
    stores = P.attr_stores_mro(f.cls, attr)
    if stores and all(fn.name == '__init__' for (fn, st, v) in stores):
        v = stores[0][2]
        exact = stored_keys_exact(P, stores[0][0], attr, v)
        if exact is not None and exact is not True:
            return 'bad', exact
        if exact is True or isinstance(v, (ast.ListComp, ast.List)) or (isinstance(v, ast.Call) and U(v.func) in ('list', 'sorted')):
            # the written array must be the one of the loop key
            tgt = loop.target.id if isinstance(loop.target, ast.Name) else None
            chain = _def_chain(f, call.args[0])
            keyed = any(isinstance(x, ast.Subscript) and isinstance(x.slice, ast.Name) and x.slice.id == tgt
                        for e in chain for x in ast.walk(e))
            if tgt and keyed:
                return 'ok', 'iterates self.%s (built once at open, in table order) and writes the array of that key' % attr
            return 'bad', 'the loop runs over self.%s but the array written is not the one subscripted by the loop key' % attr
    return 'unknown', 'footer loop iterates self.%s, whose order is not understood' % attr


def stored_keys_exact(P, init, attr, value):
    """Is self.<attr> (the list a reader-derived writer iterates to emit the footer) one key per STORED array?
    The header-word template maps a header word that duplicates another stored array to the same FileOffset
    (alias branch of get_header_dict), so filtering the template on isinstance(v, FileOffset) alone also lists the
    duplicates - a writer then emits more arrays than the count field (64:68) it copies.
    -> True (exact), a message (over-inclusive), None (construction not recognised as a template filter)."""
    ghd = P.functions.get('headers.HeaderwordInfo.get_header_dict')
    aliases = False
    if ghd is not None:
        for a in ast.walk(ghd.node):
            if isinstance(a, ast.Assign) and isinstance(a.targets[0], ast.Subscript) and isinstance(a.value, ast.Subscript) \
                    and U(a.targets[0].value) == U(a.value.value):
                aliases = True
    tests = None
    if isinstance(value, ast.ListComp) and len(value.generators) == 1 and 'template' in U(value.generators[0].iter):
        tests = list(value.generators[0].ifs)
    elif isinstance(value, ast.List) and not value.elts:
        # `self.attr = []` followed by a guarded append in a loop over the template
        for lp in ast.walk(init.node):
            if isinstance(lp, ast.For) and 'template' in U(lp.iter):
                for c in ast.walk(lp):
                    if isinstance(c, ast.Call) and isinstance(c.func, ast.Attribute) and c.func.attr == 'append' and \
                            U(c.func.value) == 'self.' + attr:
                        tests = []
                        q = parent(c)
                        while q is not None and q is not lp:
                            if isinstance(q, ast.If):
                                tests.extend(q.test.values if isinstance(q.test, ast.BoolOp) and isinstance(q.test.op, ast.And)
                                             else [q.test])
                            q = parent(q)
    if tests is None:
        return None
    if not any('isinstance' in U(t) and 'FileOffset' in U(t) for t in tests):
        return None
    dedupe = any(isinstance(t, ast.Compare) and len(t.ops) == 1 and isinstance(t.ops[0], ast.NotIn) for t in tests)
    if aliases and not dedupe:
        return ('self.%s keeps every header word whose template entry is a FileOffset; header words that duplicate '
                'another stored array carry the same FileOffset (get_header_dict), so the footer loop emits more arrays '
                'than the array-count field states and later arrays are not where the reader looks for them' % attr)
    return True
