"""Footer stride (C03.5 / C10.3 / C12.3): bytes emitted per header array by each writer vs the
stride the reader derives for the version stamped in that file's header.

The array byte length is the digit variable  L = 512*q + r  (0 <= r < 512), so `%` and `//`
by 512 reduce to polynomials in q, r and one canonical carry [r >= 1]: both residue classes
r = 0 and r > 0 are compared at once, no length is enumerated.
"""
import ast
from .core import U, AnalysisError, parent, enclosing_stmt
from .algebra import Poly, Atoms, C, A
from .facts import FactMap, truth, facts_true, facts_false

GATE_HINT = 'file_version'


class FooterAlgebra:
    def __init__(self):
        self.T = Atoms()
        q = self.T.declare('q', 0, None, kind='digitb')
        r = self.T.declare('r', 0, 512, kind='digit')
        self.L = 512 * q + r


def footer_write_sites(P):
    """write(..) calls whose argument serialises a header array: contains `.tobytes()`."""
    out = []
    for f in P.functions.values():
        for n in ast.walk(f.node):
            if isinstance(n, ast.Call) and isinstance(n.func, ast.Attribute) and n.func.attr == 'write' and n.args:
                a = n.args[0]
                if _serialises_array(f, a, 0):
                    out.append((f, n))
    return out


def _serialises_array(f, e, depth):
    if any(isinstance(x, ast.Attribute) and x.attr == 'tobytes' for x in ast.walk(e)):
        return True
    if depth > 3:
        return False
    for x in ast.walk(e):
        if isinstance(x, ast.Name):
            for d in ast.walk(f.node):
                if isinstance(d, ast.Assign) and len(d.targets) == 1 and U(d.targets[0]) == x.id and \
                        _serialises_array(f, d.value, depth + 1):
                    return True
    return False


def bytelen(e, FA, resolve, gate):
    """length in bytes of a bytes-valued expression -> Poly or None.  ``gate`` is the assumed truth of the
    version gate (None: expression must not depend on it)."""
    T = FA.T
    if isinstance(e, ast.Call):
        fn = e.func
        if isinstance(fn, ast.Attribute) and fn.attr == 'tobytes':
            return FA.L
        if U(fn) in ('bytes', 'bytearray') and len(e.args) == 1:
            a = e.args[0]
            v = intval(a, FA, resolve, gate)
            if v is not None:
                return v
            return bytelen(a, FA, resolve, gate)
        return None
    if isinstance(e, ast.BinOp) and isinstance(e.op, ast.Add):
        l, r = bytelen(e.left, FA, resolve, gate), bytelen(e.right, FA, resolve, gate)
        if l is None or r is None:
            return None
        return l + r
    if isinstance(e, ast.Constant) and isinstance(e.value, bytes):
        return C(len(e.value))
    if isinstance(e, ast.IfExp):
        t = gate_truth(e.test, gate)
        if t is True:
            return bytelen(e.body, FA, resolve, gate)
        if t is False:
            return bytelen(e.orelse, FA, resolve, gate)
        a, b = bytelen(e.body, FA, resolve, gate), bytelen(e.orelse, FA, resolve, gate)
        return a if (a is not None and b is not None and a == b) else None
    if isinstance(e, ast.Name) and resolve:
        d = resolve(e.id)
        if d is not None:
            return bytelen(d, FA, resolve, gate)
    return None


def gate_truth(test, gate):
    """truth of a condition that is the version gate (mentions file_version and a SeismicZfpVersion literal)."""
    t = U(test)
    if GATE_HINT in t and 'SeismicZfpVersion' in t and gate is not None:
        neg = False
        x = test
        while isinstance(x, ast.UnaryOp) and isinstance(x.op, ast.Not):
            neg = not neg
            x = x.operand
        if isinstance(x, ast.Compare) and len(x.ops) == 1:
            op = x.ops[0]
            left_is_file = GATE_HINT in U(x.left)
            # file_version > V  (or V < file_version) is the gate; <= is its negation
            if isinstance(op, ast.Gt):
                val = gate if left_is_file else (not gate)
            elif isinstance(op, ast.Lt):
                val = (not gate) if left_is_file else gate
            elif isinstance(op, ast.LtE):
                val = (not gate) if left_is_file else gate
            elif isinstance(op, ast.GtE):
                val = gate if left_is_file else (not gate)
            else:
                return None
            return (not val) if neg else val
    return None


def intval(e, FA, resolve, gate):
    T = FA.T
    if isinstance(e, ast.Constant) and isinstance(e.value, int) and not isinstance(e.value, bool):
        return C(e.value)
    if isinstance(e, ast.Call) and U(e.func) == 'len' and e.args:
        return bytelen(e.args[0], FA, resolve, gate)
    if isinstance(e, ast.UnaryOp) and isinstance(e.op, ast.USub):
        v = intval(e.operand, FA, resolve, gate)
        return None if v is None else -v
    if isinstance(e, ast.BinOp):
        l, r = intval(e.left, FA, resolve, gate), intval(e.right, FA, resolve, gate)
        if l is None or r is None:
            return None
        if isinstance(e.op, ast.Add):
            return l + r
        if isinstance(e.op, ast.Sub):
            return l - r
        if isinstance(e.op, ast.Mult):
            return l * r
        if isinstance(e.op, ast.FloorDiv):
            return T.floordiv(l, r)
        if isinstance(e.op, ast.Mod):
            return T.mod(l, r)
        return None
    if isinstance(e, ast.IfExp):
        t = gate_truth(e.test, gate)
        if t is True:
            return intval(e.body, FA, resolve, gate)
        if t is False:
            return intval(e.orelse, FA, resolve, gate)
        return None
    if isinstance(e, ast.Attribute):
        t = U(e)
        if t.endswith('.padded_header_entry_length_bytes'):
            return FA.reader_stride[gate] if gate is not None and getattr(FA, 'reader_stride', None) else None
        if t.endswith('.header_entry_length_bytes'):
            return FA.L
    if isinstance(e, ast.Name) and resolve:
        d = resolve(e.id)
        if d is not None:
            return intval(d, FA, resolve, gate)
    return None


def reader_stride(P, FA):
    """{True: stride for files newer than the gate, False: older} read off SgzReader.__init__."""
    init = P.func('read.SgzReader.__init__')
    out = {}
    stores = [n for n in ast.walk(init.node) if isinstance(n, ast.Assign) and
              U(n.targets[0]).endswith('.padded_header_entry_length_bytes')]
    if not stores:
        raise AnalysisError('SgzReader.__init__ no longer assigns padded_header_entry_length_bytes')
    for st in stores:
        # find the governing gate
        p, child = parent(st), st
        gate = None
        while p is not None and p is not init.node:
            if isinstance(p, ast.If):
                gt = gate_truth(p.test, True)
                if gt is not None:
                    gate = gt if child in p.body else (not gt)
                    break
            child, p = p, parent(p)
        v = intval(st.value, FA, None, gate)
        if v is None:
            raise AnalysisError('cannot normalise the reader stride `%s`' % U(st.value))
        if gate is None:
            out[True] = out[False] = v
        else:
            out[gate] = v
    if True not in out or False not in out:
        raise AnalysisError('reader stride is not defined on both sides of the version gate')
    return out


def header_version_preserved(P, f):
    """does writer f stamp its own version into bytes 72:76 (converters) or carry the source's (copy)?"""
    return None
