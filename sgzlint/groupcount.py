"""Per-group real count of the producers (C01.8 / C09.1 / C20.1).

Each producer walks the grouped axis (inlines in 3D, traces in 2D) in groups of ``bs = blockshape[k]`` items:
``for g in range(G)`` with ``G = pad(n, bs) // bs``.  The number of REAL items of group g must be
``min(bs, n - g*bs)``; everything the producers do with partial groups (which planes are read, which are replicated,
which are hashed) hangs on that number.

The value is decided *semantically*, not by matching one spelling: write ``n = bs*q + r`` with ``0 <= r < bs`` and
split into the four cases

    A  r > 0, last group     g = q            expected r
    B  r > 0, earlier group  g = q - 1 - e    expected bs        (e >= 0)
    C  r = 0, last group     g = q - 1        expected bs
    D  r = 0, earlier group  g = q - 2 - e    expected bs

(``G = q + [r > 0]``).  In every case the defining expression (an ``if/else`` on comparisons, a conditional
expression, or ``min(..)``) is evaluated over polynomials in the non-negative atoms q, e, r', s with
``r = 1 + r'`` (cases A, B) and ``bs = r + 1 + s``; a comparison is decided by the signs of the coefficients of
``lhs - rhs`` (all >= 0 with a positive constant: positive; all zero: zero; all <= 0: non-positive...).  A comparison
whose sign cannot be decided this way is an analysis error, never a guess.  No value is enumerated.
"""
import ast
from fractions import Fraction
from .core import U, AnalysisError, parent
from .algebra import Poly

A = Poly.atom
C = Poly.const


def sign(p):
    """sign of a polynomial over non-negative atoms: '+', '-', '0', '>=0', '<=0' or None."""
    if p.is_zero():
        return '0'
    cs = list(p.t.values())
    const = p.t.get((), Fraction(0))
    if all(c >= 0 for c in cs):
        return '+' if const > 0 else '>=0'
    if all(c <= 0 for c in cs):
        return '-' if const < 0 else '<=0'
    return None


class Case:
    def __init__(self, name, r_pos, last):
        self.name = name
        q, e, rp, s = A('q'), A('e'), A("r'"), A('s')
        self.r = (1 + rp) if r_pos else C(0)
        self.bs = self.r + 1 + s
        self.c = C(1) if r_pos else C(0)
        if r_pos:
            self.g = q if last else q - 1 - e
        else:
            self.g = (q - 1) if last else (q - 2 - e)
        self.q = q
        self.n = self.bs * q + self.r
        self.G = q + self.c
        self.expected = self.r if (r_pos and last) else self.bs
        self.last = last


CASES = [Case('A: n % bs > 0, last group', True, True), Case('B: n % bs > 0, earlier group', True, False),
         Case('C: n % bs == 0, last group', False, True), Case('D: n % bs == 0, earlier group', False, False)]


def _arith(e):
    """an integer expression (not an array or buffer): only arithmetic over names, constants, element look-ups and
    min / max / len / int / pad calls."""
    for x in ast.walk(e):
        if isinstance(x, ast.Call) and U(x.func).split('.')[-1] not in ('min', 'max', 'len', 'int', 'pad', 'abs'):
            return False
        if isinstance(x, (ast.Slice, ast.ListComp, ast.Dict, ast.List, ast.Lambda, ast.JoinedStr)):
            return False
    return True


class Undecided(Exception):
    pass


class GroupCount:
    """One producer: locates the group loop, the file count n, the blockshape component and the definition(s) of
    the per-group count; decides each definition in the four cases."""

    def __init__(self, f):
        self.f = f
        self.loop = None
        self.k = None
        self.n_txt = None
        self.g = None
        self.G_txt = None
        self.defs = {}        # name -> list of (node, kind)
        self._locate()

    # ------------------------------------------------------------------
    def _single_def(self, name):
        ds = [n for n in ast.walk(self.f.node) if isinstance(n, ast.Assign) and len(n.targets) == 1 and
              isinstance(n.targets[0], ast.Name) and n.targets[0].id == name]
        return ds[0].value if len(ds) == 1 else None

    def _tuple_def(self, name):
        """name defined as element j of a tuple assignment `a, b, c = x, y, z` or `name = (..)`."""
        for n in ast.walk(self.f.node):
            if isinstance(n, ast.Assign) and len(n.targets) == 1 and isinstance(n.targets[0], ast.Tuple) and \
                    isinstance(n.value, ast.Tuple) and len(n.value.elts) == len(n.targets[0].elts):
                for t, v in zip(n.targets[0].elts, n.value.elts):
                    if isinstance(t, ast.Name) and t.id == name:
                        return v
        return None

    def _resolve(self, e, depth=0):
        """expand single-assignment locals (bounded)."""
        if depth > 4:
            return e
        if isinstance(e, ast.Name):
            d = self._single_def(e.id)
            if d is not None and not isinstance(d, (ast.Call,)) or (d is not None and U(d.func).split('.')[-1] in ('pad', 'len')):
                return self._resolve(d, depth + 1) if not (isinstance(d, ast.Call) and U(d.func).split('.')[-1] == 'len') else e
        return e

    def _locate(self):
        f = self.f
        # the group loop: outermost `for g in range(G)` whose G is padded_extent // blockshape[k]
        for n in ast.walk(f.node):
            if not (isinstance(n, ast.For) and isinstance(n.target, ast.Name) and isinstance(n.iter, ast.Call) and
                    U(n.iter.func) == 'range' and len(n.iter.args) == 1):
                continue
            Gx = n.iter.args[0]
            Gd = self._single_def(Gx.id) if isinstance(Gx, ast.Name) else Gx
            if not (isinstance(Gd, ast.BinOp) and isinstance(Gd.op, ast.FloorDiv)):
                continue
            den = U(Gd.right)
            if not (den.startswith('blockshape[') and den.endswith(']')):
                continue
            k = int(den[len('blockshape['):-1])
            num = Gd.left
            # numerator: padded_shape[k] -> element k of the tuple that defines padded_shape, or pad(n, bs) directly
            padcall = None
            if isinstance(num, ast.Subscript) and isinstance(num.slice, ast.Constant):
                td = self._single_def(U(num.value))
                if isinstance(td, ast.Tuple) and len(td.elts) > num.slice.value:
                    padcall = td.elts[num.slice.value]
            elif isinstance(num, ast.Call):
                padcall = num
            if not (isinstance(padcall, ast.Call) and U(padcall.func).split('.')[-1] == 'pad' and len(padcall.args) == 2
                    and U(padcall.args[1]) == den):
                continue
            # only the outermost such loop is the group loop
            anc = parent(n)
            nested = False
            while anc is not None and anc is not f.node:
                if isinstance(anc, ast.For):
                    nested = True
                anc = parent(anc)
            if nested:
                continue
            self.loop, self.k, self.g = n, k, n.target.id
            self.n_txt = U(padcall.args[0])
            self.G_txt = U(Gx)
            break
        if self.loop is None:
            raise AnalysisError('%s: group loop `for g in range(pad(n, blockshape[k]) // blockshape[k])` not found' % f.qualname)

    # ------------------------------------------------------------------
    def candidates(self):
        """definitions inside the group loop of a local from `<n> % bs`, `bs`, min(..) by if/else, IfExp or min()."""
        bs = 'blockshape[%d]' % self.k
        out = []
        for n in ast.walk(self.loop):
            if isinstance(n, ast.If):
                b = [s for s in n.body if isinstance(s, ast.Assign)]
                e = [s for s in n.orelse if isinstance(s, ast.Assign)]
                if len(b) == 1 and len(e) == 1 and len(n.body) == 1 and len(n.orelse) == 1 and \
                        isinstance(b[0].targets[0], ast.Name) and U(b[0].targets[0]) == U(e[0].targets[0]):
                    txt = U(n.test) + U(b[0].value) + U(e[0].value)
                    if bs in txt and self._mentions_count(n) and _arith(b[0].value) and _arith(e[0].value):
                        out.append((U(b[0].targets[0]), n, ('if', n.test, b[0].value, e[0].value)))
            elif isinstance(n, ast.Assign) and len(n.targets) == 1 and isinstance(n.targets[0], ast.Name):
                v = n.value
                if isinstance(v, ast.IfExp) and bs in U(v) and self._mentions_count(v) and _arith(v.body) and _arith(v.orelse):
                    out.append((n.targets[0].id, n, ('if', v.test, v.body, v.orelse)))
                elif isinstance(v, ast.Call) and U(v.func) in ('min', 'max') and len(v.args) == 2 and bs in U(v) \
                        and self._mentions_count(v):
                    out.append((n.targets[0].id, n, (U(v.func), v.args[0], v.args[1])))
        # the count used in place, without a name: `for i in range(min(bs, n - g*bs))`
        for n in ast.walk(self.loop):
            if isinstance(n, ast.For) and isinstance(n.iter, ast.Call) and U(n.iter.func) == 'range' and len(n.iter.args) == 1:
                v = n.iter.args[0]
                nm = '<bound of the loop over %s>' % U(n.target)
                if isinstance(v, ast.IfExp) and bs in U(v) and self._mentions_count(v) and _arith(v.body) and _arith(v.orelse):
                    out.append((nm, n, ('if', v.test, v.body, v.orelse)))
                elif isinstance(v, ast.Call) and U(v.func) in ('min', 'max') and len(v.args) == 2 and bs in U(v) \
                        and self._mentions_count(v):
                    out.append((nm, n, (U(v.func), v.args[0], v.args[1])))
        return out

    def _mentions_count(self, node):
        names = {self.n_txt, self.g, self.G_txt}
        return any(U(x) in names for x in ast.walk(node) if isinstance(x, (ast.Name, ast.Call, ast.Attribute)))

    # ------------------------------------------------------------------
    def ev(self, e, case):
        t = U(e)
        bs = 'blockshape[%d]' % self.k
        if t == bs:
            return case.bs
        if t == self.n_txt:
            return case.n
        if t == self.g:
            return case.g
        if t == self.G_txt:
            return case.G
        if isinstance(e, ast.Constant) and isinstance(e.value, int) and not isinstance(e.value, bool):
            return C(e.value)
        if isinstance(e, ast.Name):
            d = self._single_def(e.id)
            if d is None:
                d = self._tuple_def(e.id)
            if d is not None and U(d) != t:
                if U(d) == self.n_txt:
                    return case.n
                return self.ev(d, case)
            raise Undecided('name `%s` has no single definition' % e.id)
        if isinstance(e, ast.Subscript) and isinstance(e.slice, ast.Constant) and isinstance(e.value, ast.Name):
            td = self._single_def(e.value.id)
            if isinstance(td, ast.Tuple) and len(td.elts) > e.slice.value:
                return self.ev(td.elts[e.slice.value], case)
        if isinstance(e, ast.Call) and U(e.func).split('.')[-1] == 'pad' and len(e.args) == 2 and U(e.args[1]) == bs \
                and U(e.args[0]) == self.n_txt:
            return case.bs * case.G
        if isinstance(e, ast.UnaryOp) and isinstance(e.op, ast.USub):
            return -self.ev(e.operand, case)
        if isinstance(e, ast.BinOp):
            if isinstance(e.op, (ast.Mod, ast.FloorDiv)):
                l, r_ = U(e.left), U(e.right)
                if r_ == bs and (l == self.n_txt or self._is_n(e.left)):
                    return case.r if isinstance(e.op, ast.Mod) else case.q
                num = self.ev(e.left, case)
                if U(e.right) == bs and num == case.bs * case.G:
                    return case.G if isinstance(e.op, ast.FloorDiv) else C(0)
                raise Undecided('`%s` is not a division of the file count by the block extent' % t)
            l, r_ = self.ev(e.left, case), self.ev(e.right, case)
            if isinstance(e.op, ast.Add):
                return l + r_
            if isinstance(e.op, ast.Sub):
                return l - r_
            if isinstance(e.op, ast.Mult):
                return l * r_
        if isinstance(e, ast.Call) and U(e.func) in ('min', 'max') and len(e.args) == 2:
            a, b = self.ev(e.args[0], case), self.ev(e.args[1], case)
            sg = sign(a - b)
            if sg in ('+', '>=0', '0'):
                return b if U(e.func) == 'min' else a
            if sg in ('-', '<=0'):
                return a if U(e.func) == 'min' else b
            raise Undecided('cannot order `%s` and `%s` in case %s' % (U(e.args[0]), U(e.args[1]), case.name))
        if isinstance(e, ast.IfExp):
            return self.ev(e.body if self.truth(e.test, case) else e.orelse, case)
        raise Undecided('expression `%s` is outside the count algebra' % t[:60])

    def _is_n(self, e):
        if isinstance(e, ast.Name):
            d = self._single_def(e.id) or self._tuple_def(e.id)
            return d is not None and U(d) == self.n_txt
        return False

    def truth(self, t, case):
        if isinstance(t, ast.BoolOp):
            vs = [self.truth(v, case) for v in t.values]
            return all(vs) if isinstance(t.op, ast.And) else any(vs)
        if isinstance(t, ast.UnaryOp) and isinstance(t.op, ast.Not):
            return not self.truth(t.operand, case)
        if isinstance(t, ast.Compare) and len(t.ops) == 1:
            d = self.ev(t.left, case) - self.ev(t.comparators[0], case)
            sg = sign(d)
            op = t.ops[0]
            table = {
                ast.Gt: {'+': True, '0': False, '-': False, '<=0': False},
                ast.GtE: {'+': True, '0': True, '>=0': True, '-': False},
                ast.Lt: {'-': True, '0': False, '+': False, '>=0': False},
                ast.LtE: {'-': True, '0': True, '<=0': True, '+': False},
                ast.Eq: {'0': True, '+': False, '-': False},
                ast.NotEq: {'0': False, '+': True, '-': True},
            }
            for cls, tb in table.items():
                if isinstance(op, cls) and sg in tb:
                    return tb[sg]
            raise Undecided('cannot decide `%s` in case %s (difference %r)' % (U(t), case.name, d))
        raise Undecided('test `%s` is outside the count algebra' % U(t)[:60])

    def decide(self, spec):
        """-> list of (case, got Poly, expected Poly) that disagree; raises Undecided."""
        bad = []
        for case in CASES:
            if spec[0] == 'if':
                v = self.ev(spec[2] if self.truth(spec[1], case) else spec[3], case)
            else:
                a, b = self.ev(spec[1], case), self.ev(spec[2], case)
                sg = sign(a - b)
                if sg is None:
                    raise Undecided('cannot order the arguments of %s in case %s' % (spec[0], case.name))
                lo, hi = (b, a) if sg in ('+', '>=0', '0') else (a, b)
                v = lo if spec[0] == 'min' else hi
            if v != case.expected:
                bad.append((case, v, case.expected))
        return bad


def check_producer(ctx, rule, f, floor_note=''):
    """Decide every per-group count definition of producer f.  Returns {name: (k, n_txt)} of the correct ones."""
    gc = GroupCount(f)
    cands = gc.candidates()
    good = {}
    for name, node, spec in cands:
        try:
            bad = gc.decide(spec)
        except Undecided as e:
            raise AnalysisError('%s: per-group count `%s`: %s' % (f.qualname, name, e))
        label = '%s = real items of group %s (axis component %d, file count %s)' % (name, gc.g, gc.k, gc.n_txt)
        if bad:
            case, got, want = bad[0]
            ctx.fail(rule, f, node if not isinstance(node, ast.If) else node.test,
                     'per-group real count `%s` is wrong when %s: it evaluates to %s, the group holds %s real item(s) '
                     '(n = bs*q + r): %s' % (name, case.name.split(': ')[1], _show(got), _show(want),
                                            'the last group of an exactly divisible axis is treated as empty / padding'
                                            if case.name.startswith('C') else 'items are dropped or padding is taken for data'),
                     line=node.lineno, key_extra=name)
        else:
            good[name] = (gc.k, gc.n_txt)
            ctx.ok(rule, f, label, 'equals min(bs, n - g*bs) in all four cases (n %% bs zero / non-zero x last / earlier group)',
                   sample={'spec': spec[0]})
    if not cands:
        raise AnalysisError('%s: no per-group real-count definition found in the group loop' % f.qualname)
    return gc, good


def _show(p):
    s = repr(p)
    return {"1 + r'": 'n % bs', "1 + r' + s": 'bs', '2 + r\' + s': 'bs', '0': '0', '1 + s': 'bs'}.get(s, s)
