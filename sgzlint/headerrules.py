"""Rules over the extracted header byte table (E5 + E3): one table, three witnesses
(writers, reader, docs/file-specification.md).  Used by C03, C05, C06, C08, C09, C10, C12, C20."""
import ast
from .core import U, AnalysisError, parent
from .facts import FactMap
from . import tables as TB
from .axes import role_of, axis_of_text

# slots a reader may decode unsigned although the specification says int32, with the reason
UNSIGNED_READ_OK = {
    'wraparound': 'unsigned read wrapped back to int32 by gen_coord_list(..).astype(\'intc\')',
    ('STEP', 'Z'): 'the sample interval is a positive quantity',
}


class HeaderTable:
    def __init__(self, P, G):
        self.P, self.G = P, G
        self.codecs = TB.codecs(P)
        self.stores, self.patches, self.loads = TB.extract(P, G)
        self.rows = TB.spec_rows(P)
        self.typed = [r for r in self.rows if not r.unused]
        if len(self.stores) < 35 or len(self.loads) < 30:
            raise AnalysisError('header table extraction found %d stores / %d loads (floors 35 / 30): the writer or '
                                'reader idiom changed' % (len(self.stores), len(self.loads)))
        self._fms = {}

    def fm(self, f, assume=()):
        key = (f.qualname, tuple(sorted(assume)))
        if key not in self._fms:
            self._fms[key] = FactMap(f.node, assume=list(assume))
        return self._fms[key]

    def row_of(self, slot):
        """the specification row a slot belongs to: exact match for typed rows, containment for the raw areas.
        -> (row or None, problem or None)"""
        exact = [r for r in self.typed if r.lo == slot.lo and r.hi == slot.hi]
        if exact:
            return exact[0], None
        cont = [r for r in self.typed if r.lo <= slot.lo and slot.hi <= r.hi]
        if cont:
            r = cont[0]
            if TB.spec_type(r) is not None:
                if slot.codec == 'raw' and slot.kind == 'load' and slot.lo == r.lo:
                    return r, None     # raw probe of a prefix (file-type sniffing)
                return r, 'covers bytes %d:%d, only part of the %d-byte field `%s` at %d:%d' % (
                    slot.lo, slot.hi, r.hi - r.lo, r.text[:30], r.lo, r.hi)
            return r, None
        # union of consecutive raw rows (the 3600-byte SEG-Y file header = text + binary)
        span = [r for r in self.typed if r.lo >= slot.lo and r.hi <= slot.hi and TB.spec_type(r) is None]
        if span and span[0].lo == slot.lo and span[-1].hi == slot.hi and \
                all(a.hi == b.lo for a, b in zip(span, span[1:])):
            return span[0], None
        over = [r for r in self.rows if r.lo < slot.hi and slot.lo < r.hi]
        return None, 'bytes %d:%d match no field of the specification (overlapping rows: %s)' % (
            slot.lo, slot.hi, ', '.join('%d:%d %s' % (r.lo, r.hi, r.text[:20]) for r in over) or 'none')

    def writer_kind(self, slot):
        q = slot.func.qualname
        if 'cropping' in q:
            return 'cropper'
        if 'convert_to_adv' in q:
            return 'reblocker'
        if 'convert_to_segy' in q or 'write_segy' in q:
            return 'export'
        if q.startswith('read.'):
            return 'reader'
        return 'converter'

    def resolver(self, slot):
        fm = self.fm(slot.func)
        facts = fm.facts_at(slot.stmt) or frozenset()

        def resolve(name):
            d = fm.resolve_def(name, facts)
            if d is None:
                # a local assigned once in the function (join may have dropped the def fact)
                defs = [n for n in ast.walk(slot.func.node) if isinstance(n, ast.Assign) and len(n.targets) == 1
                        and U(n.targets[0]) == name]
                if len(defs) == 1:
                    return defs[0].value
                if len(defs) == 2:
                    # `if c: name = a  else: name = b` joined before the use: the conditional expression
                    from .core import conditional_def
                    return conditional_def(slot.func.node, name)
                return None
            try:
                return ast.parse(d, mode='eval').body
            except SyntaxError:
                return None
        return resolve

    def branch_of(self, slot):
        """geometry branch a store belongs to, read off the guarding facts: '2d' / 'unstructured' / 'regular' / 'any'"""
        fm = self.fm(slot.func)
        facts = fm.facts_at(slot.stmt) or frozenset()
        if ('T', 'unstructured') in facts:
            return 'unstructured'
        if ('F', 'unstructured') in facts:
            return 'regular'
        if ('T', 'isinstance(geom, Geometry2d)') in facts:
            return '2d'
        return 'any'


def check_ranges_and_codecs(ctx, ht, rule_range, rule_codec, select=lambda s: True):
    """C03.1 (ranges) + C03.2 (codecs) for the selected slots."""
    n = 0
    by_row = {}
    for s in ht.stores + ht.patches + ht.loads:
        if not select(s):
            continue
        n += 1
        row, prob = ht.row_of(s)
        if prob or row is None:
            ctx.fail(rule_range, s.func, s.stmt, '%s of header %s' % ('store' if s.kind != 'load' else 'read', prob),
                     line=s.node.lineno, key_extra='%d:%d' % (s.lo, s.hi))
            continue
        ctx.ok(rule_range, s.func, '%s[%d:%d]' % (s.buf, s.lo, s.hi), 'range is the specification field `%s`' % row.text[:40],
               nontrivial=True)
        by_row.setdefault((row.lo, row.hi), []).append(s)
        st = TB.spec_type(row)
        if st is None:
            continue
        if s.codec == 'raw' and s.kind == 'load' and s.width < row.hi - row.lo:
            continue      # raw probe of a prefix (file-type sniffing), not a decode of the field
        if s.codec == 'raw':
            ctx.fail(rule_codec, s.func, s.stmt, 'typed field `%s` (%s) at %d:%d is %s as raw bytes' % (
                row.text[:30], row.typ, row.lo, row.hi, 'read' if s.kind == 'load' else 'written'),
                line=s.node.lineno, key_extra='%d:%d' % (s.lo, s.hi))
            continue
        ft = TB.fmt_type(s.fmt)
        if ft is None or ft[2] != s.width:
            ctx.fail(rule_codec, s.func, s.stmt, 'codec %s encodes %s bytes but the slot %d:%d is %d bytes wide' % (
                s.codec, ft[2] if ft else '?', s.lo, s.hi, s.width), line=s.node.lineno,
                key_extra='%d:%d' % (s.lo, s.hi))
            continue
        if ft[0] != st[0]:
            ctx.fail(rule_codec, s.func, s.stmt, 'field `%s` is %s-endian in the specification, codec %s is %s-endian' % (
                row.text[:30], st[0], s.codec, ft[0]), line=s.node.lineno, key_extra='%d:%d' % (s.lo, s.hi))
            continue
        if (ft[1] == 'float') != (st[1] == 'float'):
            ctx.fail(rule_codec, s.func, s.stmt, 'field `%s` is %s, codec %s is %s' % (row.text[:30], row.typ, s.codec, s.fmt),
                     line=s.node.lineno, key_extra='%d:%d' % (s.lo, s.hi))
            continue
        if ft[1] != st[1]:
            role = TB.role_of_row(row)
            why = None
            if s.kind == 'load' and st[1] == 'int' and ft[1] == 'uint':
                if _wraps_to_intc(s):
                    why = UNSIGNED_READ_OK['wraparound']
                elif role in UNSIGNED_READ_OK:
                    why = UNSIGNED_READ_OK[role]
            if why:
                ctx.ok(rule_codec, s.func, '%s[%d:%d] %s' % (s.buf, s.lo, s.hi, s.codec), 'accepted idiom: ' + why)
            else:
                ctx.fail(rule_codec, s.func, s.stmt, 'field `%s` at %d:%d is %s in the specification but %s with the %s '
                         'codec %s (%s): %s values are %s' % (
                             row.text[:30], row.lo, row.hi, row.typ, 'read' if s.kind == 'load' else 'written',
                             'unsigned' if ft[1] == 'uint' else 'signed', s.codec, s.fmt,
                             'negative' if st[1] == 'int' else 'large',
                             'rejected by struct.pack' if s.kind != 'load' else 'misread'),
                         line=s.node.lineno, key_extra='%d:%d' % (s.lo, s.hi))
            continue
        ctx.ok(rule_codec, s.func, '%s[%d:%d] %s' % (s.buf, s.lo, s.hi, s.codec), 'codec %s = %s of the specification' % (
            s.fmt, row.typ))
    return n


def _wraps_to_intc(slot):
    """load is an argument of gen_coord_list(...) whose result is .astype('intc')"""
    n = slot.value
    p = parent(n)
    while p is not None and not isinstance(p, ast.stmt):
        if isinstance(p, ast.Call) and U(p.func).split('.')[-1] == 'gen_coord_list':
            pp = parent(p)
            if isinstance(pp, ast.Attribute) and pp.attr == 'astype':
                c = parent(pp)
                if isinstance(c, ast.Call) and c.args and U(c.args[0]).strip('\'"') in ('intc', 'int32', 'np.intc', 'np.int32'):
                    return True
        p = parent(p)
    return False


def check_roles(ctx, ht, rule, select=lambda s: True):
    """AT5: axis/kind of the written expression = role of the slot (definite vs definite only)."""
    n = 0
    for s in ht.stores + ht.patches:
        if not select(s):
            continue
        row, prob = ht.row_of(s)
        if row is None or prob:
            continue
        want = TB.role_of_row(row)
        if want is None or want[0] not in ('COUNT', 'ORIGIN', 'STEP', 'BLOCKSHAPE', 'RATE'):
            continue
        got = role_of(s.value, ht.resolver(s))
        n += 1
        label = '%s[%d:%d] <- %s' % (s.buf, s.lo, s.hi, U(s.value)[:40])
        if got is None:
            ctx.ok(rule, s.func, label, 'expression carries no definite tag (not reported)', nontrivial=False)
            continue
        if got[0] == 'CONFLICT':
            ctx.fail(rule, s.func, s.stmt, 'the two branches of `%s` carry different roles %s' % (U(s.value)[:50], got[1]),
                     line=s.node.lineno, key_extra='%d:%d' % (s.lo, s.hi))
            continue
        if got != want and not (want[0] == 'RATE' and got[0] == 'RATE'):
            ctx.fail(rule, s.func, s.stmt, 'bytes %d:%d hold `%s` (%s of %s) but receive `%s`, which is the %s of %s' % (
                s.lo, s.hi, row.text[:30], want[0].lower(), want[1], U(s.value)[:50], got[0].lower(), got[1]),
                line=s.node.lineno, key_extra='%d:%d' % (s.lo, s.hi))
        else:
            ctx.ok(rule, s.func, label, 'role %s/%s matches the slot' % got)
    return n


def check_reader_roles(ctx, ht, rule):
    """reader side of AT5: the name / gen_coord_list position a decoded slot flows into has the slot's role."""
    n = 0
    pos_kind = {0: 'ORIGIN', 1: 'STEP', 2: 'COUNT'}
    for s in ht.loads:
        row, prob = ht.row_of(s)
        if row is None or prob:
            continue
        want = TB.role_of_row(row)
        if want is None or want[0] not in ('COUNT', 'ORIGIN', 'STEP', 'BLOCKSHAPE'):
            continue
        whole = s.value
        p = parent(whole)
        got = None
        where = None
        if isinstance(p, ast.Assign) and len(p.targets) == 1:
            got = role_of(p.targets[0])
            where = U(p.targets[0])
        elif isinstance(p, ast.Call) and U(p.func).split('.')[-1] == 'gen_coord_list' and whole in p.args:
            k = p.args.index(whole)
            # axis from the name the generated list is bound to
            q = parent(p)
            while q is not None and not isinstance(q, ast.Assign):
                q = parent(q)
            ax = axis_of_text(U(q.targets[0])) if q is not None else None
            if ax in ('IL', 'XL', 'Z'):
                got = (pos_kind.get(k), ax)
                where = 'argument %d of gen_coord_list -> %s' % (k, U(q.targets[0]))
        elif isinstance(p, ast.Tuple):
            q = parent(p)
            if isinstance(q, ast.Assign) and 'blockshape' in U(q.targets[0]).lower():
                got = ('BLOCKSHAPE', ('IL', 'XL', 'Z')[p.elts.index(whole)]) if p.elts.index(whole) < 3 else None
                where = '%s[%d]' % (U(q.targets[0]), p.elts.index(whole))
        n += 1
        label = 'headerbytes[%d:%d] -> %s' % (s.lo, s.hi, where)
        if got is None or got[1] is None:
            ctx.ok(rule, s.func, label, 'destination carries no definite tag (not reported)', nontrivial=False)
        elif got != want:
            ctx.fail(rule, s.func, s.stmt, 'bytes %d:%d hold `%s` (%s of %s) but are decoded into %s, the %s of %s' % (
                s.lo, s.hi, row.text[:30], want[0].lower(), want[1], where, got[0].lower(), got[1]),
                line=s.node.lineno, key_extra='%d:%d' % (s.lo, s.hi))
        else:
            ctx.ok(rule, s.func, label, 'role %s/%s matches the slot' % got)
    return n


def check_sibling_codecs(ctx, ht, rule, select=lambda s: True):
    """all writers of one field use a codec of the same signedness (contradiction rule between siblings)."""
    groups = {}
    for s in ht.stores + ht.patches:
        row, prob = ht.row_of(s)
        if row is None or prob or TB.spec_type(row) is None or s.codec == 'raw':
            continue
        groups.setdefault((row.lo, row.hi), []).append(s)
    n = 0
    for (lo, hi), ss in sorted(groups.items()):
        kinds = {}
        for s in ss:
            ft = TB.fmt_type(s.fmt)
            kinds.setdefault(ft[1] if ft else '?', []).append(s)
        if len(kinds) > 1:
            major = max(kinds.values(), key=len)
            for k, members in kinds.items():
                if members is major:
                    continue
                for s in members:
                    if not select(s):
                        continue
                    n += 1
                    ctx.fail(rule, s.func, s.stmt, 'field %d:%d is written with %s by %s but with %s by %s' % (
                        lo, hi, s.fmt, s.func.name, major[0].fmt, major[0].func.name), line=s.node.lineno,
                        key_extra='%d:%d' % (lo, hi))
        else:
            sel = [s for s in ss if select(s)]
            if sel and len(ss) > 1:
                n += 1
                ctx.ok(rule, sel[0].func, 'field %d:%d' % (lo, hi), '%d writers agree on %s' % (len(ss), ss[0].fmt))
    return n


def check_copy_bounds(ctx, ht, rule, select=lambda f: True):
    """A copy of the reader's header is DISK_BLOCK_BYTES * n_header_blocks long and the reader itself allows files with a
    single header block (it reads further blocks only `if n_header_blocks != 1`).  A slice store into such a copy beyond
    the first block is inside the buffer only when the header has that block: assigning to a slice past the end of a
    bytearray appends the bytes, the written header grows and every offset behind it shifts.  So a store whose range
    ends after the first disk block must be dominated by a test on the number of header blocks / the length of the copy."""
    P = ht.P
    dsk = P.const_value(P.modules['sgzconstants'], 'DISK_BLOCK_BYTES')
    n = 0
    for s in ht.stores:
        if s.kind != 'store' or not select(s.func):
            continue
        if TB.header_buffers(P, s.func).get(s.buf) != 'copy':
            continue
        n += 1
        label = '%s[%d:%d] in %s' % (s.buf, s.lo, s.hi, s.func.name)
        if s.hi <= dsk:
            ctx.ok(rule, s.func, label, 'within the first header block, which every file has', nontrivial=False)
            continue
        fm = ht.fm(s.func)
        guarded = False
        for facts in (fm.paths_at(s.stmt) or []):
            ok = False
            for a in facts:
                txt = ' '.join(str(x) for x in a)
                if ('n_header_blocks' in txt or 'len(%s)' % s.buf in txt or 'len(self.headerbytes)' in txt) and \
                        a[0] in ('>', '>=', '==', '!=', '<', '<=', 'T', 'F'):
                    ok = True
            guarded = ok
            if not ok:
                break
        if not guarded:
            # a fixed-width decode of source bytes at or beyond the same position completed before the store: struct.unpack
            # raises on a short slice, so the source header (and its copy) is known to reach that far
            from .facts import happened_before
            for l in ht.loads:
                if l.func is s.func and l.codec not in (None, 'raw') and l.hi >= s.hi and isinstance(l.value, ast.Call) and \
                        happened_before(fm, l.value, s.stmt):
                    guarded = True
                    break
        if guarded:
            ctx.ok(rule, s.func, label, 'store beyond the first block is dominated by a test on the header length')
        else:
            ctx.fail(rule, s.func, s.stmt, 'bytes %d:%d of a copy of the source header are assigned without checking that the '
                     'header has a second block: for a file with one header block (which the reader accepts) the slice lies '
                     'past the end of the bytearray, the assignment appends %d bytes, and the header written out is %d bytes '
                     'longer than n_header_blocks * %d - the data section of the output is read %d bytes off' % (
                         s.lo, s.hi, s.hi - s.lo, s.hi - s.lo, dsk, s.hi - s.lo), line=s.node.lineno, key_extra='%d' % s.lo)
    return n
