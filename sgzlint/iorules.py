"""Error-discipline rules over the read path (C17, C18): futures consumed, reads length-checked,
no swallowing handlers, single choke point (C07.1 / C15.5)."""
import ast
from .core import U, AnalysisError, parent
from .facts import FactMap, happened_before
from . import readerfacts as RF

IO_METHODS = ('read', 'readall', 'readinto', 'download_blob', 'seek')


def block_of(stmt):
    p = parent(stmt)
    for fld in ('body', 'orelse', 'finalbody'):
        b = getattr(p, fld, None)
        if isinstance(b, list) and stmt in b:
            return b
    if isinstance(p, ast.Try):
        for h in p.handlers:
            if stmt in h.body:
                return h.body
    return None


def stmt_of(node):
    n = node
    while n is not None and not isinstance(n, ast.stmt):
        n = parent(n)
    return n


def precedes_in_block(a_stmt, b_node):
    """statement A is an earlier sibling of (an ancestor of) B: every path reaching B ran A to completion
    (structured code; A itself contains no exit that skips its own completion)."""
    blk = block_of(a_stmt)
    if blk is None:
        return False
    n = b_node
    while n is not None:
        if n in blk and isinstance(n, ast.stmt):
            return blk.index(a_stmt) < blk.index(n)
        n = parent(n)
    return False


# ---------------------------------------------------------------------------
# primitives and their call sites
# ---------------------------------------------------------------------------

def io_primitives(P, G):
    """functions that are stored into a handle's read_range attribute (the range-read primitives)."""
    prims = list(G._nested_func_stores.get('read_range', []))
    if len(prims) < 2:
        raise AnalysisError('expected two range-read primitives bound to .read_range, found %s' % (
            [p.qualname for p in prims],))
    return prims


def reader_functions(P, G):
    """functions from which SGZ bytes are read: methods of the reader and loader hierarchies + the primitives."""
    out = []
    rc = RF.reader_classes(P)
    lc = [P.cls('loader.SgzLoader')] + P.cls('loader.SgzLoader').all_subclasses()
    for f in P.functions.values():
        if f.cls is not None and (f.cls in rc or f.cls in lc):
            out.append(f)
    return out


def single_def(f, name):
    defs = [a for a in ast.walk(f.node) if isinstance(a, ast.Assign) and len(a.targets) == 1 and U(a.targets[0]) == name]
    return defs[0].value if len(defs) == 1 else None


def raw_io_calls(f):
    """calls f makes on a handle that move bytes: X.read(n) / X.readall() / X.download_blob(..) / X.seek(o)
    where X is a parameter, self.file or a local bound to one."""
    out = []
    for n in ast.walk(f.node):
        if isinstance(n, ast.Call) and isinstance(n.func, ast.Attribute) and n.func.attr in IO_METHODS:
            recv = U(n.func.value)
            if recv in ('self.file', 'file') or recv in f.params or recv.endswith('.file') or \
                    'download_blob' in recv:
                out.append(n)
            elif isinstance(n.func.value, ast.Name):
                # a local bound once to the downloader: d = file.download_blob(..); d.readall()
                d = single_def(f, n.func.value.id)
                if d is not None and isinstance(d, ast.Call) and 'download_blob' in U(d.func):
                    out.append(n)
    return out


def length_checked(f, call, length_expr, fm=None):
    """the value of ``call`` is bound to a name N and every later use of N is dominated by the fact
    len(N) == <length_expr> (failing branch raises).  -> (ok, why)"""
    fm = fm or FactMap(f.node)
    st = stmt_of(call)
    name = None
    if isinstance(st, ast.Assign) and len(st.targets) == 1 and isinstance(st.targets[0], ast.Name) and \
            (st.value is call):
        name = st.targets[0].id
    if name is None:
        return False, 'the bytes are used directly (`%s`) without being bound and length-checked' % U(st)[:70]
    want = {('==', 'len(%s)' % name, length_expr), ('==', length_expr, 'len(%s)' % name)}
    # the length held in a local: n = len(N)
    for a in ast.walk(f.node):
        if isinstance(a, ast.Assign) and len(a.targets) == 1 and isinstance(a.targets[0], ast.Name) and \
                U(a.value) == 'len(%s)' % name:
            want |= {('==', a.targets[0].id, length_expr), ('==', length_expr, a.targets[0].id)}
    uses = []
    seen_def = False
    for n in ast.walk(f.node):
        if isinstance(n, ast.Name) and n.id == name and isinstance(n.ctx, ast.Load):
            if n.lineno < st.lineno:
                continue
            par = parent(n)
            # the comparison itself is not a use
            if isinstance(par, ast.Call) and U(par.func) == 'len':
                continue
            uses.append(n)
    if not uses:
        return False, 'result `%s` is never used' % name
    for u in uses:
        facts = fm.facts_at(u)
        if facts is None:
            continue
        if not (facts & want):
            return False, 'use of `%s` at line %d is not dominated by a check len(%s) == %s' % (
                name, u.lineno, name, length_expr)
    return True, 'every use of `%s` is dominated by len(%s) == %s' % (name, name, length_expr)


def handler_swallows(h):
    """an except clause that can catch an I/O failure and does not re-raise on every path."""
    names = []
    if h.type is None:
        names = ['<bare>']
    else:
        ts = h.type.elts if isinstance(h.type, ast.Tuple) else [h.type]
        names = [U(t).split('.')[-1] for t in ts]
    broad = {'<bare>', 'Exception', 'BaseException', 'OSError', 'IOError', 'EnvironmentError', 'EOFError',
             'ConnectionError', 'TimeoutError', 'HttpResponseError', 'AzureError'}
    if not (set(names) & broad):
        return False
    # re-raises on every path?
    fm_like = _all_paths_raise(h.body)
    return not fm_like


def _all_paths_raise(body):
    for s in body:
        if isinstance(s, ast.Raise):
            return True
        if isinstance(s, ast.If):
            if _all_paths_raise(s.body) and s.orelse and _all_paths_raise(s.orelse):
                return True
        if isinstance(s, (ast.Return, ast.Continue, ast.Break)):
            return False
    return False


POSITIVE_CONTROL = '''
def f(h):
    try:
        return h.read(4)
    except Exception:
        pass
def g(h):
    try:
        return h.read(4)
    except OSError as e:
        log(e)
        raise
'''


def swallow_selfcheck():
    t = ast.parse(POSITIVE_CONTROL)
    hs = [n for n in ast.walk(t) if isinstance(n, ast.ExceptHandler)]
    if not (handler_swallows(hs[0]) and not handler_swallows(hs[1])):
        raise AnalysisError('positive control of the swallowing-handler rule failed')


def check_futures(ctx, rule, P, G):
    """C17.1: every executor.submit(..) result is retained and .result() is called on it before the
    assembled data is used (decode / return)."""
    n = 0
    for f in P.functions.values():
        for e in G.callees(f):
            if e.kind != 'pool':
                continue
        subs = [c for c in ast.walk(f.node) if isinstance(c, ast.Call) and isinstance(c.func, ast.Attribute)
                and c.func.attr == 'submit']
        for c in subs:
            n += 1
            # the pool is local to the call and joined before the call can return or raise: `with <Executor>(..) as ex:`
            # (leaving the block waits for every worker).  A pool that outlives the call lets a failed call return
            # while sibling range reads are still running on the shared handle.
            ex = c.func.value
            q = parent(c)
            scoped = False
            while q is not None and q is not f.node:
                if isinstance(q, ast.With):
                    for it in q.items:
                        if it.optional_vars is not None and U(it.optional_vars) == U(ex) and isinstance(it.context_expr, ast.Call) \
                                and 'Executor' in U(it.context_expr.func):
                            scoped = True
                q = parent(q)
            if not scoped:
                ctx.fail(rule, f, stmt_of(c), 'work is submitted to `%s`, a pool that is not created and joined by this call (no '
                         '`with ...Executor(...) as %s:` around it): when one range read fails the call raises while the other '
                         'workers are still seeking and reading on the shared handle, and the caller\'s next read can get bytes '
                         'from the wrong offset' % (U(ex), U(ex).split('.')[-1]), line=c.lineno, key_extra='pool-scope')
                continue
            ok, why = future_consumed(f, c, G)
            if ok:
                ctx.ok(rule, f, c, why)
            else:
                ctx.fail(rule, f, stmt_of(c), 'the future returned by `%s` is dropped: %s; an exception in the worker '
                         '(failed range read) is never re-raised and the partially filled buffer is decoded' % (
                             U(c.func), why), line=c.lineno)
        maps = [c for c in ast.walk(f.node) if isinstance(c, ast.Call) and isinstance(c.func, ast.Attribute)
                and c.func.attr == 'map' and 'executor' in U(c.func.value).lower()]
        for c in maps:
            n += 1
            par = parent(c)
            consumed = isinstance(par, ast.Call) and U(par.func) in ('list', 'tuple', 'sum', 'all', 'any') or \
                isinstance(par, (ast.For, ast.comprehension))
            if consumed:
                ctx.ok(rule, f, c, 'executor.map result is consumed (exceptions surface on iteration)')
            else:
                ctx.fail(rule, f, stmt_of(c), 'the iterator returned by executor.map is never consumed: worker '
                         'exceptions are lost')
    return n


def future_consumed(f, sub, G=None):
    st = stmt_of(sub)
    par = parent(sub)
    holder = None      # name of a single future or of a collection of futures
    coll = False
    if isinstance(par, ast.Expr):
        return False, 'the call is an expression statement'
    if isinstance(par, ast.Assign) and len(par.targets) == 1 and isinstance(par.targets[0], ast.Name):
        holder = par.targets[0].id
    elif isinstance(par, (ast.ListComp, ast.GeneratorExp, ast.SetComp)) or (
            isinstance(par, ast.DictComp)):
        pp = parent(par)
        if isinstance(pp, ast.Assign) and isinstance(pp.targets[0], ast.Name):
            holder, coll = pp.targets[0].id, True
    elif isinstance(par, ast.Call) and isinstance(par.func, ast.Attribute) and par.func.attr in ('append', 'add'):
        holder, coll = U(par.func.value), True
    elif isinstance(par, ast.Subscript) or isinstance(par, ast.Dict):
        pp = parent(par)
        if isinstance(pp, ast.Assign) and isinstance(pp.targets[0], ast.Name):
            holder, coll = pp.targets[0].id, True
    elif isinstance(par, ast.Attribute) and par.attr == 'result':
        return True, 'result() is called on the future at once'
    if holder is None:
        return False, 'its value is not bound to a name'
    # find the .result() consumption
    for n in ast.walk(f.node):
        if not (isinstance(n, ast.Call) and isinstance(n.func, ast.Attribute) and n.func.attr == 'result'):
            continue
        recv = n.func.value
        if not coll and isinstance(recv, ast.Name) and recv.id == holder:
            cst = stmt_of(n)
            return _before_use(f, cst, st, 'result() called on `%s`' % holder)
        if coll and isinstance(recv, ast.Name):
            # loop variable iterating the collection (for x in holder / as_completed(holder) / comprehension)
            it = None
            p2 = n
            while p2 is not None and it is None:
                p2 = parent(p2)
                if isinstance(p2, ast.For) and U(p2.target) == recv.id:
                    it = p2.iter
                elif isinstance(p2, (ast.ListComp, ast.GeneratorExp, ast.SetComp)):
                    for g in p2.generators:
                        if U(g.target) == recv.id:
                            it = g.iter
            if it is not None and holder in {x.id for x in ast.walk(it) if isinstance(x, ast.Name)}:
                cst = stmt_of(n)
                top = cst
                while parent(top) is not None and not isinstance(parent(top), (ast.FunctionDef, ast.With)) \
                        and block_of(top) is not None and not any(isinstance(s, ast.Return) for s in [top]):
                    if isinstance(parent(top), (ast.For, ast.While)):
                        top = parent(top)
                    else:
                        break
                return _before_use(f, top, st, 'result() called on every future of `%s`' % holder)
    # the futures are handed to a helper that joins them: `_wait_for_all(futures)`
    if G is not None:
        for e in G.callees(f):
            if e.target is None or e.kind not in ('direct',):
                continue
            for p_, a in e.binding.items():
                if isinstance(a, ast.Name) and a.id == holder and joins_param(G, e.target, p_, single=not coll):
                    return _before_use(f, stmt_of(e.call), st, 'result() called on every future of `%s` by %s' % (
                        holder, e.target.qualname))
    return False, 'no .result() is ever called on `%s`' % holder


def joins_param(G, g, pname, single=False, depth=0):
    """does function g call .result() on (every element of) its parameter ``pname`` on every path that returns normally?
    Only unconditional top-level statements of g count."""
    if depth > 2 or pname not in g.params:
        return False
    if any(isinstance(n, (ast.Assign, ast.AugAssign)) and any(isinstance(x, ast.Name) and x.id == pname
           for t in (n.targets if isinstance(n, ast.Assign) else [n.target]) for x in ast.walk(t)) for n in ast.walk(g.node)):
        return False
    for s in g.node.body:
        if isinstance(s, ast.Return):
            # a return before the join: stop (comprehension inside the return value still counts)
            pass
        if single:
            for n in ast.walk(s) if isinstance(s, (ast.Expr, ast.Assign, ast.Return)) else []:
                if isinstance(n, ast.Call) and isinstance(n.func, ast.Attribute) and n.func.attr == 'result' and \
                        isinstance(n.func.value, ast.Name) and n.func.value.id == pname:
                    return True
        else:
            if isinstance(s, ast.For) and isinstance(s.target, ast.Name) and _iterates(s.iter, pname):
                for b in s.body:
                    if isinstance(b, (ast.Expr, ast.Assign)) and any(
                            isinstance(n, ast.Call) and isinstance(n.func, ast.Attribute) and n.func.attr == 'result' and
                            isinstance(n.func.value, ast.Name) and n.func.value.id == s.target.id for n in ast.walk(b)):
                        return True
                    if isinstance(b, (ast.If, ast.Try, ast.Break, ast.Continue, ast.Return)):
                        break
            if isinstance(s, (ast.Expr, ast.Assign, ast.Return)) and s.value is not None:
                for n in ast.walk(s.value):
                    if isinstance(n, (ast.ListComp, ast.SetComp)) and len(n.generators) == 1 and not n.generators[0].ifs \
                            and isinstance(n.generators[0].target, ast.Name) and _iterates(n.generators[0].iter, pname):
                        tv = n.generators[0].target.id
                        if any(isinstance(x, ast.Call) and isinstance(x.func, ast.Attribute) and x.func.attr == 'result' and
                               isinstance(x.func.value, ast.Name) and x.func.value.id == tv for x in ast.walk(n.elt)):
                            return True
        # delegation
        if isinstance(s, ast.Expr) and isinstance(s.value, ast.Call):
            for e in G.edges_at(g, s.value):
                if e.target is not None and e.kind == 'direct':
                    for p2, a in e.binding.items():
                        if isinstance(a, ast.Name) and a.id == pname and joins_param(G, e.target, p2, single, depth + 1):
                            return True
        if isinstance(s, (ast.Return, ast.Raise)):
            return False
    return False


def _iterates(it, name):
    if isinstance(it, ast.Name):
        return it.id == name
    if isinstance(it, ast.Call) and U(it.func).split('.')[-1] == 'as_completed' and len(it.args) >= 1:
        return _iterates(it.args[0], name)
    return False


def _leaves(body):
    if not body:
        return False
    s = body[-1]
    if isinstance(s, (ast.Return, ast.Raise)):
        return True
    if isinstance(s, ast.If):
        return bool(s.orelse) and _leaves(s.body) and _leaves(s.orelse)
    return False


def _before_use(f, consume_stmt, submit_stmt, why):
    """the consuming statement is unconditional and precedes every return of the function that follows the submit."""
    if block_of(consume_stmt) is None:
        return False, why + ' but not in a plain statement block'
    # ancestors of the submit statement: a conditional enclosing *both* statements is fine
    anc = set()
    n = submit_stmt
    while n is not None:
        anc.add(id(n))
        n = parent(n)
    n = parent(consume_stmt)
    while n is not None and n is not f.node and id(n) not in anc:
        if isinstance(n, ast.If):
            return False, why + ' only conditionally'
        if isinstance(n, ast.Try) and consume_stmt not in n.body and consume_stmt not in n.finalbody:
            return False, why + ' only inside an exception handler'
        n = parent(n)
    rets = []
    for r in ast.walk(f.node):
        if not isinstance(r, ast.Return):
            continue
        # only returns that can follow the submit: some ancestor-or-self of the submit statement is an
        # earlier sibling of (an ancestor of) the return
        a = submit_stmt
        follows = False
        while a is not None and a is not f.node:
            if isinstance(a, ast.stmt) and precedes_in_block(a, r):
                follows = True
                break
            if isinstance(a, ast.stmt):
                blk = block_of(a)
                if blk is not None and _leaves(blk) and not isinstance(parent(a), (ast.For, ast.While)):
                    break   # the block holding the submit always returns / raises: nothing after it follows the submit
            a = parent(a)
        if follows:
            rets.append(r)
    for r in rets:
        if not precedes_in_block(consume_stmt, r) and not any(consume_stmt is x for x in ast.walk(r)):
            # the return may also sit inside the same with-block after the consumption
            return False, why + ' but a return at line %d is not preceded by it' % r.lineno
    return True, why + ' before the assembled data is used'
