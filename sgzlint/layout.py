"""L1-L4 - address algebra of the loaders over the symbolic events of every read entry point.

Canonical address of compression unit (c_0, c_1, c_2), c_k = b_k*Bc_k + u_k, in a file whose
blocks are stored C-ordered and whose units are C-ordered inside a block:

    addr = U * [ ((Bc_0*B1 + Bc_1)*B2 + Bc_2) * b0*b1*b2  +  ((u_0*b1 + u_1)*b2 + u_2) ]

so per axis k a *block* coordinate has stride  S_blk[k]  and an in-block *unit* coordinate has
stride  S_unit[k]:
    S_unit = (b1*b2, b2, 1) * U          S_blk = (B1*B2, B2, 1) * b0*b1*b2 * U
(for the default layout b0 = b1 = 1 the two formulas collapse into the unit-ordered address).
"""
import ast
from .core import U as TXT, AnalysisError
from .algebra import Poly, C, A
from .symeval import Bytes, Buf, BufSlice, Arr, ArrView, SliceV, Tup, Opaque


class Layout:
    def __init__(self, model):
        self.m = model
        T = self.T = model.T
        ip = model.interp
        from .symeval import State
        st = State({})
        init = model.P.func('read.SgzReader.__init__')
        self.U = ip.get_attr(model.reader, 'unit_bytes', st, init, None)
        if not isinstance(self.U, Poly):
            raise AnalysisError('unit_bytes does not normalise in mode %s' % model.name)
        b = [model.b[k] if model.b[k] is not None else C(1) for k in range(3)]
        B = model.B
        self.bvec, self.Bvec = b, B
        if model.dim == '3d':
            bprod = b[0] * b[1] * b[2]
            self.S_unit = [self.U * b[1] * b[2], self.U * b[2], self.U]
            self.S_blk = [self.U * bprod * B[1] * B[2], self.U * bprod * B[2], self.U * bprod]
        else:
            bprod = b[1] * b[2]
            self.S_unit = [None, self.U * b[2], self.U]
            self.S_blk = [None, self.U * bprod * B[2], self.U * bprod]
        self.bytes_per_voxel = model.rate * C(__import__('fractions').Fraction(1, 8))

    # ------------------------------------------------------------------
    def axis_of_atom(self, a):
        T = self.T
        meta = T.meta.get(a, {})
        if meta.get('kind') in ('digit', 'digitb') and not meta.get('slack'):
            return ('digit', meta.get('axis'))
        if meta.get('kind') == 'loop':
            cnt = meta.get('count')
            axes = set()

            def collect(p):
                for x in p.atoms():
                    mx = T.meta.get(x, {})
                    if mx.get('axis') is not None:
                        axes.add(mx.get('axis'))
                    elif mx.get('kind') == 'carry' and isinstance(mx.get('of'), Poly):
                        collect(mx.get('of'))
                    elif mx.get('kind') == 'opaque' and x in T._floors:
                        collect(T._floors[x][0])
                        collect(T._floors[x][1])
            if isinstance(cnt, Poly):
                collect(cnt)
            return ('loop', tuple(sorted(axes)))
        if meta.get('kind') in ('carry', 'opaque'):
            return (meta.get('kind'), None)
        if meta.get('kind') == 'param':
            return ('param', meta.get('axis'))
        return ('extent', None)

    def coord_atoms(self, p):
        return [a for a in p.atoms() if self.axis_of_atom(a)[0] in ('digit', 'loop', 'carry', 'opaque', 'param')]

    def check_offset(self, off):
        """-> list of problems ([] = well-formed canonical address)"""
        T = self.T
        probs = []
        if not isinstance(off, Poly):
            return ['offset is not a polynomial (%r)' % (off,)]
        off = T.canon(off)
        # a loop that runs exactly once contributes nothing
        once = {a: Poly() for a in off.atoms() if T.meta.get(a, {}).get('kind') == 'loop' and
                T.meta[a].get('count') == C(1)}
        if once:
            off = off.subst(once)
        coords = self.coord_atoms(off)
        rest = Poly(dict(off.t))
        for a in coords:
            kind, ax = self.axis_of_atom(a)
            terms = Poly({k: v for k, v in off.t.items() if any(x == a for x, e in k)})
            rest = rest - terms
            coef = T.exact_div(terms, A(a))
            name = a.split('@')[0]
            if coef is None:
                probs.append('coordinate %s occurs non-linearly' % name)
                continue
            if kind in ('carry', 'opaque'):
                probs.append('the offset depends on %s, which is not a block or unit coordinate' % a)
                continue
            if any(self.axis_of_atom(x)[0] in ('digit', 'loop', 'carry', 'opaque', 'param') for x in coef.atoms()):
                probs.append('coordinate %s is multiplied by another coordinate (%r)' % (name, coef))
                continue
            if kind == 'param':
                probs.append('the offset uses the raw request value %s (not a block/unit coordinate)' % name)
                continue
            meta = T.meta.get(a, {})
            if kind == 'digit':
                k = ax
                if a.endswith('.r'):
                    probs.append('the offset depends on the sub-unit remainder %s' % a)
                    continue
                want = self.S_blk[k] if a.endswith('.b') else self.S_unit[k]
                if want is None or coef != want:
                    probs.append('%s coordinate %s has stride %r, the layout stride is %r' % (
                        'block' if a.endswith('.b') else 'in-block unit', a, coef, want))
            else:   # loop
                axes = ax
                cnt = meta.get('count')
                ok = False
                wants = []
                if len(axes) == 1:
                    k = axes[0]
                    # an in-block unit coordinate exists only when the block is wider than one unit on that axis
                    wants = [w for w in (self.S_blk[k], self.S_unit[k] if self.bvec[k] != C(1) else None) if w is not None]
                    # a loop over whole-axis units steps by the unit stride, legitimate when it equals blk/b_k
                    ok = coef in wants
                elif len(axes) == 2 and axes == (0, 1):
                    # linearised (IL, XL) block index: stride of the faster axis, range B0*B1
                    wants = [self.S_blk[1]]
                    ok = coef == self.S_blk[1] and cnt == self.Bvec[0] * self.Bvec[1]
                elif len(axes) == 0:
                    # constant trip count: no axis information, any layout stride is acceptable
                    wants = [w for k in range(3) for w in (self.S_blk[k], self.S_unit[k]) if w is not None]
                    ok = coef in wants
                if not ok:
                    probs.append('loop coordinate %s (range %r) advances the offset by %r; layout strides for it: %s' % (
                        name, cnt, coef, ' or '.join(repr(w) for w in wants) or 'none'))
        if not rest.is_zero():
            probs.append('constant displacement %r that is no coordinate of the layout' % (rest,))
        return probs

    def shift_invariant(self, p):
        """an extent does not change when every request bound of one axis is shifted by whole blocks."""
        T = self.T
        if not isinstance(p, Poly):
            return False
        for k in range(3):
            m = {}
            for a in p.atoms():
                meta = T.meta.get(a, {})
                if meta.get('kind') == 'digitb' and meta.get('axis') == k:
                    m[a] = A(a) + A('t')
            if m and p.subst(m) != p:
                return False
        return True

    def nbytes(self, v):
        if isinstance(v, (Bytes, Buf, BufSlice)):
            return v.length
        return None

    def shape_bytes(self, shape):
        if not isinstance(shape, Tup) or not all(isinstance(x, Poly) for x in shape.elts):
            return None
        n = C(1)
        for x in shape.elts:
            n = n * x
        return n * self.bytes_per_voxel


def read_entry_points(P, G):
    """public methods of SgzReader from which a loader method is reachable."""
    reader = P.cls('read.SgzReader')
    lcls = [P.cls('loader.SgzLoader')] + P.cls('loader.SgzLoader').all_subclasses()
    out = []
    for m in reader.methods.values():
        if m.name.startswith('_'):
            continue
        direct = any(e.target is not None and e.target.cls in lcls for e in G.callees(m))
        via_private = any(e.target is not None and e.target.cls is reader and e.target.name.startswith('_') and
                          any(P.functions[r].cls in lcls for r in G.reach(e.target) if P.functions[r].cls is not None)
                          for e in G.callees(m))
        if direct or via_private:
            out.append(m)
    return out
