"""Evaluation of L1-L4 over every read entry point in every layout mode (shared by C02, C07, C09, C10, C12)."""
import ast
from .core import U as TXT, AnalysisError, norm_stmt
from .algebra import Poly, C, A
from .symeval import Bytes, Buf, BufSlice, Arr, ArrView, SliceV, Tup, Opaque
from .layout import Layout, read_entry_points


class Rec:
    def __init__(self, rule, mode, entry, func, node, ok, msg, extra=None, ev=None):
        self.rule, self.mode, self.entry, self.func, self.node, self.ok, self.msg = rule, mode, entry, func, node, ok, msg
        self.extra = extra or {}
        if ev is not None:
            self.via = _via(ev)

    @property
    def key(self):
        return (self.rule, self.func.qualname if self.func else '', getattr(self.node, 'lineno', 0),
                getattr(self.node, 'col_offset', 0), self.via)

    via = ''


def collect(shared):
    if getattr(shared, '_layout_records', None) is not None:
        return shared._layout_records
    P, G = shared.P, shared.G
    recs = []
    entries = read_entry_points(P, G)
    if len(entries) < 6:
        raise AnalysisError('only %d read entry points reach a loader (expected at least 6)' % len(entries))
    for m in shared.models():
        lay = Layout(m)
        for f in entries:
            try:
                outs = m.run(f.qualname)
            except AnalysisError:
                raise
            rets = [o for o in outs if o.kind == 'return']
            for o in rets:
                analyse_path(recs, lay, m, f, o)
    shared._layout_records = recs
    return recs


def _via(ev):
    for fr in ev.stack:
        if fr[0] == 'call' and fr[1].cls is not None and fr[1].module.name == 'loader' and not fr[1].name.startswith('_'):
            return fr[1].name
    for fr in ev.stack:
        if fr[0] == 'call' and fr[1].cls is not None and fr[1].module.name == 'loader':
            return fr[1].name
    return ''


def analyse_path(recs, lay, m, entry, o):
    T = m.T
    events = o.state.events
    n0 = len(recs)
    try:
        _analyse_path(recs, lay, m, entry, o)
    finally:
        pass


def _analyse_path(recs, lay, m, entry, o):
    T = m.T
    events = o.state.events
    reads = [e for e in events if e.kind == 'read']
    # ---- L1 / L2 per read
    for ev in reads:
        probs = lay.check_offset(ev.offset)
        recs.append(Rec('L1', m.name, entry, ev.func, ev.node, not probs,
                        'offset %r is the canonical address' % (ev.offset,) if not probs else
                        'range-read offset `%s` = %r is not a well-formed address of the %s layout: %s' % (
                            TXT(ev.node.args[0]) if getattr(ev.node, 'args', None) else '?', ev.offset, m.name,
                            '; '.join(probs)), {'offset': repr(ev.offset)}, ev=ev))
        ln = ev.length
        ok2 = isinstance(ln, Poly) and lay.shift_invariant(ln) and not any(
            T.kind(a) == 'opaque' for a in ln.atoms())
        recs.append(Rec('L2', m.name, entry, ev.func, ev.node, ok2,
                        'length %r is an extent' % (ln,) if ok2 else
                        'range-read length %r depends on the *position* of the request (it changes when the request is '
                        'shifted by whole blocks): more bytes than the addressed units are fetched' % (ln,),
                        {'length': repr(ln)}, ev=ev))
    # ---- decode: bytes consumed == rate * prod(shape) / 8
    for ev in events:
        if ev.kind != 'decode':
            continue
        want = lay.shape_bytes(ev.shape)
        have = lay.nbytes(ev.buf)
        if want is None or have is None:
            recs.append(Rec('DEC', m.name, entry, ev.func, ev.node, False,
                            'decode call `%s`: buffer %r / shape %r do not normalise' % (TXT(ev.node)[:60], ev.buf, ev.shape)))
            continue
        ok = want == have
        recs.append(Rec('DEC', m.name, entry, ev.func, ev.node, ok,
                        'decoded shape %r needs exactly the %r bytes supplied' % (ev.shape, have) if ok else
                        'decode of shape %r needs %r bytes but the buffer handed to it holds %r' % (ev.shape, want, have),
                        {'shape': repr(ev.shape), 'bytes': repr(have)}, ev=ev))
    # ---- L3: assembly buffers are filled completely, piece by piece, without gaps
    bufs = {}
    for ev in events:
        if ev.kind == 'bufstore':
            bufs.setdefault(ev.buf.id, (ev.buf, []))[1].append(ev)
    for bid, (buf, stores) in bufs.items():
        for ev in stores:
            idx = ev.index
            if not (isinstance(idx, SliceV) and isinstance(idx.lo, Poly) and isinstance(idx.hi, Poly)):
                recs.append(Rec('L3', m.name, entry, ev.func, ev.node, False, 'buffer store with a non-polynomial slice'))
                continue
            ln = idx.hi - idx.lo
            vlen = lay.nbytes(ev.value)
            probs = []
            if vlen is not None and vlen != ln:
                probs.append('slice is %r bytes long but %r bytes are stored (the bytearray would change size)' % (ln, vlen))
            # the buffer position is a mixed-radix number of the loop variables: ordered by stride, the smallest
            # stride is the piece length and every next stride is (count * stride) of the previous digit
            lo_c = T.canon(idx.lo)
            digits = []
            for a_ in sorted(lo_c.atoms()):
                if T.meta.get(a_, {}).get('kind') != 'loop':
                    continue
                cnt = T.meta[a_].get('count')
                if cnt == C(1):
                    continue
                coef = Poly({k: v for k, v in lo_c.t.items() if any(x == a_ for x, e in k)})
                stride = T.exact_div(coef, A(a_))
                if stride is None:
                    probs.append('buffer position is not linear in loop %s' % a_.split('@')[0])
                    continue
                digits.append((a_, stride, cnt))
            for lp in ev.loops:
                if lp.count is not None and lp.count != C(1) and not any(
                        d[0] == lp.name or d[0].startswith(lp.name + '.') for d in digits):
                    probs.append('buffer position does not advance with loop %s: workers overwrite each other' % (
                        lp.name.split('@')[0]))
            cur = ln
            total = ln
            remaining = list(digits)
            while remaining and not probs:
                nxt = [d for d in remaining if d[1] == cur]
                if not nxt:
                    probs.append('no loop advances the buffer position by %r (piece so far); strides are %s' % (
                        cur, ', '.join('%s: %r' % (d[0].split('@')[0], d[1]) for d in remaining)))
                    break
                d = nxt[0]
                remaining.remove(d)
                cur = cur * d[2]
                total = cur
            if not probs:
                base = lo_c
                for a_ in list(base.atoms()):
                    if T.meta.get(a_, {}).get('kind') == 'loop':
                        base = base.subst({a_: Poly()})
                if not base.is_zero() and len(stores) == 1:
                    probs.append('first piece lands at %r, not at 0' % (base,))
                if len(stores) == 1 and total != buf.length:
                    probs.append('pieces cover %r bytes, the buffer has %r' % (total, buf.length))
            recs.append(Rec('L3', m.name, entry, ev.func, ev.node, not probs,
                            'pieces of %r bytes tile the %r-byte buffer in loop order' % (ln, buf.length) if not probs else
                            'assembly buffer: ' + '; '.join(probs), {'piece': repr(ln)}, ev=ev))
    # ---- L3 for arrays assembled from decoded blocks: block n of the file lands at array position n
    tile_checks(recs, lay, m, entry, events)
    # ---- L4 crop idiom on decoded arrays (subscripts in read.py)
    crop_checks(recs, lay, m, entry, events)


def tile_checks(recs, lay, m, entry, events):
    T = m.T
    for ev in events:
        if ev.kind != 'arrstore' or not isinstance(ev.arr, Arr) or ev.arr.kind != 'zeros':
            continue
        val = ev.value
        if not (isinstance(val, Arr) and val.kind == 'decoded' and isinstance(val.src, Bytes)):
            continue
        rd = [r for r in events if r.kind == 'read' and r.node is val.src.site]
        if not rd or not isinstance(rd[0].offset, Poly):
            recs.append(Rec('L3', m.name, entry, ev.func, ev.node, False, 'block store whose source read does not normalise', ev=ev))
            continue
        off = T.canon(rd[0].offset)
        idx = ev.index
        elts = idx.elts if isinstance(idx, Tup) else [idx]
        ashape = ev.arr.shape or []
        vshape = val.shape.elts if isinstance(val.shape, Tup) else (val.shape or [])
        axes = [0, 1, 2] if len(ashape) == 3 else [1, 2]
        probs = []
        if len(elts) != len(ashape) or len(vshape) != len(ashape):
            probs.append('store index / block shape / array shape have different ranks')
        else:
            for j, ix in enumerate(elts):
                k = axes[j]
                nm = ('IL', 'XL', 'Z')[k]
                bs = vshape[j]
                if not (isinstance(ix, SliceV) and isinstance(ix.lo, Poly) and isinstance(ix.hi, Poly) and isinstance(bs, Poly)):
                    probs.append('position %d: store slice does not normalise' % j)
                    continue
                if ix.hi - ix.lo != bs:
                    probs.append('position %d: the slice is %r long, the decoded block %r' % (j, ix.hi - ix.lo, bs))
                    continue
                if bs != 4 * lay.bvec[k]:
                    probs.append('position %d: decoded block extent %r is not the %s blockshape component' % (j, bs, nm))
                    continue
                lo = T.canon(ix.lo)
                q = T.exact_div(lo, bs)
                if q is None:
                    probs.append('position %d: slice start %r is not a multiple of the block extent %r' % (j, lo, bs))
                    continue
                if q.is_zero():
                    if not isinstance(ashape[j], Poly) or ashape[j] != bs:
                        probs.append('position %d: every block is stored at 0 but the array is %r long' % (j, ashape[j]))
                    continue
                atoms = list(q.atoms())
                if len(atoms) != 1 or q != A(atoms[0]) or T.meta.get(atoms[0], {}).get('kind') != 'loop':
                    probs.append('position %d: slice start %r is not <block extent> * <loop counter>' % (j, lo))
                    continue
                a = atoms[0]
                cnt = T.meta[a].get('count')
                if isinstance(ashape[j], Poly) and isinstance(cnt, Poly) and cnt * bs != ashape[j]:
                    probs.append('position %d: %r blocks of %r do not fill the array extent %r' % (j, cnt, bs, ashape[j]))
                terms = Poly({kk: v for kk, v in off.t.items() if any(x == a for x, e in kk)})
                coef = T.exact_div(terms, A(a)) if not terms.is_zero() else Poly()
                if coef is None or coef != lay.S_blk[k]:
                    probs.append('position %d (%s): array position advances with loop %s, but the file offset advances by %r '
                                 'per step of it (the %s block stride is %r): the block read is not the block stored' % (
                                     j, nm, a.split('@')[0], coef, nm, lay.S_blk[k]))
        recs.append(Rec('L3', m.name, entry, ev.func, ev.node, not probs,
                        'decoded block (i, x, z) of the file lands at array block position (i, x, z); blocks fill the array'
                        if not probs else 'block-wise assembly: ' + '; '.join(probs), ev=ev))


def base_of_array(lay, m, arr, events):
    """per axis, the sample coordinate of element 0 of a decoded array = coordinate addressed by the first read
    that feeds it (loop variables at 0)."""
    src = arr.src if isinstance(arr, Arr) else None
    reads = []
    if isinstance(arr, Arr) and arr.kind == 'zeros':
        # an array assembled block by block: its origin is the coordinate of the block stored at position 0
        for e in events:
            if e.kind == 'arrstore' and e.arr is arr and isinstance(e.value, Arr) and isinstance(e.value.src, Bytes):
                reads += [r for r in events if r.kind == 'read' and r.node is e.value.src.site]
    elif isinstance(src, Bytes):
        reads = [e for e in events if e.kind == 'read' and e.node is src.site]
    elif isinstance(src, (Buf, BufSlice)):
        b = src if isinstance(src, Buf) else src.buf
        for e in events:
            if e.kind == 'bufstore' and e.buf is b and isinstance(e.value, Bytes):
                reads += [r for r in events if r.kind == 'read' and r.node is e.value.site]
    if not reads or not isinstance(reads[0].offset, Poly):
        return None
    T = m.T
    off = T.canon(reads[0].offset)
    for a in list(off.atoms()):
        if T.kind(a) == 'loop':
            off = off.subst({a: Poly()})
    base = [C(0), C(0), C(0)]
    for a in lay.coord_atoms(off):
        meta = T.meta.get(a, {})
        if meta.get('kind') not in ('digit', 'digitb'):
            return None
        k = meta.get('axis')
        terms = Poly({kk: v for kk, v in off.t.items() if any(x == a for x, e in kk)})
        coef = T.exact_div(terms, A(a))
        if coef is None:
            return None
        if a.endswith('.b') and coef == lay.S_blk[k]:
            base[k] = base[k] + (4 * lay.bvec[k]) * A(a)
        elif a.endswith('.u') and coef == lay.S_unit[k]:
            base[k] = base[k] + 4 * A(a)
        else:
            return None
    return base


def is_request_value(lay, m, p, k):
    """p is 0, the real extent N_k, or a request variable of axis k - complete (all digits), or rounded down /
    up to a unit or block boundary (a prefix of its digit expansion, plus the rounding carry) - possibly + 1."""
    T = m.T
    if p.is_zero() or p == m.N[k]:
        return True
    bs = 4 * lay.bvec[k]
    weights = {'b': bs, 'u': C(4), 'r': C(1)}
    vars_ = set()
    rest = Poly(dict(p.t))
    seen_levels = set()
    for a in list(p.atoms()):
        meta = T.meta.get(a, {})
        if meta.get('kind') in ('digit', 'digitb') and not meta.get('slack'):
            if meta.get('axis') != k:
                return False
            vars_.add(meta.get('var'))
            lvl = a.rsplit('.', 1)[1]
            terms = Poly({kk: v for kk, v in p.t.items() if any(x == a for x, e in kk)})
            if terms != weights[lvl] * A(a):
                return False
            seen_levels.add(lvl)
            rest = rest - terms
    if len(vars_) != 1 or 'b' not in seen_levels:
        return False
    if 'r' in seen_levels and 'u' not in seen_levels and lay.bvec[k] != C(1):
        return False
    # what remains: 0, +1, one alignment step, or (alignment step) * (rounding carry of the same variable)
    if rest.is_zero() or rest == C(1):
        return True
    step = bs if 'u' not in seen_levels and 'r' not in seen_levels else (C(4) if 'r' not in seen_levels else C(1))
    if rest == step:
        return True
    q = T.exact_div(rest, step)
    if q is not None and q.is_monomial():
        (kk, v), = q.t.items()
        if v == 1 and len(kk) == 1 and T.kind(kk[0][0]) == 'carry':
            of = T.meta[kk[0][0]].get('of')
            ofvars = {T.meta.get(x, {}).get('var') for x in of.atoms()} if isinstance(of, Poly) else set()
            return ofvars <= vars_
    return False


def crop_checks(recs, lay, m, entry, events):
    T = m.T
    for ev in events:
        if ev.kind != 'subscript' or not isinstance(ev.arr, Arr):
            continue
        if ev.arr.kind != 'decoded' and not (ev.arr.kind == 'zeros' and any(
                e.kind == 'arrstore' and e.arr is ev.arr for e in events)):
            continue
        if not ev.func.qualname.startswith('read.'):
            continue
        base = base_of_array(lay, m, ev.arr, events)
        is_view = isinstance(ev.view_of, ArrView)
        if is_view:
            # a crop of a crop (get_trace on the chunk returned by read_subvolume): the origin moves by the first crop
            pidx = ev.view_of.index
            pel = pidx.elts if isinstance(pidx, Tup) else [pidx]
            if base is None or not all(isinstance(x, SliceV) for x in pel) or len(pel) != len(ev.arr.shape or []):
                continue
            nb = list(base)
            axes_ = [0, 1, 2] if len(ev.arr.shape or []) == 3 else [1, 2]
            okv = True
            for j, x in enumerate(pel):
                lo_ = x.lo if x.lo is not None else C(0)
                if not isinstance(lo_, Poly):
                    okv = False
                    break
                nb[axes_[j]] = nb[axes_[j]] + lo_
            if not okv:
                continue
            base = nb
        idx = ev.index
        elts = idx.elts if isinstance(idx, Tup) else [idx]
        shape = ev.arr.shape or []
        axes = [0, 1, 2] if len(shape) == 3 else [1, 2]
        probs = []
        if base is None:
            recs.append(Rec('L4', m.name, entry, ev.func, ev.node, False,
                            'cannot derive the origin of the decoded array from the reads that feed it', {'unknown': True}))
            continue
        for j, ix in enumerate(elts):
            if j >= len(axes):
                break
            k = axes[j]
            if isinstance(ix, SliceV):
                lo = ix.lo if ix.lo is not None else C(0)
                hi = ix.hi
                if not isinstance(lo, Poly) or (hi is not None and not isinstance(hi, Poly)):
                    probs.append('position %d: slice bounds do not normalise' % j)
                    continue
                if not is_request_value(lay, m, lo + base[k], k):
                    probs.append('position %d: slice start %r + array origin %r = %r is not the requested %s bound' % (
                        j, lo, base[k], lo + base[k], ('IL', 'XL', 'Z')[k]))
                if hi is not None and not is_request_value(lay, m, hi + base[k], k):
                    probs.append('position %d: slice stop %r + array origin %r = %r is not the requested %s bound' % (
                        j, hi, base[k], hi + base[k], ('IL', 'XL', 'Z')[k]))
            elif isinstance(ix, Poly):
                if not is_request_value(lay, m, ix + base[k], k):
                    probs.append('position %d: index %r + array origin %r = %r is not the requested %s ordinal' % (
                        j, ix, base[k], ix + base[k], ('IL', 'XL', 'Z')[k]))
            else:
                probs.append('position %d: index does not normalise (%r)' % (j, ix))
        # HULL: the decoded array is the minimal aligned hull of the requested window (or the whole padded axis)
        hprobs = []
        if not probs and not is_view:
            for j, ix in enumerate(elts):
                if j >= len(axes) or j >= len(shape) or not isinstance(shape[j], Poly):
                    continue
                k = axes[j]
                if isinstance(ix, SliceV):
                    rlo = (ix.lo if ix.lo is not None else C(0)) + base[k]
                    rhi = (ix.hi + base[k]) if ix.hi is not None else None
                elif isinstance(ix, Poly):
                    rlo, rhi = ix + base[k], ix + base[k] + 1
                else:
                    continue
                if rhi is None:
                    continue
                ext = shape[j]
                pad_k = 4 * lay.bvec[k] * lay.Bvec[k]
                if base[k].is_zero() and ext == pad_k:
                    continue        # whole padded axis
                ok = False
                for a_ in (C(4), 4 * lay.bvec[k]):
                    lo_a = a_ * T.floordiv(rlo, a_)
                    hi_a = a_ * T.ceildiv(rhi, a_) if rhi != m.N[k] else a_ * T.ceildiv(m.N[k], a_)
                    if base[k] == lo_a and base[k] + ext == hi_a:
                        ok = True
                if not ok:
                    hprobs.append('axis %s: the array covers samples [%r, %r) but the request [%r, %r) needs only its '
                                  'aligned hull' % (('IL', 'XL', 'Z')[k], base[k], base[k] + ext, rlo, rhi))
            if not is_view:
                recs.append(Rec('HULL', m.name, entry, ev.func, ev.node, not hprobs,
                                'fetched/decoded region is the minimal block- or unit-aligned hull of the request' if not hprobs
                                else 'more (or less) than the units holding requested samples is fetched: ' + '; '.join(hprobs),
                                {'shape': repr(shape)}, ev=ev))
        recs.append(Rec('L4', m.name, entry, ev.func, ev.node, not probs,
                        'crop %r selects exactly the requested window (array origin %r)' % (idx, base) if not probs else
                        'crop of the decoded array `%s`: %s' % (TXT(ev.node)[:70], '; '.join(probs)),
                        {'index': repr(idx)}, ev=ev))


# names of request ordinals (arguments of the read API and values derived from user coordinates): arbitrary integers by
# nature, so conclusions about them are legitimate; every other opaque-born quantity is an internal value the evaluator
# failed to express
_REQUEST_NAMES = {'il_id', 'xl_id', 'zslice_id', 'index', 'il_no', 'xl_no', 'i', 'x', 'z', 'il', 'xl', 'min_il', 'max_il',
                  'min_xl', 'max_xl', 'min_z', 'max_z', 'min_trace', 'max_trace', 'min_id', 'max_id', 'cd_id', 'ad_id',
                  'min_sample_id', 'max_sample_id', 'trace_id'}


def report(ctx, recs, mapping, select=lambda r: True):
    """fold per-(mode, entry) records into one obligation per (rule, site): holds iff it holds in every mode."""
    groups = {}
    unknown = []
    for r in recs:
        if r.rule not in mapping or not select(r):
            continue
        groups.setdefault(r.key, []).append(r)
    for key, rs in sorted(groups.items(), key=lambda kv: (kv[0][1], kv[0][2])):
        rule = mapping[rs[0].rule]
        bad = [r for r in rs if not r.ok]
        modes = sorted({r.mode for r in rs})
        NOT_UNDERSTOOD = ('not a polynomial', 'do not normalise', 'does not normalise', 'non-polynomial slice', '?<')
        from .symeval import OPAQUE_BORN
        for r in bad:
            if any(k in r.msg for k in NOT_UNDERSTOOD) or any((nm + '.') in r.msg or (nm + ' ') in r.msg for nm in OPAQUE_BORN
                                                              if not nm.split('@')[0] in _REQUEST_NAMES):
                # a quantity the evaluator could not express: the construct was not understood, which is not evidence
                # of a wrong address
                r.extra['unknown'] = True
        if bad and all(r.extra.get('unknown') for r in bad):
            # the analysis could not follow the construct: never a verdict
            unknown.append(bad[0])
            continue
        if bad:
            bmodes = sorted({r.mode for r in bad})
            ctx.fail(rule, bad[0].func, bad[0].node, '%s [layout modes: %s; reached from %s]' % (
                bad[0].msg, ', '.join(bmodes), ', '.join(sorted({r.entry.name for r in bad}))),
                line=getattr(bad[0].node, 'lineno', None), detail={'modes': bmodes})
        else:
            ctx.ok(rule, rs[0].func, rs[0].node, '%s [in %d layout mode(s), from %s]' % (
                rs[0].msg[:160], len(modes), ', '.join(sorted({r.entry.name for r in rs}))[:80]),
                sample=rs[0].extra)
    if unknown and not ctx.findings:
        r = unknown[0]
        raise AnalysisError('%s at %s:%s (%s; reached from %s)' % (r.msg, r.func.qualname if r.func else '?',
                                                                    getattr(r.node, 'lineno', '?'), r.mode, r.entry.name))
    for r in unknown:
        ctx.notes.append('not analysed: %s at %s' % (r.msg, r.func.qualname if r.func else '?'))
