"""Symbolic model of an open SgzReader for one (dimensionality, layout) mode.

Only the *header-parsed* quantities are seeded as atoms; every derived attribute
(shape_pad, unit_bytes, block_bytes, chunk_bytes, the loader and its block_dims ...) is
evaluated lazily from the package's own assignments in ``__init__`` - so a change to
those definitions changes the normal forms the rules compare.

Base atoms:  rate                      bits per voxel
             b0 b1 b2                  blockshape[k] / 4   (constant 1 in '4' layouts, >= 2 otherwise)
             B0 B1 B2                  number of blocks along axis k  (= ceil(n_k / blockshape[k]))
             n_k.u n_k.r               digits of the real extent:  n_k - 1 = blockshape[k]*(B_k - 1) + 4*n_k.u + n_k.r
"""
import ast
from .core import U, AnalysisError
from .algebra import Poly, Atoms, C, A
from .symeval import Interp, Obj, Opaque, Tup, State, Bytes, Buf, BufSlice, Axis, Packed, same

# layout modes: which blockshape components equal 4 (b_k == 1)
MODES_3D = [(True, True, False), (True, True, True), (False, False, True), (False, False, False),
            (True, False, False), (False, True, False), (True, False, True), (False, True, True)]
MODES_2D = [(None, True, False), (None, False, False), (None, True, True), (None, False, True)]


def mode_name(dim, flags):
    return dim + ':' + ''.join('?' if f is None else ('4' if f else 'N') for f in flags)


def param_axis(name):
    n = name.lower()
    n0 = n.split('@')[0]
    if n0 in ('i', 'x', 'z', 'n', 'u', 'd', 'k', 'index'):
        return None
    if 'trace' in n0 or n0.endswith('_id') and n0.startswith(('min_id', 'max_id')) or n0 in ('min_id', 'max_id'):
        return 1     # 2D trace ordinals live on the crossline position of the blockshape
    if 'il' in n0.replace('fil', '').replace('slice', '') and 'xl' not in n0:
        return 0
    if 'xl' in n0:
        return 1
    if n0.startswith(('min_z', 'max_z', 'zslice', 'z_')) or 'sample' in n0 or n0 in ('z',):
        return 2
    return None


class Model:
    def __init__(self, program, graph, dim, flags, reader_cls='read.SgzReader'):
        self.P, self.G = program, graph
        self.dim, self.flags = dim, flags
        self.name = mode_name(dim, flags)
        T = self.T = Atoms()
        self.rate = T.declare('rate', 0, None, kind='extent')
        b = []
        for k in range(3):
            if flags[k] is None:
                b.append(None)
            elif flags[k]:
                b.append(C(1))
            else:
                b.append(T.declare('b%d' % k, 2, None, kind='extent', axis=k))
        self.b = b
        self.bs = [C(1) if b[k] is None else 4 * b[k] for k in range(3)]
        self.B = [C(1) if b[k] is None else T.declare('B%d' % k, 1, None, kind='extent', axis=k) for k in range(3)]
        # real extent of axis k in digits:  N_k - 1 = blockshape[k]*(B_k - 1) + 4*n_k.u + n_k.r   (n_k.u < b_k, n_k.r < 4)
        self.N = []
        for k in range(3):
            if b[k] is None:
                self.N.append(C(1))
                continue
            nr = T.declare('n%d.r' % k, 0, 4, kind='digit', axis=k, slack=True, var='n%d' % k)
            low = nr
            if b[k] != C(1):
                nu = T.declare('n%d.u' % k, 0, b[k], kind='digit', axis=k, slack=True, var='n%d' % k)
                low = 4 * nu + nr
            self.N.append(self.bs[k] * self.B[k] - self.bs[k] + low + 1)
        seeds = {
            'n_ilines': self.N[0] if dim == '3d' else C(0),
            'n_xlines': self.N[1] if dim == '3d' else C(0),
            'n_samples': self.N[2],
            'tracecount': (T.declare('NT', 1, None, kind='extent') if dim == '3d' else self.N[1]),
            'rate': self.rate,
            'blockshape': Tup(list(self.bs)),
            'data_start_bytes': T.declare('DATA0', 0, None, kind='extent'),
            'n_header_blocks': T.declare('HB', 1, None, kind='extent'),
            'compressed_data_diskblocks': T.declare('NDB', 0, None, kind='extent'),
            'header_entry_length_bytes': T.declare('HLEN', 0, None, kind='extent'),
            'n_header_arrays': T.declare('NHA', 0, None, kind='extent'),
            'file': Opaque('file'),
            'headerbytes': Opaque('headerbytes'),
            'zslices': Axis(2, self.N[2]),
        }
        if dim == '3d':
            seeds['ilines'] = Axis(0, self.N[0])
            seeds['xlines'] = Axis(1, self.N[1])
        dim_ = dim

        def p_axis(name, dim_=dim_):
            # the trace ordinal of a 2D file lives on the crossline position of the blockshape
            if dim_ == '2d' and name.split('@')[0] == 'index':
                return 1
            return param_axis(name)
        self.p_axis = p_axis
        self.interp = Interp(program, graph, T, {'read.SgzReader': seeds}, param_axis=p_axis,
                             primitives={'utils.pad': self._pad,
                                         'loader.SgzLoader._get_compressed_bytes': self._read,
                                         'utils.read_range_file': self._read_range,
                                         'utils.read_range_blob': self._read_range,
                                         'utils.coord_to_index': self._coord_to_index,
                                         'utils.get_chunk_cache_size': self._opaque_call,
                                         'utils.int_to_bytes': self._codec, 'utils.signed_int_to_bytes': self._codec,
                                         'utils.np_float_to_bytes': self._codec,
                                         'utils.np_float_to_bytes_signed': self._codec})
        self.interp.bs = [None if b[k] is None else self.bs[k] for k in range(3)]
        cls = program.cls(reader_cls)
        self.reader = Obj(cls, name='reader')
        init = program.func('read.SgzReader.__init__')
        self.reader.init_envs = {init.qualname: {p: Opaque(p) for p in init.params[1:]}}
        for c in cls.mro:
            i = c.methods.get('__init__')
            if i is not None and i.qualname not in self.reader.init_envs:
                self.reader.init_envs[i.qualname] = {p: Opaque(p) for p in i.params[1:]}

    # -- primitives ---------------------------------------------------------
    def _pad(self, ip, node, st, func, selfobj, tgt=None, recv=None, call_args=(), keywords=()):
        vals = [ip.eval(a, st, func, selfobj) for a in call_args]
        for k in keywords:
            vals.append(ip.eval(k.value, st, func, selfobj))
        if len(vals) == 2 and all(isinstance(v, Poly) for v in vals):
            return vals[1] * self.T.ceildiv(vals[0], vals[1])
        return Opaque(U(node))

    def _read(self, ip, node, st, func, selfobj, tgt=None, recv=None, call_args=(), keywords=()):
        vals = [ip.eval(a, st, func, selfobj) for a in call_args]
        off, ln = (vals + [None, None])[:2]
        ip.emit(st, 'read', func, node, offset=off, length=ln, loader=recv)
        return Bytes(off, ln, node)

    def _read_range(self, ip, node, st, func, selfobj, tgt=None, recv=None, call_args=(), keywords=()):
        vals = [ip.eval(a, st, func, selfobj) for a in call_args]
        off, ln = (vals + [None, None, None])[1:3]
        # both primitives are bound to the same call: record once per call node
        if not any(ev.kind == 'rawread' and ev.node is node and ev.loops == ip.loops for ev in st.events[-2:]):
            ip.emit(st, 'rawread', func, node, offset=off, length=ln)
        return Bytes(off, ln, node)

    def _coord_to_index(self, ip, node, st, func, selfobj, tgt=None, recv=None, call_args=(), keywords=()):
        # sanitiser: returns an ordinal within the axis; modelled as a fresh digit variable of the axis
        axis_txt = U(call_args[1]) if len(call_args) > 1 else ''
        ax = {'self.ilines': 0, 'self.xlines': 1, 'self.zslices': 2}.get(axis_txt)
        nm = 'idx(%s)' % U(call_args[0]) if call_args else 'idx'
        return ip.digit_var(nm, ax)

    def _codec(self, ip, node, st, func, selfobj, tgt=None, recv=None, call_args=(), keywords=()):
        v = ip.eval(call_args[0], st, func, selfobj) if call_args else None
        return Packed(v, tgt.name if tgt is not None else '?')

    def _opaque_call(self, ip, node, st, func, selfobj, **kw):
        return Opaque(U(node))

    # -- running an entry point --------------------------------------------------
    def run(self, qualname, params=None, recv=None):
        """Evaluate a function from its entry with digit-variable parameters.
        -> list[Outcome] (each with .state.events)."""
        ip = self.interp
        f = self.P.func(qualname)
        env = {}
        names = f.params[1:] if f.is_method else f.params
        for p in names + f.kwonly:
            if params and p in params:
                v = params[p]
                env[p] = v(self) if callable(v) else v
                continue
            ax = self.p_axis(p)
            if p.endswith('_range') and ax is not None and self.interp.bs[ax] is not None and \
                    (params is None or params.get('__ranges__', True)):
                env[p] = Tup([ip.digit_var(p + '.lo', ax), ip.digit_var(p + '.hi', ax)])
                continue
            if p in f.defaults and isinstance(f.defaults[p], ast.Constant) and f.defaults[p].value in (None, True, False):
                env[p] = Opaque(p)       # optional flag / optional bound: left undecided, forks
            elif ax is not None and self.interp.bs[ax] is not None:
                env[p] = ip.digit_var(p, ax)
            else:
                env[p] = self.T.declare(p, 0, None, kind='param') if self._intlike(f, p) else Opaque(p)
        obj = recv if recv is not None else (self.reader if f.is_method else None)
        ip.loops, ip.stack = [], [('entry', f)]
        st = State(env)
        return ip.run_body(f.node.body, [st], f, obj)

    def _intlike(self, f, p):
        return not any(x in p for x in ('file', 'buffer', 'array', 'header', 'out', 'name'))

    def loader(self):
        st = State({})
        return self.interp.get_attr(self.reader, 'loader', st, self.P.func('read.SgzReader.__init__'), None)


def models(program, graph, dims=('3d', '2d')):
    out = []
    if '3d' in dims:
        out += [Model(program, graph, '3d', f) for f in MODES_3D]
    if '2d' in dims:
        out += [Model(program, graph, '2d', f) for f in MODES_2D]
    return out
