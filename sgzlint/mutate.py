"""AST-located single edits of a source file (used by the checker self-test, thorough tier).

An edit names a scope (``Class.method`` / ``function`` / None for the whole module), an *old* snippet and a *new*
snippet.  The old snippet is parsed and located in the scope by structural equality of syntax trees (``ast.dump``
without positions), so spacing, line breaks, parentheses and comments of the target file do not matter; the
matched node's source range is then replaced by the new text.  Nothing here is specific to a line number.
"""
import ast
import textwrap


class EditError(Exception):
    pass


def _scope_node(tree, scope):
    if not scope:
        return tree
    parts = scope.split('.')
    node = tree
    for p in parts:
        found = None
        for n in ast.walk(node):
            if n is node:
                continue
            if isinstance(n, (ast.FunctionDef, ast.AsyncFunctionDef, ast.ClassDef)) and n.name == p:
                found = n
                break
        if found is None:
            return None
        node = found
    return node


def _dump(n):
    return ast.dump(n, annotate_fields=True, include_attributes=False)


def _parse_old(old, new=None):
    old = textwrap.dedent(old).strip('\n')
    new_is_expr = True
    if new is not None:
        try:
            ast.parse(textwrap.dedent(new).strip(), mode='eval')
        except SyntaxError:
            new_is_expr = False
    try:
        e = ast.parse(old.strip(), mode='eval').body
        if new_is_expr:
            return 'expr', [e]
    except SyntaxError:
        pass
    try:
        body = ast.parse(old).body
    except SyntaxError as e:
        raise EditError('old snippet does not parse: %s' % e)
    return 'stmt', body


def _line_offsets(src):
    offs, pos = [], 0
    for ln in src.split('\n'):
        offs.append(pos)
        pos += len(ln.encode('utf-8')) + 1
    return offs


def _find_expr(scope, want):
    d = _dump(want)
    out = []
    for n in ast.walk(scope):
        if isinstance(n, ast.expr) and _dump(n) == d:
            out.append(n)
    out.sort(key=lambda n: (n.lineno, n.col_offset))
    return out


def _find_stmts(scope, want):
    """consecutive statements in one body matching the list ``want``."""
    ds = [_dump(w) for w in want]
    out = []
    for n in ast.walk(scope):
        for field in ('body', 'orelse', 'finalbody'):
            body = getattr(n, field, None)
            if not isinstance(body, list):
                continue
            for i in range(len(body) - len(ds) + 1):
                if all(isinstance(body[i + k], ast.stmt) and _dump(body[i + k]) == ds[k] for k in range(len(ds))):
                    out.append(body[i:i + len(ds)])
        if isinstance(n, ast.Try):
            for h in n.handlers:
                body = h.body
                for i in range(len(body) - len(ds) + 1):
                    if all(_dump(body[i + k]) == ds[k] for k in range(len(ds))):
                        out.append(body[i:i + len(ds)])
    out.sort(key=lambda b: (b[0].lineno, b[0].col_offset))
    # de-duplicate (ast.walk visits each body once, but keep it safe)
    seen, res = set(), []
    for b in out:
        k = (b[0].lineno, b[0].col_offset)
        if k not in seen:
            seen.add(k)
            res.append(b)
    return res


def apply_edit(src, scope, old, new, occurrence=0):
    """Return the edited source.  Raises EditError when the site does not exist (caller counts it as skipped)."""
    try:
        tree = ast.parse(src)
    except SyntaxError as e:
        raise EditError('target does not parse: %s' % e)
    sc = _scope_node(tree, scope)
    if sc is None:
        raise EditError('scope %s not found' % scope)
    kind, want = _parse_old(old, new)
    data = src.encode('utf-8')
    offs = _line_offsets(src)
    if kind == 'expr':
        hits = _find_expr(sc, want[0])
        if len(hits) <= (occurrence if occurrence >= 0 else 0):
            raise EditError('expression `%s` not found in %s' % (old.strip()[:60], scope or 'module'))
        targets = hits if occurrence == -1 else [hits[occurrence]]
        for n in sorted(targets, key=lambda n: (n.lineno, n.col_offset), reverse=True):
            a = offs[n.lineno - 1] + n.col_offset
            b = offs[n.end_lineno - 1] + n.end_col_offset
            data = data[:a] + ('(' + new.strip() + ')').encode('utf-8') + data[b:]
        out = data.decode('utf-8')
    else:
        hits = _find_stmts(sc, want)
        if len(hits) <= occurrence:
            raise EditError('statement `%s` not found in %s' % (old.strip().split('\n')[0][:60], scope or 'module'))
        blk = hits[occurrence]
        first, last = blk[0], blk[-1]
        lines = src.split('\n')
        # decorators belong to the statement
        start_line = min([first.lineno] + [d.lineno for d in getattr(first, 'decorator_list', [])])
        prefix = lines[start_line - 1][:first.col_offset]
        if prefix.strip():
            raise EditError('statement does not start its line')
        indent = prefix
        new_txt = textwrap.dedent(new).strip('\n')
        if not new_txt.strip():
            new_txt = 'pass'
        new_lines = [(indent + ln) if ln.strip() else ln for ln in new_txt.split('\n')]
        lines[start_line - 1:last.end_lineno] = new_lines
        out = '\n'.join(lines)
    try:
        compile(out, '<edited>', 'exec')
    except SyntaxError as e:
        raise EditError('edited source does not compile: %s' % e)
    if out == src:
        raise EditError('edit is a no-op')
    return out
