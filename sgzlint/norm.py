"""Normal form of a module before analysis: behaviour-preserving rewrites that undo the usual clean-up refactorings,
so that two programs which differ only by them are analysed as the same program.

  1. private helpers are inlined at their direct call sites: module-level functions, methods of a class of the same
     module and nested functions whose name starts with one underscore, which are small, not recursive, not generators
     and are not anchors of the analyser (ANCHORS: private functions the rules name).  A helper that is one return
     expression is inlined inside expressions; a structured one (if / for / raise, returns in tail position) that does
     not take `self` is inlined where its call is the whole value of an expression statement, an assignment or a return.
  2. a local assigned exactly once from a pure expression of stable operands is replaced by that expression at its uses
     (copy propagation); parallel assignments of tuples are split first.  Locals whose name carries an axis or role
     tag (il, xl, z, trace, shape) are kept: the axis rules read those names as the code's own type annotations.
     Locals that are indexed or dotted anywhere (buffers, arrays, tuples, handles) are kept as well.
  3. `x = a if c else b` becomes `if c: x = a  else: x = b`; likewise `return a if c else b`.
  4. a `for` over a literal tuple of tuples (or of expressions) whose body neither breaks nor continues is unrolled.
  5. `else` after a block that always leaves (return / raise / continue / break) is flattened.
  6. private module constants with a literal integer/string value are folded.
  7. small exact rewrites: `a if not c else b` -> `b if c else a` (also for two-armed statements), x[slice(a, b)] -> x[a:b],
     (a, b, c)[1] -> b, integer arithmetic on literals, tuple(<comprehension over known elements>) -> display.

Every rewritten node keeps the line of the construct it came from, so findings still point into the source.  The
rewrites are exact for the Python subset of this repository under the assumptions listed in DESIGN.md (no rebinding of
helpers at run time, attributes written only where the class writes them, no observable identity of integer temporaries).
"""
import ast
import copy
import os
import re

PURE_CALLS = {'len', 'min', 'max', 'abs', 'int', 'float', 'bool', 'tuple', 'divmod', 'isinstance', 'slice',
              'range', 'round', 'sum', 'all', 'any', 'sorted', 'list', 'set', 'frozenset', 'str', 'repr',
              'np.dtype', 'numpy.dtype', 'struct.calcsize', 'type', 'getattr', 'hasattr', 'enumerate', 'zip', 'reversed',
              'pad',     # utils.pad: rounds up to a multiple (pure arithmetic)
              'int_to_bytes', 'signed_int_to_bytes', 'double_to_bytes', 'np_float_to_bytes', 'np_float_to_bytes_signed',
              'bytes_to_int', 'bytes_to_signed_int', 'bytes_to_double'}     # utils struct codecs (pure)
MAX_HELPER_STMTS = 30
THREE_TUPLES = ('blockshape', 'shape_pad', 'block_dims')
PUBLIC_HELPERS = False    # also dissolve small public helpers that no rule names


def _negated(t):
    """the negation of a test in its simplest spelling: not not a -> a; == / != , in / not in, is / is not inverted;
    De Morgan over and / or"""
    if isinstance(t, ast.UnaryOp) and isinstance(t.op, ast.Not):
        return t.operand
    if isinstance(t, ast.Compare) and len(t.ops) == 1 and isinstance(t.ops[0], (ast.NotIn, ast.In, ast.Is, ast.IsNot, ast.Eq, ast.NotEq)):
        inv = {ast.NotIn: ast.In, ast.In: ast.NotIn, ast.Is: ast.IsNot, ast.IsNot: ast.Is, ast.Eq: ast.NotEq,
               ast.NotEq: ast.Eq}[type(t.ops[0])]
        return ast.copy_location(ast.Compare(left=t.left, ops=[inv()], comparators=t.comparators), t)
    if isinstance(t, ast.BoolOp):
        op = ast.And() if isinstance(t.op, ast.Or) else ast.Or()
        return ast.copy_location(ast.BoolOp(op=op, values=[_negated(v) for v in t.values]), t)
    return ast.copy_location(ast.UnaryOp(op=ast.Not(), operand=t), t)


class _FnBody(list):
    """top-level statement list of a function none of whose returns carries a value (a bare `return` ends the call)"""
    _fn_tail = True


class _LoopBody(list):
    """statement list that is directly the body of a loop (a `continue` in it ends the iteration)"""
    _in_loop = True


def _anchors():
    """private names the analyser itself refers to: never inlined."""
    here = os.path.dirname(os.path.abspath(__file__))
    names = set()
    for root, _d, files in os.walk(here):
        if os.path.basename(root) in ('variants', '__pycache__'):
            continue
        for fn in files:
            if fn.endswith('.py') and fn != 'norm.py':
                try:
                    src = open(os.path.join(root, fn), encoding='utf-8').read()
                except OSError:
                    continue
                for m in re.finditer(r"""['"]([A-Za-z0-9_.]*\b_[a-z][A-Za-z0-9_]*)['"]""", src):
                    names.add(m.group(1).split('.')[-1])
                # public names: every identifier that occurs inside a string literal of the analyser (qualified names of
                # anchors, attribute and method names the rules look for)
                for m in re.finditer(r"""['"]([^'"\n]{1,200})['"]""", src):
                    for w in re.findall(r'[A-Za-z_][A-Za-z0-9_]*', m.group(1)):
                        names.add(w)
    return names


_ANCHORS = None


def anchors():
    global _ANCHORS
    if _ANCHORS is None:
        _ANCHORS = _anchors()
    return _ANCHORS


def U(n):
    try:
        return ast.unparse(n)
    except Exception:
        return '<?>'


def skip(step):
    return step in os.environ.get('SGZ_NORM_SKIP', '').split(',')


def enabled():
    return os.environ.get('SGZ_NORM', '1') != '0'


# ---------------------------------------------------------------------------
def _is_private(name):
    return name.startswith('_') and not name.startswith('__')


def _const_expr(v):
    """literal numbers / strings, arithmetic over them and over other names, dotted names of imported modules (enum
    members such as segyio.TraceField.INLINE_3D): no calls, no containers."""
    for x in ast.walk(v):
        if isinstance(x, ast.Constant):
            if isinstance(x.value, bool) or not isinstance(x.value, (int, float, str)):
                return False
        elif not isinstance(x, (ast.BinOp, ast.UnaryOp, ast.Name, ast.Attribute, ast.operator, ast.unaryop, ast.expr_context)):
            return False
    return True


def _docless(body):
    if body and isinstance(body[0], ast.Expr) and isinstance(body[0].value, ast.Constant) and isinstance(body[0].value.value, str):
        return body[1:]
    return body


def _terminates(body):
    """does the block always leave (return / raise / continue / break) ?"""
    if not body:
        return False
    s = body[-1]
    if isinstance(s, (ast.Return, ast.Raise, ast.Continue, ast.Break)):
        return True
    if isinstance(s, ast.If):
        return bool(s.orelse) and _terminates(s.body) and _terminates(s.orelse)
    return False


def _own_nodes(fn):
    """nodes of a function body excluding nested function / class / lambda bodies (but including their headers)."""
    todo = list(fn.body)
    while todo:
        n = todo.pop()
        yield n
        for c in ast.iter_child_nodes(n):
            if isinstance(n, (ast.FunctionDef, ast.AsyncFunctionDef, ast.Lambda, ast.ClassDef)) and n is not fn:
                continue
            todo.append(c)


def _all_nodes(fn):
    for s in fn.body:
        for n in ast.walk(s):
            yield n


class _Subst(ast.NodeTransformer):
    """replace loads of names by expressions (deep copies)."""
    def __init__(self, mapping):
        self.m = mapping
        self.count = 0

    def visit_Name(self, n):
        if isinstance(n.ctx, ast.Load) and n.id in self.m:
            self.count += 1
            new = copy.deepcopy(self.m[n.id])
            for x in ast.walk(new):
                if hasattr(x, 'lineno'):
                    x.lineno = getattr(n, 'lineno', getattr(x, 'lineno', 0))
                    x.end_lineno = getattr(n, 'end_lineno', x.lineno)
                    x.col_offset = getattr(n, 'col_offset', 0)
                    x.end_col_offset = getattr(n, 'end_col_offset', 0)
            return new
        return n


def _lit_elems(e, lookup, depth=0):
    """element expressions of an iterable known at analysis time: a tuple / list display, a name bound once to one,
    zip(..) / enumerate(..) of such, range(<small constant>).  None when unknown."""
    if depth > 3:
        return None
    if isinstance(e, (ast.Tuple, ast.List)):
        if any(isinstance(x, ast.Starred) for x in e.elts):
            return None
        return list(e.elts)
    if isinstance(e, ast.Name) and lookup is not None:
        d = lookup(e.id)
        if isinstance(d, (ast.Tuple, ast.List)) and all(isinstance(x, ast.Constant) for x in d.elts) and not _typed_name(e.id):
            return [copy.deepcopy(x) for x in d.elts]
        if isinstance(d, (ast.Tuple, ast.List)):
            # elements read through the name: T[i]
            return [ast.copy_location(ast.Subscript(value=ast.Name(id=e.id, ctx=ast.Load()), slice=ast.Constant(value=i), ctx=ast.Load()), e)
                    for i in range(len(d.elts))]
        if d is None and e.id in THREE_TUPLES:
            # a parameter / free name called blockshape, shape_pad ..: a triple (IL, XL, Z) by the file format
            return [ast.copy_location(ast.Subscript(value=ast.Name(id=e.id, ctx=ast.Load()), slice=ast.Constant(value=i), ctx=ast.Load()), e)
                    for i in range(3)]
        return None
    if isinstance(e, ast.Attribute) and e.attr in THREE_TUPLES and isinstance(e.value, (ast.Name, ast.Attribute)):
        # blockshape / shape_pad are triples (IL, XL, Z) by the file format
        return [ast.copy_location(ast.Subscript(value=copy.deepcopy(e), slice=ast.Constant(value=i), ctx=ast.Load()), e) for i in range(3)]
    if isinstance(e, ast.Subscript) and isinstance(e.slice, ast.Slice) and e.slice.step is None and all(
            b is None or (isinstance(b, ast.Constant) and type(b.value) is int) for b in (e.slice.lower, e.slice.upper)):
        # a constant slice of a known sequence:  blockshape[1:]
        base = _lit_elems(e.value, lookup, depth + 1)
        if base is None:
            return None
        lo = e.slice.lower.value if e.slice.lower is not None else None
        hi = e.slice.upper.value if e.slice.upper is not None else None
        return base[lo:hi]
    if isinstance(e, ast.Call) and isinstance(e.func, ast.Name) and not e.keywords:
        if e.func.id == 'zip' and e.args:
            cols = [_lit_elems(a, lookup, depth + 1) for a in e.args]
            if any(c is None for c in cols) or len({len(c) for c in cols}) != 1:
                return None
            return [ast.copy_location(ast.Tuple(elts=list(row), ctx=ast.Load()), e) for row in zip(*cols)]
        if e.func.id == 'enumerate' and len(e.args) == 1:
            c = _lit_elems(e.args[0], lookup, depth + 1)
            if c is None:
                return None
            return [ast.copy_location(ast.Tuple(elts=[ast.Constant(value=i), x], ctx=ast.Load()), e) for i, x in enumerate(c)]
        if e.func.id == 'range' and 1 <= len(e.args) <= 3 and all(
                isinstance(a, ast.Constant) and type(a.value) is int for a in e.args):
            vals = list(range(*[a.value for a in e.args]))
            if len(vals) <= 8:
                return [ast.copy_location(ast.Constant(value=i), e) for i in vals]
        if e.func.id == 'reversed' and len(e.args) == 1:
            c = _lit_elems(e.args[0], lookup, depth + 1)
            return list(reversed(c)) if c is not None else None
    return None


class _Fold(ast.NodeTransformer):
    """(a, b, c)[1] -> b ;  tuple(f(x) for x in <known elements>) -> (f(x0), f(x1), ..)"""
    def __init__(self, lookup=None, pure=None):
        self.lookup, self.pure = lookup, pure

    def _expand(self, comp):
        if not (isinstance(comp, (ast.GeneratorExp, ast.ListComp)) and len(comp.generators) == 1):
            return None
        g = comp.generators[0]
        if g.ifs or g.is_async:
            return None
        if isinstance(g.target, ast.Name):
            names = [g.target.id]
        elif isinstance(g.target, ast.Tuple) and all(isinstance(x, ast.Name) for x in g.target.elts):
            names = [x.id for x in g.target.elts]
        else:
            return None
        elems = _lit_elems(g.iter, self.lookup)
        if elems is None or not (1 <= len(elems) <= 8) or self.pure is None or not self.pure(comp.elt):
            return None
        out = []
        for el in elems:
            if isinstance(g.target, ast.Name):
                vals = [el]
            elif isinstance(el, ast.Tuple) and len(el.elts) == len(names):
                vals = el.elts
            else:
                return None
            if not all(self.pure(v) for v in vals):
                return None
            out.append(_Subst(dict(zip(names, vals))).visit(copy.deepcopy(comp.elt)))
        return out

    def visit_Call(self, n):
        self.generic_visit(n)
        # f(*(a, b, c))  ->  f(a, b, c)      (also through a name bound once to a tuple display)
        if any(isinstance(a, ast.Starred) for a in n.args):
            new_args, ok = [], True
            for a in n.args:
                if isinstance(a, ast.Starred):
                    el = _lit_elems(a.value, self.lookup)
                    if el is None:
                        ok = False
                        break
                    new_args.extend(copy.deepcopy(x) for x in el)
                else:
                    new_args.append(a)
            if ok:
                n.args = new_args
        # reduce(operator.mul, (a, b, c), init) / math.prod((a, b, c)) / sum((a, b)) over known elements -> the expression
        fn_ = U(n.func)
        opname = None
        seq = init = None
        if fn_ in ('reduce', 'functools.reduce') and 2 <= len(n.args) <= 3 and not n.keywords and \
                U(n.args[0]) in ('operator.mul', 'mul', 'operator.add', 'add'):
            opname = ast.Mult() if U(n.args[0]).endswith('mul') else ast.Add()
            seq, init = n.args[1], (n.args[2] if len(n.args) == 3 else None)
        elif fn_ in ('math.prod', 'prod') and len(n.args) == 1 and all(k.arg == 'start' for k in n.keywords):
            opname, seq = ast.Mult(), n.args[0]
            init = n.keywords[0].value if n.keywords else None
        if opname is not None and self.pure is not None:
            elems = _lit_elems(seq, self.lookup)
            if elems is not None and 1 <= len(elems) <= 8 and all(self.pure(x) for x in elems) and (init is None or self.pure(init)):
                items = ([init] if init is not None else []) + list(elems)
                expr = copy.deepcopy(items[0])
                for x in items[1:]:
                    expr = ast.BinOp(left=expr, op=copy.deepcopy(opname), right=copy.deepcopy(x))
                return _set_loc(expr, n)
        # b''.join(<known elements>)  ->  e0 + e1 + ..
        if isinstance(n.func, ast.Attribute) and n.func.attr == 'join' and isinstance(n.func.value, ast.Constant) and \
                n.func.value.value == b'' and len(n.args) == 1 and not n.keywords and self.pure is not None:
            elems = self._expand(n.args[0]) if isinstance(n.args[0], (ast.GeneratorExp, ast.ListComp)) else _lit_elems(n.args[0], self.lookup)
            if elems is not None and 1 <= len(elems) <= 8:
                expr = copy.deepcopy(elems[0])
                for x in elems[1:]:
                    expr = ast.BinOp(left=expr, op=ast.Add(), right=copy.deepcopy(x))
                return _set_loc(expr, n)
        if isinstance(n.func, ast.Name) and n.func.id in ('tuple', 'list') and len(n.args) == 1 and not n.keywords:
            out = self._expand(n.args[0])
            if out is not None:
                new = ast.Tuple(elts=out, ctx=ast.Load()) if n.func.id == 'tuple' else ast.List(elts=out, ctx=ast.Load())
                return _set_loc(new, n)
        return n

    def visit_ListComp(self, n):
        self.generic_visit(n)
        if self.pure is not None and 'listcomp' not in os.environ.get('SGZ_NORM_SKIP', ''):
            out = self._expand(n)
            if out is not None:
                return _set_loc(ast.List(elts=out, ctx=ast.Load()), n)
        return n

    def visit_IfExp(self, n):
        self.generic_visit(n)
        if isinstance(n.test, ast.UnaryOp) and isinstance(n.test.op, ast.Not):
            return ast.copy_location(ast.IfExp(test=n.test.operand, body=n.orelse, orelse=n.body), n)
        return n

    def visit_BinOp(self, n):
        self.generic_visit(n)
        a, b = n.left, n.right
        if isinstance(a, ast.Constant) and isinstance(b, ast.Constant) and type(a.value) is int and type(b.value) is int:
            v = None
            if isinstance(n.op, ast.Add):
                v = a.value + b.value
            elif isinstance(n.op, ast.Sub):
                v = a.value - b.value
            elif isinstance(n.op, ast.Mult):
                v = a.value * b.value
            elif isinstance(n.op, ast.FloorDiv) and b.value != 0:
                v = a.value // b.value
            if v is not None and abs(v) < 2 ** 40:
                return ast.copy_location(ast.Constant(value=v), n)
        return n

    def visit_Subscript(self, n):
        self.generic_visit(n)
        # x[slice(a, b)] is x[a:b]
        def as_slice(e):
            if isinstance(e, ast.Call) and isinstance(e.func, ast.Name) and e.func.id == 'slice' and not e.keywords and \
                    1 <= len(e.args) <= 3 and not any(isinstance(a, ast.Starred) for a in e.args):
                none = lambda a: None if isinstance(a, ast.Constant) and a.value is None else a
                if len(e.args) == 1:
                    return ast.copy_location(ast.Slice(lower=None, upper=none(e.args[0]), step=None), e)
                return ast.copy_location(ast.Slice(lower=none(e.args[0]), upper=none(e.args[1]),
                                                   step=none(e.args[2]) if len(e.args) == 3 else None), e)
            return e
        if isinstance(n.slice, ast.Tuple):
            n.slice.elts = [as_slice(x) for x in n.slice.elts]
        else:
            n.slice = as_slice(n.slice)
        if isinstance(n.ctx, ast.Load) and isinstance(n.value, ast.Tuple) and isinstance(n.slice, ast.Constant) and \
                isinstance(n.slice.value, int) and not isinstance(n.slice.value, bool) and \
                -len(n.value.elts) <= n.slice.value < len(n.value.elts) and \
                not any(isinstance(e, ast.Starred) for e in n.value.elts):
            return n.value.elts[n.slice.value]
        return n


class _Rename(ast.NodeTransformer):
    def __init__(self, mapping):
        self.m = mapping

    def visit_Name(self, n):
        if n.id in self.m:
            return ast.copy_location(ast.Name(id=self.m[n.id], ctx=n.ctx), n)
        return n


def _set_loc(node, ref):
    for x in ast.walk(node):
        if isinstance(x, (ast.expr, ast.stmt)) or hasattr(x, 'lineno'):
            x.lineno = getattr(ref, 'lineno', 1)
            x.end_lineno = getattr(ref, 'end_lineno', x.lineno)
            x.col_offset = getattr(ref, 'col_offset', 0)
            x.end_col_offset = getattr(ref, 'end_col_offset', 0)
    return node


def _assigned_names(fn):
    """name -> list of binding nodes inside fn (own scope + comprehension targets, conservatively)."""
    out = {}

    def add(t, site):
        for x in ast.walk(t):
            if isinstance(x, ast.Name) and isinstance(x.ctx, (ast.Store, ast.Del)):
                out.setdefault(x.id, []).append(site)

    for n in _all_nodes(fn):
        if isinstance(n, ast.Assign):
            for t in n.targets:
                add(t, n)
        elif isinstance(n, (ast.AugAssign, ast.AnnAssign)):
            add(n.target, n)
        elif isinstance(n, (ast.For, ast.AsyncFor)):
            add(n.target, n)
        elif isinstance(n, ast.comprehension):
            add(n.target, n)
        elif isinstance(n, (ast.With, ast.AsyncWith)):
            for it in n.items:
                if it.optional_vars is not None:
                    add(it.optional_vars, n)
        elif isinstance(n, ast.ExceptHandler) and n.name:
            out.setdefault(n.name, []).append(n)
        elif isinstance(n, ast.NamedExpr):
            add(n.target, n)
        elif isinstance(n, ast.Delete):
            for t in n.targets:
                add(t, n)
        elif isinstance(n, (ast.FunctionDef, ast.AsyncFunctionDef, ast.ClassDef)):
            out.setdefault(n.name, []).append(n)
        elif isinstance(n, (ast.Import, ast.ImportFrom)):
            for a in n.names:
                out.setdefault((a.asname or a.name).split('.')[0], []).append(n)
        elif isinstance(n, (ast.Global, ast.Nonlocal)):
            for nm in n.names:
                out.setdefault(nm, []).extend([n, n])
    return out


def _match_target(tgt, el):
    """{name: expression} binding an assignment target (names, nested tuples) to an element expression of the same shape"""
    if isinstance(tgt, ast.Name):
        return {tgt.id: el}
    if isinstance(tgt, (ast.Tuple, ast.List)) and isinstance(el, (ast.Tuple, ast.List)) and len(tgt.elts) == len(el.elts):
        out = {}
        for t, e in zip(tgt.elts, el.elts):
            m = _match_target(t, e)
            if m is None:
                return None
            out.update(m)
        return out
    return None


def _comprehension_locals(fn):
    """ids of Name nodes that refer to a variable bound by an enclosing comprehension (its own scope)."""
    out = set()
    for c in _all_nodes(fn):
        if isinstance(c, (ast.ListComp, ast.GeneratorExp, ast.SetComp, ast.DictComp)):
            bound = {x.id for g in c.generators for x in ast.walk(g.target) if isinstance(x, ast.Name)}
            for x in ast.walk(c):
                if isinstance(x, ast.Name) and x.id in bound:
                    out.add(id(x))
    return out


def _params(fn):
    a = fn.args
    ps = [x.arg for x in a.posonlyargs + a.args + a.kwonlyargs]
    if a.vararg:
        ps.append(a.vararg.arg)
    if a.kwarg:
        ps.append(a.kwarg.arg)
    return ps


# ---------------------------------------------------------------------------
class ModuleNormaliser:
    def __init__(self, tree, modname):
        self.tree = tree
        self.modname = modname
        self.funcs = {}     # module-level private functions
        self.methods = {}   # name -> [(classnode, funcnode)]
        self.consts = {}
        self.done = set()
        self.in_progress = set()
        self.counter = 0
        self.log = []
        self.mutable_attrs = {}   # classnode -> attrs stored outside __init__
        for n in tree.body:
            if isinstance(n, ast.FunctionDef):
                self.funcs[n.name] = n
            elif isinstance(n, ast.ClassDef):
                for b in n.body:
                    if isinstance(b, ast.FunctionDef):
                        self.methods.setdefault(b.name, []).append((n, b))
            elif isinstance(n, ast.Assign) and len(n.targets) == 1 and isinstance(n.targets[0], ast.Name) and \
                    _is_private(n.targets[0].id):
                v = n.value
                if _const_expr(v):
                    self.consts[n.targets[0].id] = v
        # constants must be bound once in the module
        counts = {}
        for n in ast.walk(tree):
            if isinstance(n, ast.Name) and isinstance(n.ctx, (ast.Store, ast.Del)):
                counts[n.id] = counts.get(n.id, 0) + 1
        self.consts = {k: v for k, v in self.consts.items() if counts.get(k, 0) == 1}
        # constants defined from other private constants
        for _ in range(4):
            sub = _Subst(self.consts)
            self.consts = {k: sub.visit(copy.deepcopy(v)) for k, v in self.consts.items()}
        self.consts = {k: v for k, v in self.consts.items()
                       if not any(isinstance(x, ast.Name) and _is_private(x.id) for x in ast.walk(v))}
        self.class_of = {}
        for n in tree.body:
            if isinstance(n, ast.ClassDef):
                stored = set()
                for b in n.body:
                    if isinstance(b, ast.FunctionDef):
                        self.class_of[b] = n
                        if b.name != '__init__':
                            for x in ast.walk(b):
                                if isinstance(x, ast.Attribute) and isinstance(x.ctx, (ast.Store, ast.Del)):
                                    stored.add(x.attr)
                                if isinstance(x, ast.AugAssign) and isinstance(x.target, ast.Attribute):
                                    stored.add(x.target.attr)
                self.mutable_attrs[n] = stored

    # ------------------------------------------------------------------
    def run(self):
        for n in self.tree.body:
            if isinstance(n, ast.FunctionDef):
                self.norm_func(n, None)
            elif isinstance(n, ast.ClassDef):
                for b in n.body:
                    if isinstance(b, ast.FunctionDef):
                        self.norm_func(b, n)
        ast.fix_missing_locations(self.tree)
        return self.tree

    def norm_func(self, fn, cls):
        if id(fn) in self.done or id(fn) in self.in_progress:
            return
        self.in_progress.add(id(fn))
        try:
            # nested functions first
            for n in list(_all_nodes(fn)):
                if isinstance(n, ast.FunctionDef):
                    self.norm_func(n, cls)
            for _round in range(4):
                before = ast.dump(fn)
                if self.consts:
                    self.fold_consts(fn)
                bare = not any(isinstance(r, ast.Return) and r.value is not None for r in _own_nodes(fn)) and \
                    not any(isinstance(r, (ast.Yield, ast.YieldFrom)) for r in _own_nodes(fn))
                fn.body = self.struct_block(_FnBody(fn.body) if bare else fn.body, fn)
                self.merge_aug(fn)
                self.ssa_rename(fn)
                if not skip('inline'):
                    self.inline_calls(fn, cls)
                if not skip('copyprop'):
                    self.split_parallel(fn)
                    self.copy_prop(fn, cls)
                self.drop_dead_nested(fn)
                lookup = self.single_def_lookup(fn)
                fn.body = [_Fold(lookup, self.pure).visit(st) for st in fn.body]
                if ast.dump(fn) == before:
                    break
        finally:
            self.in_progress.discard(id(fn))
            self.done.add(id(fn))

    def single_def_lookup(self, fn):
        sites = _assigned_names(fn)
        params = set(_params(fn))

        def lookup(name):
            ss = sites.get(name, [])
            if name in params or len(ss) != 1:
                return None
            d = ss[0]
            if isinstance(d, ast.Assign) and len(d.targets) == 1 and isinstance(d.targets[0], ast.Name) and \
                    isinstance(d.value, (ast.Tuple, ast.List)) and all(self.pure(x) for x in d.value.elts):
                return d.value
            return None
        return lookup

    # ------------------------------------------------------------------ 6
    def fold_consts(self, fn):
        bound = set(_assigned_names(fn)) | set(_params(fn))
        m = {k: v for k, v in self.consts.items() if k not in bound}
        if m:
            sub = _Subst(m)
            fn.body = [sub.visit(s) for s in fn.body]

    # ------------------------------------------------------------------ 3,4,5
    def struct_block(self, body, fn):
        out = []
        i = 0
        in_loop = getattr(body, '_in_loop', False)
        fn_tail = getattr(body, '_fn_tail', False)
        body = _LoopBody(body) if in_loop else (_FnBody(body) if fn_tail else list(body))
        while i < len(body):
            s = body[i]
            # recurse
            for field in ('body', 'orelse', 'finalbody'):
                b = getattr(s, field, None)
                if isinstance(b, list) and b and isinstance(b[0], ast.stmt) and not isinstance(s, (ast.FunctionDef, ast.ClassDef, ast.AsyncFunctionDef)):
                    if field == 'body' and isinstance(s, (ast.For, ast.While)):
                        b = _LoopBody(b)
                    setattr(s, field, self.struct_block(b, fn))
            if isinstance(s, ast.Try):
                for h in s.handlers:
                    h.body = self.struct_block(h.body, fn)
            # `if not c: A else: B`  ->  `if c: B else: A`
            if isinstance(s, ast.If) and s.orelse and isinstance(s.test, ast.UnaryOp) and isinstance(s.test.op, ast.Not) \
                    and not (len(s.orelse) == 1 and isinstance(s.orelse[0], ast.If)) and not skip('swapnot'):
                s.test, s.body, s.orelse = s.test.operand, s.orelse, s.body
                self.log.append(('swap-not', fn.name, s.lineno))
            # 5b. a guard clause:  `if c: continue` in a loop body (or `if c: return` at the top level of a function that
            #     returns nothing) followed by the rest is the same as `if not c: <rest>` - the form the rules read
            guard = isinstance(s, ast.If) and not s.orelse and len(s.body) == 1 and i + 1 < len(body) and not skip('guardcontinue') and (
                (isinstance(s.body[0], ast.Continue) and in_loop) or
                (isinstance(s.body[0], ast.Return) and s.body[0].value is None and getattr(body, '_fn_tail', False)))
            if guard:
                rest = body[i + 1:]
                new = ast.copy_location(ast.If(test=_negated(s.test), body=rest, orelse=[]), s)
                ast.fix_missing_locations(new)
                del body[i:]
                body.append(new)
                self.log.append(('guard-clause', fn.name, s.lineno))
                nb = _LoopBody(new.body) if in_loop else (_FnBody(new.body) if getattr(body, '_fn_tail', False) else list(new.body))
                new.body = self.struct_block(nb, fn)
                out.append(new)
                i += 1
                continue
            # 5. else after a block that always leaves
            if isinstance(s, ast.If) and s.orelse and _terminates(s.body) and not skip('flatten'):
                rest = s.orelse
                s.orelse = []
                body[i + 1:i + 1] = rest
                self.log.append(('flatten-else', fn.name, s.lineno))
                # re-structure the same statement (now without else)
                out.append(s)
                i += 1
                continue
            # 3. a conditional expression that is the whole value of an assignment / return becomes a statement
            if not skip('ifstmt') and isinstance(s, (ast.Assign, ast.Return)) and isinstance(s.value, ast.IfExp) and \
                    (isinstance(s, ast.Return) or len(s.targets) == 1):
                ie = s.value
                if isinstance(s, ast.Return):
                    tb, fb = ast.Return(value=ie.body), ast.Return(value=ie.orelse)
                else:
                    tb = ast.Assign(targets=[copy.deepcopy(s.targets[0])], value=ie.body)
                    fb = ast.Assign(targets=[copy.deepcopy(s.targets[0])], value=ie.orelse)
                ast.copy_location(tb, ie.body)
                ast.copy_location(fb, ie.orelse)
                noop = lambda a: isinstance(a, ast.Assign) and isinstance(a.value, ast.Name) and U(a.targets[0]) == a.value.id
                if noop(tb) and noop(fb):
                    new = ast.copy_location(ast.Pass(), s)
                elif noop(fb):
                    new = ast.If(test=ie.test, body=[tb], orelse=[])
                elif noop(tb):
                    new = ast.If(test=ast.copy_location(ast.UnaryOp(op=ast.Not(), operand=ie.test), ie.test), body=[fb], orelse=[])
                else:
                    new = ast.If(test=ie.test, body=[tb], orelse=[fb])
                ast.copy_location(new, s)
                self.log.append(('if-stmt', fn.name, s.lineno))
                body[i:i + 1] = [new]
                continue
            # D.update({k: v for k in <known elements>})  ->  D[k0] = v0; D[k1] = v1; ..
            if isinstance(s, ast.Expr) and isinstance(s.value, ast.Call) and isinstance(s.value.func, ast.Attribute) and \
                    s.value.func.attr == 'update' and len(s.value.args) == 1 and not s.value.keywords and \
                    isinstance(s.value.args[0], ast.DictComp) and len(s.value.args[0].generators) == 1 and self.pure(s.value.func.value):
                dc = s.value.args[0]
                g = dc.generators[0]
                elems = _lit_elems(g.iter, self.single_def_lookup(fn))
                names = [g.target.id] if isinstance(g.target, ast.Name) else \
                    [x.id for x in g.target.elts] if isinstance(g.target, ast.Tuple) and all(isinstance(x, ast.Name) for x in g.target.elts) else None
                if elems is not None and 1 <= len(elems) <= 8 and not g.ifs and names and self.pure(dc.key) and self.pure(dc.value):
                    new_stmts = []
                    okk = True
                    for el in elems:
                        vals = [el] if isinstance(g.target, ast.Name) else (el.elts if isinstance(el, ast.Tuple) and len(el.elts) == len(names) else None)
                        if vals is None:
                            okk = False
                            break
                        sub = _Subst(dict(zip(names, vals)))
                        tgt = ast.Subscript(value=copy.deepcopy(s.value.func.value), slice=sub.visit(copy.deepcopy(dc.key)), ctx=ast.Store())
                        a_ = ast.Assign(targets=[tgt], value=sub.visit(copy.deepcopy(dc.value)))
                        new_stmts.append(_set_loc(a_, s))
                    if okk:
                        self.log.append(('update-unroll', fn.name, s.lineno))
                        body[i:i + 1] = new_stmts
                        continue
            # for a, b in itertools.product(X, Y): ..   ->   for a in X: for b in Y: ..   (X, Y pure; no break)
            if isinstance(s, ast.For) and not s.orelse and isinstance(s.iter, ast.Call) and \
                    U(s.iter.func) in ('itertools.product', 'product') and not s.iter.keywords and len(s.iter.args) >= 2 and \
                    isinstance(s.target, ast.Tuple) and len(s.target.elts) == len(s.iter.args) and \
                    all(isinstance(t, ast.Name) for t in s.target.elts) and all(self.pure(a) for a in s.iter.args) and \
                    not any(isinstance(a, ast.Starred) for a in s.iter.args) and \
                    not any(isinstance(x, ast.Break) for b in s.body for x in ast.walk(b)) and not skip('product'):
                inner = s.body
                for t, a in reversed(list(zip(s.target.elts, s.iter.args))):
                    lp = ast.For(target=t, iter=a, body=inner, orelse=[])
                    ast.copy_location(lp, s)
                    inner = [lp]
                self.log.append(('product-loop', fn.name, s.lineno))
                body[i:i + 1] = inner
                continue
            # 4. unroll a loop over a literal tuple
            if not skip('unroll') and isinstance(s, ast.For) and not s.orelse and \
                    not any(isinstance(x, (ast.Break, ast.Continue)) for b in s.body for x in ast.walk(b)) and \
                    1 <= len(_lit_elems(s.iter, self.single_def_lookup(fn)) or []) <= 8:
                un = self.unroll(s, fn)
                if un is not None:
                    self.log.append(('unroll', fn.name, s.lineno))
                    body[i:i + 1] = un
                    continue
            out.append(s)
            i += 1
        return out or [ast.Pass()]

    def unroll(self, s, fn):
        tgt = s.target
        names = [x.id for x in ast.walk(tgt) if isinstance(x, ast.Name)]
        if not names or len(set(names)) != len(names) or not all(
                isinstance(x, (ast.Name, ast.Tuple, ast.List, ast.expr_context)) for x in ast.walk(tgt)):
            return None
        # loop variables must not be assigned in the body or used after the loop (they are, at most, read in the body)
        sites = _assigned_names(fn)
        inside = {id(x) for b in s.body for x in ast.walk(b)}
        for nm in names:
            # not re-bound inside the body
            if any(id(a) in inside for a in sites.get(nm, []) if a is not s):
                return None
        sites = {k: [a for a in v if not isinstance(a, ast.comprehension)] for k, v in sites.items()}
        index = _Index(fn)
        comp_local = _comprehension_locals(fn)
        for x in _all_nodes(fn):
            if isinstance(x, ast.Name) and x.id in names and isinstance(x.ctx, ast.Load) and id(x) not in inside \
                    and id(x) not in comp_local:
                if len(sites.get(x.id, [])) == 1:
                    return None          # the only binding is this loop: the load reads its last value
                st = index.stmt_of(x)
                # a load that can run after this loop (later statement, or anywhere in a loop around both) may read it
                if st is None or index.common_loop(st, s):
                    return None
                if index.precedes(st, s) or index.exclusive(st, s):
                    continue
                # a later load is fine when the name is re-bound after this loop and before (or around) the load
                rebound = False
                for b in sites.get(x.id, []):
                    if b is s or id(b) not in index.pos:
                        continue
                    if index.precedes(s, b) and (index.precedes(b, st) or index.encloses(b, st) or b is st):
                        rebound = True
                if not rebound:
                    return None
        out = []
        for el in _lit_elems(s.iter, self.single_def_lookup(fn)):
            m = _match_target(tgt, el)
            if m is None or not all(self.pure(v) for v in m.values()):
                return None
            sub = _Subst(m)
            for b in s.body:
                out.append(sub.visit(copy.deepcopy(b)))
        return out

    def merge_aug(self, fn):
        """x = e0; x *= e1; x *= e2  (consecutive statements of one block, pure operands that do not mention x)  ->
        x = e0 * e1 * e2"""
        def walk(body):
            i = 0
            while i < len(body):
                s = body[i]
                for field in ('body', 'orelse', 'finalbody'):
                    b = getattr(s, field, None)
                    if isinstance(b, list) and b and isinstance(b[0], ast.stmt) and not isinstance(s, (ast.FunctionDef, ast.ClassDef)):
                        walk(b)
                if isinstance(s, ast.Assign) and len(s.targets) == 1 and isinstance(s.targets[0], ast.Name) and self.pure(s.value) \
                        and i + 1 < len(body):
                    nm = s.targets[0].id
                    nx = body[i + 1]
                    if isinstance(nx, ast.AugAssign) and isinstance(nx.target, ast.Name) and nx.target.id == nm and \
                            isinstance(nx.op, (ast.Mult, ast.Add, ast.Sub)) and self.pure(nx.value) and \
                            not any(isinstance(x, ast.Name) and x.id == nm for x in ast.walk(nx.value)) and \
                            not any(isinstance(x, ast.Name) and x.id == nm for x in ast.walk(s.value)):
                        s.value = ast.copy_location(ast.BinOp(left=s.value, op=nx.op, right=nx.value), s.value)
                        del body[i + 1]
                        self.log.append(('merge-aug', fn.name, nm))
                        continue
                i += 1
        walk(fn.body)

    def ssa_rename(self, fn):
        """a scratch local re-defined by plain assignments at the top level of the function body (r = a % m; ..; r = b % m; ..)
        becomes one name per definition, provided it is used only in straight-line / branching code (no loop, no nested
        function reads it) - each version is then single-assignment and takes part in copy propagation."""
        params = set(_params(fn))
        sites = _assigned_names(fn)
        for nm, ss in sorted(sites.items()):
            if nm in params or len(ss) < 2 or _typed_name(nm):
                continue
            if not all(isinstance(a, ast.Assign) and len(a.targets) == 1 and isinstance(a.targets[0], ast.Name) and a in fn.body
                       for a in ss):
                continue
            # no use inside loops / nested scopes / comprehensions bound names
            bad = False
            for st in fn.body:
                for x in ast.walk(st):
                    if isinstance(x, (ast.For, ast.While, ast.FunctionDef, ast.Lambda, ast.ListComp, ast.GeneratorExp, ast.SetComp,
                                      ast.DictComp, ast.Try, ast.With)) and any(isinstance(y, ast.Name) and y.id == nm for y in ast.walk(x)):
                        bad = True
            if bad:
                continue
            # a use before the first definition, or a definition that reads the previous version, is fine (handled in order)
            version = 0
            cur = None
            first_def = fn.body.index(ss[0]) if ss[0] in fn.body else None
            if first_def is None or any(isinstance(y, ast.Name) and y.id == nm for st in fn.body[:first_def] for y in ast.walk(st)):
                continue
            self.counter += 1
            for st in fn.body:
                if st in ss:
                    # the value still reads the previous version
                    if cur is not None:
                        st.value = _Rename({nm: cur}).visit(st.value)
                    version += 1
                    cur = '%s_v%d_%d' % (nm, version, self.counter)
                    st.targets[0] = ast.copy_location(ast.Name(id=cur, ctx=ast.Store()), st.targets[0])
                elif cur is not None:
                    idx = fn.body.index(st)
                    fn.body[idx] = _Rename({nm: cur}).visit(st)
            self.log.append(('ssa', fn.name, nm))

    # ------------------------------------------------------------------ purity
    def pure(self, e):
        for x in ast.walk(e):
            if isinstance(x, (ast.Constant, ast.Name, ast.Attribute, ast.Subscript, ast.BinOp, ast.UnaryOp, ast.BoolOp,
                              ast.Compare, ast.IfExp, ast.Tuple, ast.Slice, ast.JoinedStr, ast.FormattedValue,
                              ast.operator, ast.unaryop, ast.boolop, ast.cmpop, ast.expr_context, ast.Starred, ast.keyword)):
                continue
            if isinstance(x, ast.Call):
                if U(x.func) in PURE_CALLS:
                    continue
                return False
            if isinstance(x, (ast.ListComp, ast.GeneratorExp, ast.SetComp, ast.DictComp, ast.comprehension, ast.List, ast.Dict, ast.Set)):
                # fresh containers have identity; comprehensions of pure parts are still pure but keep them named
                return False
            return False
        return True

    # ------------------------------------------------------------------ 2
    def split_parallel(self, fn):
        def walk(body):
            i = 0
            while i < len(body):
                s = body[i]
                for field in ('body', 'orelse', 'finalbody'):
                    b = getattr(s, field, None)
                    if isinstance(b, list) and b and isinstance(b[0], ast.stmt) and not isinstance(s, (ast.FunctionDef, ast.ClassDef)):
                        walk(b)
                if isinstance(s, ast.Try):
                    for h in s.handlers:
                        walk(h.body)
                if isinstance(s, ast.Assign) and len(s.targets) == 1 and isinstance(s.targets[0], ast.Tuple) and \
                        isinstance(s.value, ast.Tuple) and len(s.value.elts) == len(s.targets[0].elts) and \
                        all(isinstance(t, ast.Name) or (isinstance(t, ast.Attribute) and isinstance(t.value, ast.Name))
                            for t in s.targets[0].elts) and \
                        not any(isinstance(e, ast.Starred) for e in s.value.elts):
                    tn = {U(t) for t in s.targets[0].elts}
                    used = {U(x) for e in s.value.elts for x in ast.walk(e) if isinstance(x, (ast.Name, ast.Attribute))}
                    # values are evaluated left to right and then bound left to right: splitting keeps that order as long as
                    # no value reads a target (for plain names, binding has no other effect)
                    if not (tn & used) and len(tn) == len(s.targets[0].elts) and (
                            all(self.pure(e) for e in s.value.elts) or all(isinstance(t, ast.Name) for t in s.targets[0].elts)):
                        new = []
                        for t, e in zip(s.targets[0].elts, s.value.elts):
                            a = ast.Assign(targets=[t], value=e)
                            ast.copy_location(a, s)
                            new.append(a)
                        body[i:i + 1] = new
                        i += len(new)
                        continue
                i += 1
        walk(fn.body)

    def copy_prop(self, fn, cls):
        if any(isinstance(n, (ast.Global, ast.Nonlocal)) for n in _all_nodes(fn)):
            return
        if any(isinstance(n, ast.Call) and U(n.func) in ('locals', 'vars', 'eval', 'exec') for n in _all_nodes(fn)):
            return
        params = set(_params(fn))
        changed = True
        guard = 0
        while changed and guard < 200:
            changed = False
            guard += 1
            sites = _assigned_names(fn)
            index = _Index(fn)
            for name, ss in sorted(sites.items()):
                if len(ss) != 1 or name in params:
                    continue
                if _typed_name(name):
                    continue
                d = ss[0]
                if not (isinstance(d, ast.Assign) and len(d.targets) == 1 and isinstance(d.targets[0], ast.Name)):
                    continue
                if not self.pure(d.value):
                    continue
                if any(isinstance(x, ast.Name) and x.id == name for x in ast.walk(d.value)):
                    continue
                if id(d) not in index.pos:
                    continue
                if not self.stable(fn, cls, d, sites, index, params):
                    continue
                uses = [x for x in _all_nodes(fn) if isinstance(x, ast.Name) and x.id == name and isinstance(x.ctx, ast.Load)]
                # every use after the definition, in its block
                if not all(index.after(d, u) for u in uses):
                    continue
                # a local that is indexed or dotted is an object (buffer, array, tuple, handle): it stays named
                if any(isinstance(x, (ast.Subscript, ast.Attribute)) and x.value in uses for x in _all_nodes(fn)):
                    continue
                # do not propagate into the value of an AugAssign target etc. (loads only) - fine
                sub = _Subst({name: d.value})
                blk = index.block_of[id(d)]
                k = blk.index(d)
                for j in range(k + 1, len(blk)):
                    blk[j] = sub.visit(blk[j])
                if sub.count != len(uses):
                    # a use we could not reach by statement order: undo is impossible, but `after` guaranteed order
                    pass
                del blk[k]
                if not blk:
                    blk.append(ast.copy_location(ast.Pass(), d))
                self.log.append(('copy-prop', fn.name, name))
                changed = True
                break

    def stable(self, fn, cls, d, sites, index, params):
        mut = self.mutable_attrs.get(cls, set()) if cls is not None else set()
        in_init = fn.name == '__init__'
        for x in ast.walk(d.value):
            if isinstance(x, ast.Name) and isinstance(x.ctx, ast.Load):
                for a in sites.get(x.id, []):
                    if a is d:
                        continue
                    if isinstance(a, (ast.For, ast.With)) and index.encloses(a, d):
                        continue
                    if isinstance(a, ast.comprehension):
                        return False
                    if index.precedes(a, d):
                        continue
                    return False
            if isinstance(x, ast.Attribute) and isinstance(x.ctx, ast.Load):
                # written in this function after (or around) the definition?
                for y in _all_nodes(fn):
                    if isinstance(y, ast.Attribute) and y.attr == x.attr and isinstance(y.ctx, (ast.Store, ast.Del)):
                        st = index.stmt_of(y)
                        if st is None or not index.precedes(st, d):
                            return False
                if isinstance(x.value, ast.Name) and x.value.id in ('self', 'cls') and x.attr in mut and not in_init:
                    return False
            if isinstance(x, ast.Subscript) and isinstance(x.ctx, ast.Load):
                base = U(x.value)
                for y in _all_nodes(fn):
                    if isinstance(y, ast.Subscript) and isinstance(y.ctx, (ast.Store, ast.Del)) and U(y.value) == base:
                        return False
        return True

    def drop_dead_nested(self, fn):
        """remove nested private functions that are no longer referenced."""
        def walk(body):
            for s in list(body):
                if isinstance(s, ast.FunctionDef) and _is_private_or_nested(s, fn):
                    refs = [x for x in _all_nodes(fn) if isinstance(x, ast.Name) and x.id == s.name and isinstance(x.ctx, ast.Load)]
                    if not refs and len(body) > 1:
                        body.remove(s)
                for field in ('body', 'orelse', 'finalbody'):
                    b = getattr(s, field, None)
                    if isinstance(b, list) and b and isinstance(b[0], ast.stmt) and not isinstance(s, (ast.FunctionDef, ast.ClassDef)):
                        walk(b)
        walk(fn.body)

    # ------------------------------------------------------------------ 1
    def helper_for(self, call, fn, cls, nested):
        """-> (helper funcnode, kind, skip_self, helper class) or None."""
        f = call.func
        if isinstance(f, ast.Name):
            if f.id in nested:
                return nested[f.id], 'nested', False, cls
            h = self.funcs.get(f.id)
            if h is not None and (_is_private(f.id) or PUBLIC_HELPERS):
                return h, 'module', False, None
            return None
        if isinstance(f, ast.Attribute) and isinstance(f.value, ast.Name) and (_is_private(f.attr) or PUBLIC_HELPERS) \
                and not f.attr.startswith('__'):
            cands = self.methods.get(f.attr, [])
            if len(cands) != 1:
                return None
            hc, h = cands[0]
            if cls is not None and not self.derives(cls, hc):
                return None
            decos = [U(d) for d in h.decorator_list]
            if f.value.id in ('self', 'cls') and cls is not None:
                if 'staticmethod' in decos:
                    return h, 'static', False, hc
                if 'classmethod' in decos:
                    return None
                if decos:
                    return None
                if f.value.id == 'self':
                    return h, 'method', True, hc
            if f.value.id == hc.name and 'staticmethod' in decos:
                return h, 'static', False, hc
        return None

    def derives(self, c, base, depth=0):
        if c is base:
            return True
        if depth > 5:
            return False
        for b in c.bases:
            for n in self.tree.body:
                if isinstance(n, ast.ClassDef) and n.name == U(b) and self.derives(n, base, depth + 1):
                    return True
        return False

    def inlinable(self, h, kind):
        if h.name in anchors() and kind != 'nested':
            return None
        if kind != 'nested' and not _is_private(h.name) and (h.name.startswith('__') or not PUBLIC_HELPERS):
            return None
        decos = [U(d) for d in h.decorator_list]
        if any(d not in ('staticmethod',) for d in decos):
            return None
        a = h.args
        if a.vararg or a.kwarg or a.posonlyargs:
            return None
        body = _docless(h.body)
        if not body or len([x for s in body for x in ast.walk(s) if isinstance(x, ast.stmt)]) > MAX_HELPER_STMTS:
            return None
        for x in ast.walk(h):
            if isinstance(x, (ast.Yield, ast.YieldFrom, ast.Await, ast.Global, ast.Nonlocal, ast.Try, ast.While,
                              ast.Lambda, ast.AsyncFunctionDef, ast.ClassDef, ast.AsyncWith)):
                return None
            if isinstance(x, ast.With) and any(isinstance(y, ast.Return) for y in ast.walk(x)):
                return None
            if isinstance(x, ast.FunctionDef) and x is not h:
                return None
            if isinstance(x, ast.Call) and isinstance(x.func, ast.Name) and x.func.id == h.name:
                return None
            if isinstance(x, ast.Call) and isinstance(x.func, ast.Attribute) and x.func.attr == h.name:
                return None
            if isinstance(x, ast.Call) and U(x.func) in ('super', 'locals', 'vars'):
                return None
        if len(body) == 1 and isinstance(body[0], ast.Return) and body[0].value is not None:
            return 'expr'
        # structured: returns only in tail position.  Methods that take `self` and need statements are the classes' own
        # steps (parse the sizes, check the subscripts ..): rules follow them through the call graph; only stateless
        # utilities (module functions, static methods, nested functions) are dissolved.
        if kind == 'method':
            return None
        if self.tail_returns(body):
            return 'stmt'
        return None

    def tail_returns(self, body):
        """every Return of the block is in tail position (after un-flattening early returns)."""
        for i, s in enumerate(body):
            last = i == len(body) - 1
            if isinstance(s, ast.Return):
                if not last:
                    return False
            elif isinstance(s, ast.If):
                has_ret = any(isinstance(x, ast.Return) for x in ast.walk(s))
                if has_ret:
                    if last:
                        if not (self.tail_returns(s.body) and self.tail_returns(s.orelse)):
                            return False
                    else:
                        # early return: `if c: ..return` followed by the rest  ==  if c: .. else: rest
                        if not _terminates(s.body) or s.orelse:
                            return False
                        if not self.tail_returns(s.body) or not self.tail_returns(body[i + 1:]):
                            return False
                        return True
            elif any(isinstance(x, ast.Return) for x in ast.walk(s)):
                return False
        return True

    def inline_calls(self, fn, cls):
        nested = {s.name: s for s in fn.body if isinstance(s, ast.FunctionDef)}
        # nested helpers must not capture names that are re-bound between definition and call in a way inlining
        # would change: inlining reads the variable at call time, exactly as the closure does.
        changed = True
        guard = 0
        while changed and guard < 100:
            changed = False
            guard += 1
            for blk, i, s in list(_blocks(fn)):
                if isinstance(s, (ast.FunctionDef, ast.ClassDef)):
                    continue
                # statement-level candidates
                call = None
                if isinstance(s, ast.Expr) and isinstance(s.value, ast.Call):
                    call = s.value
                elif isinstance(s, ast.Assign) and isinstance(s.value, ast.Call) and len(s.targets) == 1:
                    call = s.value
                elif isinstance(s, ast.Return) and isinstance(s.value, ast.Call):
                    call = s.value
                if call is not None:
                    r = self.helper_for(call, fn, cls, nested)
                    if r is not None:
                        h, kind, skip_self, hc = r
                        if h is not fn and id(h) not in self.in_progress:
                            self.norm_func(h, hc)
                            how = self.inlinable(h, kind)
                            if how == 'stmt':
                                new = self.inline_stmt(s, call, h, skip_self, fn)
                                if new is not None:
                                    blk[i:i + 1] = new
                                    self.log.append(('inline-stmt', fn.name, h.name))
                                    changed = True
                                    break
                # expression-level candidates anywhere in the statement (not inside nested scopes / comprehensions iter vars are fine)
                done = False
                for c in [x for x in _stmt_exprs(s) if isinstance(x, ast.Call)]:
                    r = self.helper_for(c, fn, cls, nested)
                    if r is None:
                        continue
                    h, kind, skip_self, hc = r
                    if h is fn or id(h) in self.in_progress:
                        continue
                    self.norm_func(h, hc)
                    how = self.inlinable(h, kind)
                    if how == 'stmt' and isinstance(s, (ast.Expr, ast.Assign, ast.Return, ast.AugAssign)) and \
                            self.straight_line(h) and self.unconditional(s, c):
                        new = self.hoist(s, c, h, skip_self, fn)
                        if new is not None:
                            blk[i:i + 1] = new
                            self.log.append(('inline-stmt', fn.name, h.name))
                            done = True
                            break
                    if how != 'expr':
                        continue
                    e = self.inline_expr(c, h, skip_self)
                    if e is None:
                        continue
                    _replace_node(s, c, e)
                    self.log.append(('inline-expr', fn.name, h.name))
                    done = True
                    break
                if done:
                    changed = True
                    break

    def straight_line(self, h):
        body = _docless(h.body)
        return len(body) >= 2 and all(isinstance(x, ast.Assign) for x in body[:-1]) and isinstance(body[-1], ast.Return) \
            and body[-1].value is not None

    def unconditional(self, s, call):
        """the call is evaluated exactly once whenever statement s runs, and before any other call of s"""
        # no short-circuit / conditional / comprehension / lambda between the statement and the call
        path = _path_to(s, call)
        if path is None:
            return False
        for n in path:
            if isinstance(n, (ast.BoolOp, ast.IfExp, ast.Lambda, ast.ListComp, ast.GeneratorExp, ast.SetComp, ast.DictComp,
                              ast.comprehension)):
                return False
        # other impure calls in s evaluated before it: only allow when the call's statement has no other package call
        # that precedes it textually (arguments are evaluated left to right)
        for x in _stmt_exprs(s):
            if isinstance(x, ast.Call) and x is not call and not self.pure(x) and \
                    (x.lineno, x.col_offset) < (call.lineno, call.col_offset) and not any(y is call for y in ast.walk(x)):
                return False
        return True

    def hoist(self, s, call, h, skip_self, fn):
        b = self.bind(call, h, skip_self)
        if b is None:
            return None
        body = copy.deepcopy(_docless(h.body))
        self.counter += 1
        tag = '_%s_%d_' % (h.name.strip('_'), self.counter)
        hs = _assigned_names(h)
        ren = {nm: tag + nm for nm in hs}
        pre, sub = [], {}
        for p_, a in b.items():
            if p_ in hs or not self.pure(a):
                nm = tag + p_
                ren[p_] = nm
                pre.append(_set_loc(ast.Assign(targets=[ast.Name(id=nm, ctx=ast.Store())], value=copy.deepcopy(a)), call))
            else:
                sub[p_] = a
        if skip_self and isinstance(call.func, ast.Attribute):
            sub[h.args.args[0].arg] = call.func.value
        body = [_Rename(ren).visit(st) for st in body]
        body = [_Subst(sub).visit(st) for st in body]
        ret = body[-1].value
        _replace_node(s, call, _set_loc(ret, call))
        out = pre + body[:-1]
        for st in out:
            _set_loc(st, s)
        return out + [s]

    def bind(self, call, h, skip_self):
        ps = [a.arg for a in h.args.args]
        if skip_self:
            ps = ps[1:]
        if any(isinstance(a, ast.Starred) for a in call.args) or any(k.arg is None for k in call.keywords):
            return None
        if len(call.args) > len(ps):
            return None
        b = dict(zip(ps, call.args))
        for k in call.keywords:
            if k.arg not in ps or k.arg in b:
                return None
            b[k.arg] = k.value
        # defaults
        defaults = h.args.defaults
        dps = [a.arg for a in h.args.args][len(h.args.args) - len(defaults):]
        for p_, dv in zip(dps, defaults):
            if p_ in ps and p_ not in b:
                if not isinstance(dv, ast.Constant):
                    return None
                b[p_] = dv
        if set(b) != set(ps):
            return None
        if h.args.kwonlyargs:
            return None
        return b

    def inline_expr(self, call, h, skip_self):
        b = self.bind(call, h, skip_self)
        if b is None:
            return None
        expr = _docless(h.body)[0].value
        # an impure argument may be substituted only if the parameter is used exactly once (and evaluation order is
        # not observable here: the other arguments are pure)
        impure = [p_ for p_, a in b.items() if not self.pure(a)]
        if len(impure) > 1:
            return None
        for p_ in impure:
            uses = [x for x in ast.walk(expr) if isinstance(x, ast.Name) and x.id == p_ and isinstance(x.ctx, ast.Load)]
            if len(uses) != 1:
                return None
        # parameters must not be assigned in the helper (it is a single return)
        new = _Subst(b).visit(copy.deepcopy(expr))
        if skip_self and isinstance(call.func, ast.Attribute):
            selfname = h.args.args[0].arg
            new = _Subst({selfname: call.func.value}).visit(new)
        return _set_loc(new, call)

    def inline_stmt(self, s, call, h, skip_self, fn):
        b = self.bind(call, h, skip_self)
        if b is None:
            return None
        body = copy.deepcopy(_docless(h.body))
        self.counter += 1
        tag = '_%s_%d_' % (h.name.strip('_'), self.counter)
        hs = _assigned_names(h)
        caller_names = set(_assigned_names(fn)) | set(_params(fn))
        # locals of the helper get fresh names; parameters that the helper assigns too
        ren = {}
        for nm in hs:
            ren[nm] = tag + nm if (nm in caller_names or True) else nm
        pre = []
        sub = {}
        for p_, a in b.items():
            uses = [x for st in body for x in ast.walk(st) if isinstance(x, ast.Name) and x.id == p_ and isinstance(x.ctx, ast.Load)]
            if p_ in hs or (not self.pure(a) and True):
                # bind to a fresh local first (argument evaluated once, before the body)
                nm = tag + p_
                ren[p_] = nm
                asg = ast.Assign(targets=[ast.Name(id=nm, ctx=ast.Store())], value=copy.deepcopy(a))
                pre.append(_set_loc(asg, call))
            else:
                sub[p_] = a
        if len([1 for p_, a in b.items() if not self.pure(a)]) > 1:
            # evaluation order of several impure arguments: keep the source order
            order = [a for a in call.args] + [k.value for k in call.keywords]
            pre.sort(key=lambda st: next((j for j, a in enumerate(order) if U(a) == U(st.value)), 0))
        if skip_self and isinstance(call.func, ast.Attribute):
            sub[h.args.args[0].arg] = call.func.value
        body = [_Rename(ren).visit(st) for st in body]
        body = [_Subst(sub).visit(st) for st in body]
        # deliver the result
        if isinstance(s, ast.Expr):
            deliver = lambda v, ref: ast.copy_location(ast.Expr(value=v), ref) if v is not None and not self.pure(v) else None
        elif isinstance(s, ast.Assign):
            deliver = lambda v, ref: ast.copy_location(ast.Assign(targets=copy.deepcopy(s.targets),
                                                                  value=v if v is not None else ast.Constant(value=None)), ref)
        else:
            deliver = lambda v, ref: ast.copy_location(ast.Return(value=v), ref)
        body = self.tail_deliver(body, deliver, isinstance(s, ast.Return))
        if body is None:
            return None
        out = pre + body
        for st in out:
            _set_loc(st, s)
        return out

    def tail_deliver(self, body, deliver, is_return):
        """rewrite tail returns of an inlined body into deliveries; early returns become if/else."""
        out = []
        for i, s in enumerate(body):
            last = i == len(body) - 1
            if isinstance(s, ast.Return):
                d = deliver(s.value, s)
                if d is not None:
                    out.append(d)
                return out or [ast.Pass()]
            if isinstance(s, ast.If) and any(isinstance(x, ast.Return) for x in ast.walk(s)):
                if last:
                    nb = self.tail_deliver(s.body, deliver, is_return)
                    no = self.tail_deliver(s.orelse, deliver, is_return) if s.orelse else self._fallthrough(deliver)
                else:
                    nb = self.tail_deliver(s.body, deliver, is_return)
                    no = self.tail_deliver(body[i + 1:], deliver, is_return)
                if nb is None or no is None:
                    return None
                new = ast.If(test=s.test, body=nb, orelse=[x for x in no if not isinstance(x, ast.Pass)] )
                ast.copy_location(new, s)
                out.append(new)
                return out
            out.append(s)
        # fell off the end: returns None
        out.extend(self._fallthrough(deliver))
        return out or [ast.Pass()]

    def _fallthrough(self, deliver):
        d = deliver(None, ast.Pass(lineno=1, col_offset=0))
        if d is None or isinstance(d, ast.Expr):
            return [ast.Pass()]
        return [d]


def _typed_name(name):
    """locals whose name carries an axis or role tag (il / xl / z / trace ..) are the code's own type annotations:
    the axis rules read them, so they are kept as named definitions."""
    from .axes import axis_of_text
    n = name.lower()
    if axis_of_text(name) is not None or 'trace' in n or 'shape' in n:
        return True
    try:
        from .axes import role_of
        return role_of(ast.Name(id=name, ctx=ast.Load())) is not None
    except Exception:
        return False


def _is_private_or_nested(s, fn):
    return True


class _Index:
    """positions of statements: block lists, order and enclosure."""
    def __init__(self, fn):
        self.pos = {}        # id(stmt) -> path tuple
        self.block_of = {}   # id(stmt) -> list
        self.parent_stmt = {}
        self.owner = {}      # id(node) -> stmt
        self.by_path = {}
        self._walk(fn.body, (), None)

    def _walk(self, body, path, parent):
        for i, s in enumerate(body):
            p = path + (i,)
            self.pos[id(s)] = p
            self.by_path[p] = s
            self.block_of[id(s)] = body
            self.parent_stmt[id(s)] = parent
            blocks = []
            if isinstance(s, (ast.FunctionDef, ast.AsyncFunctionDef, ast.ClassDef)):
                for x in ast.walk(s):
                    self.owner[id(x)] = s
                continue
            k = 0
            for field in ('body', 'orelse', 'finalbody'):
                b = getattr(s, field, None)
                if isinstance(b, list) and b and isinstance(b[0], ast.stmt):
                    blocks.append((field, b))
            if isinstance(s, ast.Try):
                for h in s.handlers:
                    blocks.append(('handler', h.body))
            inner = set()
            for (field, b) in blocks:
                self._walk(b, p + ((field, k),), s)
                k += 1
                for st in b:
                    for x in ast.walk(st):
                        inner.add(id(x))
            for x in ast.walk(s):
                if id(x) not in inner:
                    self.owner[id(x)] = s

    def stmt_of(self, node):
        return self.owner.get(id(node))

    def after(self, d, u, strict_stmt=False):
        """is node/statement u executed only after statement d has completed, within d's block (u lies in a later
        sibling statement of d, at any depth)?  With strict_stmt: d and u are statements and d precedes u likewise."""
        su = u if id(u) in self.pos else self.stmt_of(u)
        if su is None:
            return False
        if strict_stmt:
            # d precedes su: some ancestor-or-self of su is a later sibling of d  (d earlier in a common block)
            pd, pu = self.pos[id(d)], self.pos[id(su)]
        else:
            pd, pu = self.pos[id(d)], self.pos[id(su)]
        n = len(pd)
        if len(pu) < n:
            return False
        if pu[:n - 1] != pd[:n - 1]:
            return False
        return isinstance(pu[n - 1], int) and pu[n - 1] > pd[n - 1]

    def precedes(self, a, d):
        """statement a lies in an earlier sibling subtree than statement d (a completes before d starts, in every
        iteration of any loop around both)."""
        pa, pd = self.pos.get(id(a)), self.pos.get(id(d))
        if pa is None or pd is None:
            return False
        for x, y in zip(pa, pd):
            if x != y:
                return isinstance(x, int) and isinstance(y, int) and x < y
        return False

    def exclusive(self, a, d):
        """a and d lie in different arms of one `if` statement."""
        pa, pd = self.pos.get(id(a)), self.pos.get(id(d))
        if pa is None or pd is None:
            return False
        for k, (x, y) in enumerate(zip(pa, pd)):
            if x != y:
                if isinstance(x, tuple) and isinstance(y, tuple) and {x[0], y[0]} == {'body', 'orelse'}:
                    # the statement owning these blocks
                    owner = self.by_path.get(pa[:k])
                    return isinstance(owner, ast.If)
                return False
        return False

    def common_loop(self, a, d):
        """is there a loop statement whose body holds both a and d?"""
        x = self.parent_stmt.get(id(a))
        anc = set()
        while x is not None:
            if isinstance(x, (ast.For, ast.While)):
                anc.add(id(x))
            x = self.parent_stmt.get(id(x))
        y = self.parent_stmt.get(id(d))
        while y is not None:
            if id(y) in anc:
                return True
            y = self.parent_stmt.get(id(y))
        return False

    def encloses(self, a, d):
        pa, pd = self.pos.get(id(a)), self.pos.get(id(d))
        return pa is not None and pd is not None and len(pd) > len(pa) and pd[:len(pa)] == pa


def _blocks(fn):
    """(block list, index, stmt) for every statement of fn (own body, nested blocks; not nested defs)."""
    def walk(body):
        for i, s in enumerate(body):
            yield body, i, s
            if isinstance(s, (ast.FunctionDef, ast.AsyncFunctionDef, ast.ClassDef)):
                continue
            for field in ('body', 'orelse', 'finalbody'):
                b = getattr(s, field, None)
                if isinstance(b, list) and b and isinstance(b[0], ast.stmt):
                    yield from walk(b)
            if isinstance(s, ast.Try):
                for h in s.handlers:
                    yield from walk(h.body)
    yield from walk(fn.body)


def _stmt_exprs(s):
    """expression nodes belonging to statement s itself (not to nested statements), excluding lambda bodies."""
    todo = []
    for field, v in ast.iter_fields(s):
        if field in ('body', 'orelse', 'finalbody', 'handlers'):
            continue
        if isinstance(v, ast.AST):
            todo.append(v)
        elif isinstance(v, list):
            todo.extend(x for x in v if isinstance(x, ast.AST) and not isinstance(x, ast.stmt))
    while todo:
        n = todo.pop()
        yield n
        if isinstance(n, ast.Lambda):
            continue
        todo.extend(ast.iter_child_nodes(n))


def _path_to(root, target):
    """nodes strictly between root and target (ancestors of target inside root), or None"""
    def rec(n, acc):
        for c in ast.iter_child_nodes(n):
            if c is target:
                return acc
            r = rec(c, acc + [c])
            if r is not None:
                return r
        return None
    return rec(root, [])


def _replace_node(root, old, new):
    for n in ast.walk(root):
        for field, v in ast.iter_fields(n):
            if v is old:
                setattr(n, field, new)
                return True
            if isinstance(v, list):
                for i, x in enumerate(v):
                    if x is old:
                        v[i] = new
                        return True
    return False


def normalise(tree, modname):
    if not enabled():
        return tree, []
    mn = ModuleNormaliser(tree, modname)
    mn.run()
    mn.tree._sgz_inlined = {x[2] for x in mn.log if x[0] in ('inline-stmt', 'inline-expr')}
    return mn.tree, mn.log


def prune(trees):
    """remove private helpers (module functions, methods) that no module refers to any more after inlining."""
    if not enabled():
        return
    refs = {}
    for t in trees:
        for n in ast.walk(t):
            if isinstance(n, ast.Name) and isinstance(n.ctx, ast.Load):
                refs[n.id] = refs.get(n.id, 0) + 1
            elif isinstance(n, ast.Attribute):
                refs[n.attr] = refs.get(n.attr, 0) + 1
            elif isinstance(n, ast.alias):
                refs[n.name.split('.')[-1]] = refs.get(n.name.split('.')[-1], 0) + 1
            elif isinstance(n, ast.Constant) and isinstance(n.value, str) and n.value.isidentifier():
                refs[n.value] = refs.get(n.value, 0) + 1
    for t in trees:
        inlined = getattr(t, '_sgz_inlined', set())
        for body_owner in [t] + [c for c in t.body if isinstance(c, ast.ClassDef)]:
            for s in list(body_owner.body):
                if isinstance(s, ast.FunctionDef) and s.name in inlined and _is_private(s.name) and not refs.get(s.name) \
                        and s.name not in anchors() and len(body_owner.body) > 1:
                    body_owner.body.remove(s)
