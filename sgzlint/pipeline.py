"""E7 - shape of the three-thread writer pipeline, located by role (not by name).

roles: MAIN       the function that constructs threading.Thread objects
       COMPRESSOR the Thread target that calls zfpy.compress_numpy
       WRITER     the Thread target that calls .write on one of its parameters
       PRODUCERS  functions called by MAIN that receive the first queue and call .put on it
"""
import ast
from .core import U, AnalysisError, parent
from .facts import FactMap, happened_before


def calls_in(node, pred=None):
    return [n for n in ast.walk(node) if isinstance(n, ast.Call) and (pred is None or pred(n))]


def in_loop(node, stop):
    n = parent(node)
    while n is not None and n is not stop:
        if isinstance(n, (ast.For, ast.While, ast.ListComp, ast.GeneratorExp, ast.SetComp, ast.DictComp)):
            return n
        n = parent(n)
    return None


def in_branch(node, stop):
    n = parent(node)
    while n is not None and n is not stop:
        if isinstance(n, (ast.If, ast.IfExp, ast.Try)):
            return n
        n = parent(n)
    return None


class Pipeline:
    def __init__(self, P, G):
        self.P, self.G = P, G
        mains = []
        for f in P.functions.values():
            th = [e for e in G.callees(f) if e.kind == 'thread']
            if th:
                mains.append((f, th))
        if len(mains) != 1:
            raise AnalysisError('expected exactly one function constructing Thread objects, found %s' % (
                [m[0].qualname for m in mains],))
        self.main, self.thread_edges = mains[0]
        self.compressor = self.writer = None
        self.compress_edges, self.writer_edges = [], []
        self.threaded_producers = []
        for e in self.thread_edges:
            t = e.target
            # a Thread target that only *puts* on a queue is a producer moved off the calling thread
            puts = calls_in(t.node, lambda c: isinstance(c.func, ast.Attribute) and c.func.attr == 'put' and U(c.func.value) in t.params)
            gets = calls_in(t.node, lambda c: isinstance(c.func, ast.Attribute) and c.func.attr == 'get' and U(c.func.value) in t.params)
            if puts and not gets:
                self.threaded_producers.append(e)
                continue
            if calls_in(t.node, lambda c: U(c.func).endswith('compress_numpy')):
                self.compressor = t
                self.compress_edges.append(e)
            elif calls_in(t.node, lambda c: isinstance(c.func, ast.Attribute) and c.func.attr == 'write'
                          and U(c.func.value) in t.params):
                self.writer = t
                self.writer_edges.append(e)
        if self.compressor is None or self.writer is None:
            raise AnalysisError('cannot identify compressor / writer thread bodies among %s' % (
                [e.target.qualname for e in self.thread_edges],))
        # queues: locals of MAIN assigned from a *Queue constructor
        self.queues = {}
        for n in ast.walk(self.main.node):
            if isinstance(n, ast.Assign) and isinstance(n.value, ast.Call) and len(n.targets) == 1 and \
                    isinstance(n.targets[0], ast.Name):
                r = P.resolve_name(self.main.module, U(n.value.func))
                name = r[1] if isinstance(r, tuple) else ''
                if 'Queue' in U(n.value.func) or 'queue.' in str(name):
                    self.queues[n.targets[0].id] = (n, str(name))
        if len(self.queues) < 2:
            raise AnalysisError('expected two queues in %s, found %s' % (self.main.qualname, list(self.queues)))
        ce = self.compress_edges[0]
        self.q_in = self._queue_arg(ce, self._param_with_method(self.compressor, 'get'))
        self.q_out = self._queue_arg(ce, self._param_with_method(self.compressor, 'put'))
        we = self.writer_edges[0]
        self.q_w = self._queue_arg(we, self._param_with_method(self.writer, 'get'))
        self.handle_param = [U(c.func.value) for c in calls_in(self.writer.node, lambda c: isinstance(
            c.func, ast.Attribute) and c.func.attr == 'write')][0]
        self.handle = U(we.binding.get(self.handle_param)) if we.binding.get(self.handle_param) is not None else None
        # producers
        self.producers = []
        for e in list(G.callees(self.main)):
            if (e.kind == 'direct' or e in self.threaded_producers) and e.target is not None:
                for p, v in e.binding.items():
                    if U(v) == self.q_in and calls_in(e.target.node, lambda c, p=p: isinstance(
                            c.func, ast.Attribute) and c.func.attr == 'put' and U(c.func.value) == p):
                        self.producers.append((e, p))
        if not self.producers:
            raise AnalysisError('no producer (function receiving %s and calling .put) called from %s' % (
                self.q_in, self.main.qualname))

    def _param_with_method(self, f, meth):
        ps = []
        for c in calls_in(f.node, lambda c: isinstance(c.func, ast.Attribute) and c.func.attr == meth):
            if U(c.func.value) in f.params and U(c.func.value) not in ps:
                ps.append(U(c.func.value))
        if len(ps) != 1:
            raise AnalysisError('%s: expected exactly one parameter used with .%s(), found %s' % (f.qualname, meth, ps))
        return ps[0]

    def _queue_arg(self, edge, param):
        v = edge.binding.get(param)
        if v is None or U(v) not in self.queues:
            raise AnalysisError('thread argument for %s.%s is not one of the queues' % (edge.target.qualname, param))
        return U(v)
