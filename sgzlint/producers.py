"""Structure of the writer-side producers (shared by C01, C04, C08, C09, C11, C19, C20):
layout predicate, emission loops, hash region, edge fill."""
import ast
from .core import U, AnalysisError, parent, enclosing_stmt
from .facts import FactMap
from .pipeline import Pipeline, calls_in


def blockshape_atoms(test):
    """{(k, c)} for a conjunction of `<x>blockshape[k] == c` (None if the test has another shape)."""
    atoms = set()
    parts = test.values if isinstance(test, ast.BoolOp) and isinstance(test.op, ast.And) else [test]
    for p in parts:
        if isinstance(p, ast.Compare) and len(p.ops) == 1 and isinstance(p.ops[0], ast.Eq):
            l, r = p.left, p.comparators[0]
            if isinstance(r, ast.Subscript):
                l, r = r, l
            if isinstance(l, ast.Subscript) and 'blockshape' in U(l.value) and isinstance(l.slice, ast.Constant) \
                    and isinstance(r, ast.Constant):
                atoms.add((l.slice.value, r.value))
                continue
            # tuple-slice equality: blockshape[0:2] == (4, 4)
            if isinstance(l, ast.Subscript) and 'blockshape' in U(l.value) and isinstance(l.slice, ast.Slice) and \
                    isinstance(r, ast.Tuple):
                lo = l.slice.lower.value if isinstance(l.slice.lower, ast.Constant) else 0
                for i, e in enumerate(r.elts):
                    if isinstance(e, ast.Constant):
                        atoms.add((lo + i, e.value))
                continue
        return None
    return atoms


class Producer:
    def __init__(self, func, qparam, edge):
        self.func, self.qparam, self.edge = func, qparam, edge
        self.puts = [c for c in calls_in(func.node) if isinstance(c.func, ast.Attribute) and c.func.attr == 'put'
                     and U(c.func.value) == qparam]
        self.switch = None      # the If choosing whole-stream vs per-block emission
        self.whole_put = None
        self.block_puts = []
        for c in self.puts:
            p = parent(c)
            n = c
            while n is not None and n is not func.node:
                if isinstance(n, ast.If) and blockshape_atoms(n.test) is not None:
                    inbody = any(c is x for s in n.body for x in ast.walk(s))
                    if inbody:
                        self.switch, self.whole_put = n, c
                    else:
                        self.block_puts.append(c)
                    break
                n = parent(n)
        self.hash_updates = [c for c in calls_in(func.node) if isinstance(c.func, ast.Attribute) and
                             c.func.attr == 'update' and 'hash' in U(c.func.value)]
        # outer group loop: the For containing every put
        self.group_loop = None
        if self.puts:
            n = parent(self.puts[0])
            loops = []
            while n is not None and n is not func.node:
                if isinstance(n, ast.For):
                    loops.append(n)
                n = parent(n)
            self.group_loop = loops[-1] if loops else None
        self.is_2d = '2d' in func.name or any(isinstance(n, ast.Tuple) and len(n.elts) == 2 and
                                              'blockshape[1]' in U(n) and 'padded_shape[2]' in U(n)
                                              for n in ast.walk(func.node))


def producers(P, G):
    pl = Pipeline(P, G)
    out = []
    for (e, qp) in pl.producers:
        out.append(Producer(e.target, qp, e))
    if len(out) < 3:
        raise AnalysisError('expected 3 producers (numpy, seismic file 3D, seismic file 2D), found %d' % len(out))
    return pl, out


def reader_unit_order_predicates(P, G):
    """predicates under which read.py selects loaders whose address algebra assumes unit-ordered storage:
    the tests guarding calls to the specialised (non-general) loaders.  -> {'3d': set(atoms), '2d': set(atoms)}, sites"""
    reader = P.cls('read.SgzReader')
    preds = {'3d': [], '2d': [], 'unguarded': []}
    for m in reader.methods.values():
        for e in G.callees(m):
            t = e.target
            if t is None or t.cls is None or t.module.name != 'loader':
                continue
            if 'unshuffle' in t.name:
                continue       # the general block-ordered loaders
            n = e.call
            guarded = False
            while n is not None and n is not m.node:
                if isinstance(n, ast.If):
                    at = blockshape_atoms(n.test)
                    inbody = any(e.call is x for s in n.body for x in ast.walk(s))
                    if at is not None and inbody:
                        dim = '2d' if t.cls.name.endswith('2d') else '3d'
                        guarded = True
                        # the z-slice layout predicate (blockshape[2] == 4) is a different specialisation
                        if at != {(2, 4)}:
                            preds[dim].append((at, m, n))
                        break
                n = parent(n)
            if not guarded and not t.name.startswith('_') and t.name not in ('clear_cache', 'read_chunk_range') and \
                    m.cls is reader and e.kind not in ('thread', 'pool'):
                preds['unguarded'].append((m, e.call, t))
    return preds
