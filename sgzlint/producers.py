"""Structure of the writer-side producers (shared by C01, C04, C08, C09, C11, C19, C20):
layout predicate, emission loops, hash region, edge fill."""
import ast
from .core import U, AnalysisError, parent, enclosing_stmt
from .facts import FactMap
from .pipeline import Pipeline, calls_in


def blockshape_atoms(test):
    """{(k, c)} for a conjunction of `<x>blockshape[k] == c` (None if the test has another shape)."""
    atoms = set()
    parts = test.values if isinstance(test, ast.BoolOp) and isinstance(test.op, ast.And) else [test]
    for p in parts:
        if isinstance(p, ast.Compare) and len(p.ops) == 1 and isinstance(p.ops[0], ast.Eq):
            l, r = p.left, p.comparators[0]
            if isinstance(r, ast.Subscript):
                l, r = r, l
            if isinstance(l, ast.Subscript) and 'blockshape' in U(l.value) and isinstance(l.slice, ast.Constant) \
                    and isinstance(r, ast.Constant):
                atoms.add((l.slice.value, r.value))
                continue
            # tuple-slice equality: blockshape[0:2] == (4, 4)
            if isinstance(l, ast.Subscript) and 'blockshape' in U(l.value) and isinstance(l.slice, ast.Slice) and \
                    isinstance(r, ast.Tuple):
                lo = l.slice.lower.value if isinstance(l.slice.lower, ast.Constant) else 0
                for i, e in enumerate(r.elts):
                    if isinstance(e, ast.Constant):
                        atoms.add((lo + i, e.value))
                continue
        return None
    return atoms


def blockshape_facts(fm, node):
    """{(k, c)}: `<x>blockshape[k] == c` holds on every path reaching ``node`` (whatever spelling established it:
    conjunction, chained comparison, negated disjunction, early return, tuple-slice equality).  Equalities are closed
    under transitivity first."""
    import re
    from .facts import expand_defs
    facts = fm.facts_at(node) or frozenset()
    eqs = [(a[1], a[2]) for a in facts if a[0] == '==' and isinstance(a[1], str) and isinstance(a[2], str)]
    # a component held in a local: traces_per_block = self.blockshape[1]; if traces_per_block == 4
    eqs += [(expand_defs(l, facts), expand_defs(r, facts)) for (l, r) in list(eqs)]
    # blockshape[lo:hi] == (c0, c1, ..)
    for l, r in list(eqs):
        for x, y in ((l, r), (r, l)):
            m = re.fullmatch(r'((?:\w+\.)*\w*blockshape)\[(\d*):(\d*)\]', x)
            if m:
                try:
                    tv = ast.literal_eval(y)
                except Exception:
                    continue
                if isinstance(tv, (tuple, list)):
                    lo = int(m.group(2) or 0)
                    for i, c in enumerate(tv):
                        if isinstance(c, int):
                            eqs.append(('%s[%d]' % (m.group(1), lo + i), str(c)))
    parent_ = {}

    def find(x):
        parent_.setdefault(x, x)
        while parent_[x] != x:
            parent_[x] = parent_[parent_[x]]
            x = parent_[x]
        return x
    for l, r in eqs:
        parent_[find(l)] = find(r)
    classes = {}
    for x in list(parent_):
        classes.setdefault(find(x), set()).add(x)
    out = set()
    for members in classes.values():
        consts = {int(x) for x in members if re.fullmatch(r'-?\d+', x)}
        if len(consts) != 1:
            continue
        c = consts.pop()
        for x in members:
            m = re.fullmatch(r'(?:\w+\.)*\w*blockshape\[(\d+)\]', x)
            if m:
                out.add((int(m.group(1)), c))
    return out


def _switch_if(node, stop):
    n = parent(node)
    while n is not None and n is not stop:
        if isinstance(n, ast.If) and 'blockshape[' in U(n.test):
            return n
        n = parent(n)
    return None


class Producer:
    def __init__(self, func, qparam, edge):
        from .facts import FactMap
        self.func, self.qparam, self.edge = func, qparam, edge
        self.puts = [c for c in calls_in(func.node) if isinstance(c.func, ast.Attribute) and c.func.attr == 'put'
                     and U(c.func.value) == qparam]
        self.switch = None      # the If choosing whole-stream vs per-block emission
        self.switch_atoms = set()
        self.whole_put = None
        self.block_puts = []
        fm = FactMap(func.node)
        for c in self.puts:
            at = blockshape_facts(fm, c)
            sw = _switch_if(c, func.node)
            if at:
                self.whole_put, self.switch_atoms = c, at
                self.switch = sw if sw is not None else enclosing_stmt(c)
            elif sw is not None or any(blockshape_facts(fm, o) for o in self.puts if o is not c):
                self.block_puts.append(c)
        self.hash_updates = [c for c in calls_in(func.node) if isinstance(c.func, ast.Attribute) and
                             c.func.attr == 'update' and 'hash' in U(c.func.value)]
        # outer group loop: the For containing every put
        self.group_loop = None
        if self.puts:
            n = parent(self.puts[0])
            loops = []
            while n is not None and n is not func.node:
                if isinstance(n, ast.For):
                    loops.append(n)
                n = parent(n)
            self.group_loop = loops[-1] if loops else None
        self.is_2d = '2d' in func.name or any(isinstance(n, ast.Tuple) and len(n.elts) == 2 and
                                              'blockshape[1]' in U(n) and 'padded_shape[2]' in U(n)
                                              for n in ast.walk(func.node))


def producers(P, G):
    pl = Pipeline(P, G)
    out = []
    for (e, qp) in pl.producers:
        out.append(Producer(e.target, qp, e))
    if len(out) < 3:
        raise AnalysisError('expected 3 producers (numpy, seismic file 3D, seismic file 2D), found %d' % len(out))
    return pl, out


def reader_unit_order_predicates(P, G):
    """predicates under which read.py selects loaders whose address algebra assumes unit-ordered storage:
    the tests guarding calls to the specialised (non-general) loaders.  -> {'3d': set(atoms), '2d': set(atoms)}, sites"""
    reader = P.cls('read.SgzReader')
    preds = {'3d': [], '2d': [], 'unguarded': []}
    fms = {}
    for m in reader.methods.values():
        for e in G.callees(m):
            t = e.target
            if t is None or t.cls is None or t.module.name != 'loader':
                continue
            if 'unshuffle' in t.name:
                continue       # the general block-ordered loaders
            from .facts import FactMap
            if m.qualname not in fms:
                fms[m.qualname] = FactMap(m.node)
            at = blockshape_facts(fms[m.qualname], e.call)
            guarded = bool(at)
            if guarded:
                dim = '2d' if t.cls.name.endswith('2d') else '3d'
                n = _switch_if(e.call, m.node) or enclosing_stmt(e.call)
                # the z-slice layout predicate (blockshape[2] == 4) is a different specialisation
                if at != {(2, 4)}:
                    preds[dim].append((at, m, n))
            if not guarded and not t.name.startswith('_') and t.name not in ('clear_cache', 'read_chunk_range') and \
                    m.cls is reader and e.kind not in ('thread', 'pool'):
                preds['unguarded'].append((m, e.call, t))
    return preds
