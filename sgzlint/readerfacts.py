"""Shared helpers for rules over the reader hierarchy: mode facts read off
``SgzReader.__init__``, per-method FactMaps per mode, taint of parameters, extents."""
import ast
import re
from .core import U, AnalysisError
from .facts import FactMap, tokens

READER = 'read.SgzReader'


def reader_classes(P):
    base = P.cls(READER)
    return [base] + base.all_subclasses()


def mode_aliases(P):
    """attributes defined in __init__ as the negation of another attribute (self.is_3d = not self.is_2d)."""
    init = P.func(READER + '.__init__')
    al = {}
    for n in ast.walk(init.node):
        if isinstance(n, ast.Assign) and len(n.targets) == 1 and isinstance(n.targets[0], ast.Attribute) \
                and isinstance(n.value, ast.UnaryOp) and isinstance(n.value.op, ast.Not) \
                and isinstance(n.value.operand, ast.Attribute):
            al[U(n.targets[0])] = ('not', U(n.value.operand))
    # the complementary comparison of the same operands:  self.a = X == c ;  self.b = X != c
    cmps = {}
    for n in ast.walk(init.node):
        if isinstance(n, ast.Assign) and len(n.targets) == 1 and isinstance(n.targets[0], ast.Attribute) and \
                isinstance(n.value, ast.Compare) and len(n.value.ops) == 1 and isinstance(n.value.ops[0], (ast.Eq, ast.NotEq)):
            key = (U(n.value.left), U(n.value.comparators[0]))
            cmps.setdefault(key, []).append((U(n.targets[0]), isinstance(n.value.ops[0], ast.Eq)))
    for key, lst in cmps.items():
        eqs = [a for a, is_eq in lst if is_eq]
        nes = [a for a, is_eq in lst if not is_eq]
        if len(eqs) == 1 and len(nes) == 1 and nes[0] not in al:
            al[nes[0]] = ('not', eqs[0])
    return al


_MODE_CACHE = {}


def mode_facts(P, mode):
    """sticky facts of a reader in mode '2d'/'3d': the mode flag itself plus every attribute that
    __init__ leaves with a constant True/False/None value on all paths of that mode."""
    key = (id(P), mode)
    if key in _MODE_CACHE:
        return _MODE_CACHE[key]
    init = P.func(READER + '.__init__')
    al = mode_aliases(P)
    # the mode flag: attribute assigned from `self.blockshape[0] == 1`
    flag = None
    for n in ast.walk(init.node):
        if isinstance(n, ast.Assign) and isinstance(n.targets[0], ast.Attribute) and \
                isinstance(n.value, ast.Compare) and 'blockshape[0]' in U(n.value.left) and \
                isinstance(n.value.ops[0], ast.Eq) and U(n.value.comparators[0]) == '1':
            flag = U(n.targets[0])
    if flag is None:
        raise AnalysisError('cannot find the 2D mode flag (self.X = self.blockshape[0] == 1) in SgzReader.__init__')
    base = [('mode', flag, mode == '2d')]
    fm = FactMap(init.node, assume=base, aliases=al)
    falls = [f for (k, s, f) in fm.exits if k == 'fall']
    consts = None
    from .facts import truth
    for f in falls:
        cur = set()
        for a in f:
            if a[0] == 'def' and a[1].startswith('self.'):
                if a[2] in ('True', 'False', 'None'):
                    cur.add((a[1], a[2]))
                elif isinstance(a[2], str) and a[1] != flag:
                    # a boolean expression decided by the facts of this mode:  self.is_3d and (...)  is False for a 2D file
                    try:
                        e = ast.parse(a[2], mode='eval').body
                    except SyntaxError:
                        continue
                    if isinstance(e, (ast.BoolOp, ast.Compare)) or (isinstance(e, ast.UnaryOp) and isinstance(e.op, ast.Not)):
                        t = truth(e, f, fm.cc)
                        if t is not None:
                            cur.add((a[1], 'True' if t else 'False'))
        consts = cur if consts is None else (consts & cur)
    out = list(base)
    for (attr, val) in sorted(consts or ()):
        if val in ('True', 'False') and attr != flag:
            out.append(('mode', attr, val == 'True'))
    _MODE_CACHE[key] = (out, al, flag)
    return _MODE_CACHE[key]


def factmap(P, func, mode, extra=()):
    facts, al, flag = mode_facts(P, mode)
    fm = FactMap(func.node, assume=list(facts) + list(extra), aliases=al)
    fm.func_info = func
    return fm


# ---------------------------------------------------------------------------
# extents and axes (E3 seeds restricted to what the bounds rules need)
# ---------------------------------------------------------------------------

REAL_EXTENT = {
    'IL': {'self.n_ilines', 'len(self.ilines)'},
    'XL': {'self.n_xlines', 'len(self.xlines)'},
    'Z': {'self.n_samples', 'len(self.zslices)'},
    'TRACE3D': {'self.n_ilines * self.n_xlines', 'self.n_xlines * self.n_ilines'},
    'TRACE2D': {'self.tracecount', 'len(self)'},
}
REAL_ATOMS = {'self.n_ilines', 'self.n_xlines', 'self.n_samples', 'self.tracecount', 'len(self.ilines)',
              'len(self.xlines)', 'len(self.zslices)', 'len(self)', 'self.len_object'}
PADDED_MARKERS = ('shape_pad', 'blockshape', 'block_dims', 'padded')


def axis_of_name(name, mode='3d'):
    n = name.lower()
    if n in ('index',) or n.startswith('index'):
        return 'TRACE2D' if mode == '2d' else 'TRACE3D'
    if 'trace' in n:
        return 'TRACE2D'
    if re.search(r'(^|_)(cd|ad)(_|$)', n):
        return 'DIAG'
    if 'xl' in n or 'xline' in n or 'crossline' in n:
        return 'XL'
    if re.search(r'(^|_)il(_|$)', n) or 'iline' in n or 'inline' in n:
        return 'IL'
    if re.search(r'(^|_)z(_|$)', n) or 'sample' in n or 'zslice' in n:
        return 'Z'
    return None


def is_real_extent(text, axis, facts, fm, depth=0):
    """does ``text`` denote the real extent of ``axis`` (None: any real extent accepted)?"""
    t = text.strip()
    if t.startswith('(') and t.endswith(')'):
        t = t[1:-1]
    if any(m in t for m in PADDED_MARKERS):
        return False
    if axis in REAL_EXTENT:
        if t in REAL_EXTENT[axis]:
            return True
        if axis == 'TRACE3D' and t in REAL_EXTENT['TRACE2D']:
            return True
        if axis == 'TRACE2D' and t in ('self.tracecount',):
            return True
    if depth < 3:
        d = fm.resolve_def(t, facts)
        if d is not None:
            # an element of a tuple held in a local:  limits = (1, n_traces, n_samples); upper = limits[1]
            try:
                e0 = ast.parse(d, mode='eval').body
            except SyntaxError:
                e0 = None
            if isinstance(e0, ast.Subscript) and isinstance(e0.value, ast.Name) and isinstance(e0.slice, ast.Constant) and \
                    isinstance(e0.slice.value, int):
                dd = fm.resolve_def(e0.value.id, facts)
                try:
                    te = ast.parse(dd, mode='eval').body if dd is not None else None
                except SyntaxError:
                    te = None
                if isinstance(te, ast.Tuple) and -len(te.elts) <= e0.slice.value < len(te.elts):
                    return is_real_extent(U(te.elts[e0.slice.value]), axis, facts, fm, depth + 1)
                if dd is not None and not isinstance(te, ast.Tuple):
                    # the tuple itself is another object (e.g. the padded shape): its element is whatever that is
                    return is_real_extent('%s[%d]' % (dd, e0.slice.value), axis, facts, fm, depth + 1)
            # conditional extent: a if flag else b  -> resolved with the facts in force
            try:
                e = ast.parse(d, mode='eval').body
            except SyntaxError:
                e = None
            if isinstance(e, ast.IfExp):
                from .facts import truth
                tv = truth(e.test, facts, fm.cc)
                if tv is True:
                    return is_real_extent(U(e.body), axis, facts, fm, depth + 1)
                if tv is False:
                    return is_real_extent(U(e.orelse), axis, facts, fm, depth + 1)
                return is_real_extent(U(e.body), axis, facts, fm, depth + 1) and \
                    is_real_extent(U(e.orelse), axis, facts, fm, depth + 1)
            return is_real_extent(d, axis, facts, fm, depth + 1)
    if axis in (None, 'DIAG'):
        # any expression built from real extents only (diagonal lengths, n_il + n_xl - 1, ...)
        toks = {x for x in tokens(t) if x.startswith('self.')}
        calls = re.findall(r'([A-Za-z_][A-Za-z_0-9]*)\(', t)
        if toks and all(x in ('self.n_ilines', 'self.n_xlines', 'self.n_samples', 'self.tracecount', 'self.ilines',
                              'self.xlines', 'self.zslices', 'self') for x in toks):
            return all(c in ('len', 'get_correlated_diagonal_length', 'get_anticorrelated_diagonal_length',
                             'min', 'max') for c in calls)
    return False


# ---------------------------------------------------------------------------
# sanitisers
# ---------------------------------------------------------------------------

def sanitiser_functions(P, G):
    """package functions every return of which is a coord_to_index(...) result (transitively)."""
    san = {'utils.coord_to_index'}
    changed = True
    while changed:
        changed = False
        for f in P.functions.values():
            if f.qualname in san:
                continue
            rets = [n for n in ast.walk(f.node) if isinstance(n, ast.Return) and n.value is not None]
            if not rets:
                continue
            ok = True
            for r in rets:
                v = r.value
                elts = v.elts if isinstance(v, ast.Tuple) else [v]
                for e in elts:
                    if not (isinstance(e, ast.Call) and any(t.target is not None and t.target.qualname in san
                                                            for t in G.edges_at(f, e))):
                        ok = False
            if ok:
                san.add(f.qualname)
                changed = True
    return san


EXACT_ARRAYS = ('variant_headers', 'mask', 'self.ilines', 'self.xlines', 'self.zslices', 'coords', 'np.arange',
                'keys_object', 'segy_traceheader_template', 'stored_header_keys')


def is_exact_array_subscript(node):
    """subscript of an array whose length is the real extent: numpy/Python raise or apply
    negative indexing, which the property allows."""
    if not isinstance(node, ast.Subscript):
        return False
    base = U(node.value)
    return any(m in base for m in EXACT_ARRAYS)
