"""C01 - write-then-read fidelity: structural necessary conditions on the producers, the codec
calls, the layout switch and pad()."""
import ast
import re
from ..core import U, AnalysisError, parent, enclosing_stmt
from ..facts import FactMap
from ..algebra import Atoms, Poly, C, A
from .. import producers as PR
from .. import edgefill as EF
from ..axes import axis_of_text, role_of
from .c19 import layout_predicate

PROP = 'C01'
TECHNIQUE = 'static analysis: idiom-exact structural rules over the producers (edge fill, layout predicate, codec parameters), must-facts, digit algebra for pad()'
EXPLANATION = (
    'C01.1 edge replication: for every producer (functions that receive the first queue and put buffers into it) and '
    'each buffer axis, cells beyond the real extent are filled from the last real index of the same axis by one of '
    'three enumerated idioms (np.pad mode edge with zero leading widths and per-axis trailing widths; '
    'buf[..,N:,..] = buf[..,N-1,..] unconditionally with N the real extent used by the real-data store; the else of '
    '`i < items in this group` re-reading item count-1 / [-1]); corner cells are covered; the irregular filler is '
    'exempt but must sit on the InferredGeometry3d branch. C01.2 layout predicate: whole-stream emission only under a '
    'predicate that implies the reader\'s unit-order predicate. C01.3 codec parameters: compress_numpy and every '
    'zfpy._decompress use fixed-rate mode (rate=, no tolerance/precision), write_header=False, float32 ztype; every '
    'buffer reaching the compressor is float32 (np.zeros dtype / asserted dtype). C01.4 fallback: on every path into '
    'the plane loop the reduced-I/O reader is None unless its self-test passed. C01.5 axis agreement: every '
    'pad(n, blockshape[k]), shape tuple element and block tile [v*s:(v+1)*s] uses the component of its own position. '
    'C01.6 emission order = address order (x outer, z inner around the per-block put). C01.7 pad() = m*ceil(n/m) on '
    'both residue classes (digit algebra). C01.8 every conversion route reaches the single run_conversion_loop.')
EXPLANATION += (
    " ADDED: C01.4 (second half): the self-test of the reduced-I/O reader compares read_line(0) exactly (array_equal) with the source's inline accessor - the access path of the segyio fallback - not with traces in file order. C01.7 evaluates the body of pad() over the two residue classes of n % m whatever its spelling. C01.9: in every producer the per-group real count (if/else, conditional expression or min()) equals min(bs, n - g*bs) in the four cases {n % bs zero / non-zero} x {last / earlier group}, decided by the signs of polynomial differences over non-negative atoms (n = bs*q + r); the plane read on the padding side of `i < count` is the last real plane of the group."
)
EXPLANATION += (
    " C01.10: the reduced-I/O reader's read_line(i) is decided for every i (the self-test only exercises i = 0): offset = file header + i*n_xl*(4*n_samp + trace header), length = n_xl*(4*n_samp + trace header), rows of n_samp + 60 words with the first 60 dropped, header h at h*(trace header + 4*n_samp)."
)
ASSUMPTIONS = [
    'ZFP fixed-rate coding is deterministic and block-local; write_header=False adds nothing to the stream',
    'np.pad(mode=\'edge\') replicates the last sample; numpy slice assignment broadcasts as documented',
    'segyio / pyzgy / pyvds return the source samples',
]
NOT_DECIDED = ('That decoded values equal an independent ZFP fixed-rate coding bit for bit; IBM->IEEE conversion; byte '
               'parsing inside MinimalInlineReader.read_line; the VDS/ZGY and CLI routes beyond reaching the same loop; '
               'independence from queue sizing (C16).')


def run(ctx):
    P, G = ctx.P, ctx.G
    ctx.rule('C01.1', 'edge replication on every axis of every producer buffer')
    ctx.rule('C01.2', 'whole-stream emission predicate implies the reader\'s unit-order predicate')
    ctx.rule('C01.3', 'codec parameters agree: fixed rate, no header, float32 on both sides')
    ctx.rule('C01.4', 'a failed self-test of the reduced-I/O reader disables it')
    ctx.rule('C01.5', 'pad / shape / tile expressions use the blockshape component of their own axis position')
    ctx.rule('C01.6', 'per-block emission order is (plane set, x, z)')
    ctx.rule('C01.7', 'pad(n, m) = m*ceil(n/m) on both residue classes')
    ctx.rule('C01.8', 'every conversion route reaches the one conversion loop')
    pl, prods = PR.producers(P, G)
    edge_rules(ctx, 'C01.1', pl, prods)
    layout_predicate(ctx, 'C01.2')
    codec(ctx, pl, prods)
    fallback(ctx, prods)
    axis_agreement(ctx)
    emission_order(ctx, prods)
    pad_spec(ctx)
    routes(ctx, pl)
    ctx.rule('C01.10', 'reduced-I/O reader: byte offset, length, reshape and header slices of read_line(i) for every i')
    reduced_reader_algebra(ctx, 'C01.10')
    ctx.rule('C01.9', 'per-group real count = min(bs, n - g*bs) in all residue / position cases (every producer)')
    from .. import groupcount
    for pr in prods:
        groupcount.check_producer(ctx, 'C01.9', pr.func)
    ctx.floor('C01.9', 3, 'producers')


def fillers_of(P, G, pr):
    """(callee, buffer param, call edge) for functions the producer hands its freshly allocated buffer to."""
    bufs = set()
    for n in ast.walk(pr.func.node):
        if isinstance(n, ast.Assign) and isinstance(n.value, ast.Call) and U(n.value.func).split('.')[-1] == 'zeros' \
                and isinstance(n.targets[0], ast.Name):
            bufs.add(n.targets[0].id)
    out = []
    for e in G.callees(pr.func):
        if e.target is None:
            continue
        for p_, v in e.binding.items():
            if isinstance(v, ast.Name) and v.id in bufs:
                out.append((e.target, p_, e))
    return out, bufs


def edge_rules(ctx, rule, pl, prods, only_2d=None):
    P, G = ctx.P, ctx.G
    for pr in prods:
        if only_2d is not None and pr.is_2d != only_2d:
            continue
        fl, bufs = fillers_of(P, G, pr)
        if not fl:
            EF.check_np_pad(ctx, rule, pr.func)
            continue
        fm = FactMap(pr.func.node)
        for (t, bp, e) in fl:
            facts = fm.facts_at(e.call) or frozenset()
            irregular = any(a == ('T', 'isinstance(geom, InferredGeometry3d)') for a in facts)
            if irregular:
                stores = [n for n in ast.walk(t.node) if isinstance(n, ast.Assign) and
                          isinstance(n.targets[0], ast.Subscript) and U(n.targets[0].value) == bp]
                from .c08 import _membership
                _k, guard_if, _v = _membership(t)
                guarded = guard_if is not None and all(any(p is guard_if for p in _ancestors(s, t.node)) for s in stores)
                if stores and guarded:
                    ctx.ok(rule, t, 'irregular filler', 'selected on the InferredGeometry3d branch; stores only under the '
                           'membership test (holes stay zero, C08)')
                else:
                    ctx.fail(rule, t, t.name, 'the irregular filler stores without the membership test')
                continue
            # a filler on the regular branch must not be the zero-fill one
            counts = {'planes_to_read', 'traces_to_read'} & set(t.params)
            if not counts:
                ctx.fail(rule, pr.func, e.call, 'the regular branch hands the buffer to %s, which has no real-items count: '
                         'padding is not replicated' % t.name)
                continue
            EF.check_filler(ctx, rule, t, bp, counts, '%s via %s' % (pr.func.name, t.name))
    if only_2d is None:
        ctx.floor(rule, 7, 'fill sites')


def _ancestors(n, stop):
    out = []
    p = parent(n)
    while p is not None and p is not stop:
        out.append(p)
        p = parent(p)
    return out


def codec(ctx, pl, prods):
    P, G = ctx.P, ctx.G
    comp = [c for c in PR.calls_in(pl.compressor.node) if U(c.func).endswith('compress_numpy')]
    if len(comp) != 1:
        raise AnalysisError('expected one compress_numpy call in the compressor thread')
    c = comp[0]
    kw = {k.arg: k.value for k in c.keywords}
    probs = []
    if 'rate' not in kw:
        probs.append('no rate= (not fixed-rate mode)')
    for bad in ('tolerance', 'precision'):
        if bad in kw:
            probs.append('%s= selects a variable-rate mode' % bad)
    wh = kw.get('write_header')
    if not (isinstance(wh, ast.Constant) and wh.value is False):
        probs.append('write_header is %s: the stream would start with a ZFP header the reader does not expect' % (
            U(wh) if wh is not None else 'left at its default True'))
    if probs:
        ctx.fail('C01.3', pl.compressor, enclosing_stmt(c), 'compress_numpy: ' + '; '.join(probs), line=c.lineno)
    else:
        ctx.ok('C01.3', pl.compressor, c, 'fixed-rate, headerless compression')
    n_dec = 0
    for f in P.functions.values():
        for d in PR.calls_in(f.node):
            if U(d.func) != 'zfpy._decompress':
                continue
            n_dec += 1
            kw = {k.arg: k.value for k in d.keywords}
            probs = []
            if 'rate' not in kw or U(kw['rate']) != 'self.rate':
                probs.append('rate is %s, not the rate decoded from the header' % (U(kw.get('rate')) or 'missing'))
            for bad in ('tolerance', 'precision'):
                if bad in kw:
                    probs.append('%s= given' % bad)
            zt = U(d.args[1]) if len(d.args) > 1 else ''
            if len(d.args) > 1 and isinstance(d.args[1], ast.Name):
                # the ztype held in a local (assigned once in this function)
                ds = [a for a in ast.walk(f.node) if isinstance(a, ast.Assign) and len(a.targets) == 1 and U(a.targets[0]) == zt]
                if len(ds) == 1:
                    zt = U(ds[0].value)
                else:
                    raise AnalysisError('%s: ztype `%s` of the decoder call is not a single-assignment local' % (f.qualname, zt))
            if 'float32' not in zt:
                probs.append('ztype `%s` is not float32' % zt)
            if probs:
                ctx.fail('C01.3', f, enclosing_stmt(d), '_decompress: ' + '; '.join(probs), line=d.lineno)
            else:
                ctx.ok('C01.3', f, d, 'fixed-rate float32 decode with the header rate')
    if n_dec < 2:
        raise AnalysisError('expected two zfpy._decompress call sites, found %d' % n_dec)
    # float32 buffers
    for pr in prods:
        put_names = set()
        for c in pr.puts:
            for x in ast.walk(c):
                if isinstance(x, ast.Name):
                    put_names.add(x.id)
        # names feeding put arguments through one assignment (slice = buffer[...].copy())
        for a_ in ast.walk(pr.func.node):
            if isinstance(a_, ast.Assign) and isinstance(a_.targets[0], ast.Name) and a_.targets[0].id in put_names:
                put_names |= {x.id for x in ast.walk(a_.value) if isinstance(x, ast.Name)}
        allocs = [n for n in ast.walk(pr.func.node) if isinstance(n, ast.Call) and U(n.func).split('.')[-1] == 'zeros'
                  and isinstance(parent(n), ast.Assign) and isinstance(parent(n).targets[0], ast.Name)
                  and parent(n).targets[0].id in put_names]
        for a in allocs:
            dt = [U(k.value) for k in a.keywords if k.arg == 'dtype'] + [U(x) for x in a.args[1:2]]
            if dt and 'float32' in dt[0]:
                ctx.ok('C01.3', pr.func, a, 'buffer allocated float32')
            else:
                ctx.fail('C01.3', pr.func, enclosing_stmt(a), 'producer buffer is allocated as %s, not float32: ZFP would '
                         'code 64-bit values' % (dt[0] if dt else 'float64 (numpy default)'), line=a.lineno)
        if not allocs:
            # numpy route: the caller's array must be asserted float32
            src = [e for e in G.callers(pr.func)]
            init = P.functions.get('conversion.NumpyConverter.__init__')
            asserted = init is not None and any(isinstance(n, ast.Assert) and 'dtype' in U(n.test) and 'float32' in U(n.test)
                                               for n in ast.walk(init.node))
            if asserted:
                ctx.ok('C01.3', init, 'assert data_array.dtype == np.float32', 'numpy route: input asserted float32')
            else:
                ctx.fail('C01.3', pr.func, pr.func.name, 'the numpy route no longer asserts a float32 input array')
    ctx.floor('C01.3', 6)


def fallback(ctx, prods):
    P, G = ctx.P, ctx.G
    n = 0
    for pr in prods:
        f = pr.func
        if 'reduce_iops' not in f.params:
            continue
        fm = FactMap(f.node)
        for e in G.callees(f):
            if e.target is None:
                continue
            for p_, v in e.binding.items():
                if isinstance(v, ast.Name) and 'minimal' in v.id:
                    n += 1
                    name = v.id
                    bad = None
                    for facts in fm.paths_at(e.call):
                        d = fm.resolve_def(name, facts)
                        passed = any(a[0] == 'T' and 'self_test()' in a[1] for a in facts)
                        failed = any(a[0] == 'F' and 'self_test()' in a[1] for a in facts)
                        if d == 'None':
                            continue
                        if d is not None and passed and not failed:
                            continue
                        bad = (d, facts)
                        break
                    if bad:
                        ctx.fail('C01.4', f, enclosing_stmt(e.call), 'a path reaches the plane loop with %s = %s although its '
                                 'self-test did not pass (the failing branch only warns): the documented fallback to segyio '
                                 'does not happen' % (name, bad[0]), line=e.call.lineno)
                    else:
                        ctx.ok('C01.4', f, e.call, 'on every path %s is None unless self_test() passed' % name)
    if n < 1:
        raise AnalysisError('the reduced-I/O reader is no longer passed to the plane filler')
    selftest_oracle(ctx)


def reduced_reader_algebra(ctx, rule):
    """The self-test of the reduced-I/O reader exercises line 0 only; the terms of read_line(i) that are multiplied by i
    (and by the trace ordinal h) are decided here: offset = FILE_HEADER + i*n_xl*(4*n_samp + TRACE_HEADER), length =
    n_xl*(4*n_samp + TRACE_HEADER), rows of n_samp + TRACE_HEADER/4 four-byte words with the first TRACE_HEADER/4
    dropped, header h = bytes [h*(TRACE_HEADER + 4*n_samp), + TRACE_HEADER)."""
    from ..capture import Frame
    from ..algebra import A as At, C as Cc
    P = ctx.P
    rl = None
    for f in P.functions.values():
        if f.cls is not None and f.name == 'read_line' and 'seek' in U(f.node):
            rl = f
    if rl is None:
        raise AnalysisError('read_line of the reduced-I/O reader not found')
    mod = rl.module
    fh = P.const_value(mod, 'SEGY_FILE_HEADER_BYTES')
    th = P.const_value(mod, 'SEGY_TRACE_HEADER_BYTES')
    if not isinstance(fh, int) or not isinstance(th, int):
        raise AnalysisError('SEG-Y header size constants are not literal')
    atoms = {'self.n_xl': 'NXL', 'self.n_samp': 'NS'}
    # the line ordinal is the parameter of read_line; the trace ordinal is the variable of the loop / comprehension
    # over range(n_xl) that cuts the headers out of the buffer
    line_params = [p_ for p_ in rl.params if p_ != 'self']
    if len(line_params) != 1:
        raise AnalysisError('%s: expected one parameter (the line ordinal)' % rl.qualname)
    atoms[line_params[0]] = 'i'
    for c in ast.walk(rl.node):
        if isinstance(c, (ast.comprehension, ast.For)) and isinstance(c.target, ast.Name) and isinstance(c.iter, ast.Call) and \
                U(c.iter.func) == 'range' and len(c.iter.args) == 1 and U(c.iter.args[0]) == 'self.n_xl':
            atoms[c.target.id] = 'h'
    fr = Frame(rl, atoms)
    ev0 = fr.ev

    def ev(e, depth=0):
        if depth > 10:
            return None
        if isinstance(e, (ast.Name, ast.Attribute)):
            v = P.const_value(mod, U(e))
            if isinstance(v, int) and not isinstance(v, bool):
                return Cc(v)
        if isinstance(e, ast.Name) and U(e) not in atoms and len(fr.defs.get(e.id, [])) == 1:
            return ev(fr.defs[e.id][0], depth + 1)
        if isinstance(e, ast.BinOp):
            l, r = ev(e.left, depth + 1), ev(e.right, depth + 1)
            if l is None or r is None:
                return None
            if isinstance(e.op, ast.FloorDiv) and l.is_const() and r.is_const() and r.const_value() != 0 and \
                    l.const_value().denominator == 1 and r.const_value().denominator == 1:
                return Cc(int(l.const_value()) // int(r.const_value()))
            return l + r if isinstance(e.op, ast.Add) else l - r if isinstance(e.op, ast.Sub) else l * r if isinstance(e.op, ast.Mult) else None
        return ev0(e, depth)
    rec = At('NXL') * (4 * At('NS') + th)
    seeks = [c for c in ast.walk(rl.node) if isinstance(c, ast.Call) and isinstance(c.func, ast.Attribute) and c.func.attr == 'seek']
    reads = [c for c in ast.walk(rl.node) if isinstance(c, ast.Call) and isinstance(c.func, ast.Attribute) and c.func.attr == 'read']
    if len(seeks) != 1 or len(reads) != 1:
        raise AnalysisError('%s: expected one seek and one read' % rl.qualname)
    off, ln = ev(seeks[0].args[0]), ev(reads[0].args[0])
    if off is None or ln is None:
        raise AnalysisError('%s: offset / length do not normalise' % rl.qualname)
    if off == Cc(fh) + At('i') * rec:
        ctx.ok(rule, rl, seeks[0], 'offset = file header + i * n_xl * (4*n_samp + trace header)')
    else:
        ctx.fail(rule, rl, seeks[0], 'read_line(i) seeks to %r, an inline of n_xl traces starts at %r: lines after the first '
                 '(never exercised by the self-test) are read from the wrong place' % (off, Cc(fh) + At('i') * rec))
    if ln == rec:
        ctx.ok(rule, rl, reads[0], 'length = n_xl * (4*n_samp + trace header)')
    else:
        ctx.fail(rule, rl, reads[0], 'read_line reads %r bytes, an inline is %r bytes' % (ln, rec))
    # reshape((n_xl, n_samp + th/4))[:, th/4:]
    rs = [c for c in ast.walk(rl.node) if isinstance(c, ast.Call) and isinstance(c.func, ast.Attribute) and c.func.attr == 'reshape']
    for c in rs:
        shp = c.args[0] if c.args else None
        if isinstance(shp, ast.Tuple) and len(shp.elts) == 2:
            a0, a1 = ev(shp.elts[0]), ev(shp.elts[1])
            sub = parent(c)
            cut = U(sub.slice.elts[1].lower) if isinstance(sub, ast.Subscript) and isinstance(sub.slice, ast.Tuple) and \
                len(sub.slice.elts) == 2 and isinstance(sub.slice.elts[1], ast.Slice) and sub.slice.elts[1].lower is not None else None
            cutv = ev(sub.slice.elts[1].lower) if cut is not None else None
            if a0 == At('NXL') and a1 == At('NS') + th // 4 and cutv == Cc(th // 4):
                ctx.ok(rule, rl, c, 'rows of n_samp + %d words, the first %d (trace header) dropped' % (th // 4, th // 4))
            else:
                ctx.fail(rule, rl, enclosing_stmt(c), 'the inline is reshaped (%r, %r) and cut at column %s; a trace is %d header words '
                         'followed by n_samp samples' % (a0, a1, cut, th // 4))
    # header slices
    n_h = 0
    for sub in ast.walk(rl.node):
        if isinstance(sub, ast.Subscript) and isinstance(sub.slice, ast.Slice) and U(sub.value) == 'buf':
            lo, hi = ev(sub.slice.lower), ev(sub.slice.upper)
            if lo is None or hi is None:
                raise AnalysisError('%s: header slice does not normalise' % rl.qualname)
            n_h += 1
            if lo == At('h') * (4 * At('NS') + th) and hi - lo == Cc(th):
                ctx.ok(rule, rl, sub, 'header h = [h*(trace header + 4*n_samp), + trace header)')
            else:
                ctx.fail(rule, rl, enclosing_stmt(sub), 'trace header h is taken from [%r, %r): traces after the first get the bytes '
                         'of samples or of another header' % (lo, hi))
    if not rs or n_h < 1:
        raise AnalysisError('%s: reshape / header slice not found' % rl.qualname)


def selftest_oracle(ctx):
    """C01.4 (second half): the self-test can only justify using the reduced-I/O reader if its reference is what the
    fallback would have produced for the same plane - the source's inline accessor (`<file>.iline[<file>.ilines[k]]`,
    the expression the segyio path of the plane filler uses) - and if it is compared with read_line of the same plane.
    Comparing with traces in file order cannot detect a file whose trace order is not inline-major."""
    P = ctx.P
    st = None
    for f in P.functions.values():
        if f.cls is not None and f.name == 'self_test' and any(
                isinstance(c, ast.Call) and U(c.func).endswith('read_line') for c in ast.walk(f.node)):
            st = f
    if st is None:
        raise AnalysisError('self_test of the reduced-I/O reader not found')
    from ..footer import _def_chain
    cmps = [c for c in ast.walk(st.node) if isinstance(c, ast.Call) and U(c.func).split('.')[-1] in ('array_equal', 'allclose', 'array_equiv')
            and len(c.args) >= 2]
    if not cmps:
        raise AnalysisError('%s: the sample comparison of the self-test was not recognised' % st.qualname)
    c = cmps[0]
    sides = []
    for a in c.args[:2]:
        chain = _def_chain(st, a)
        via_iline = any(isinstance(x, ast.Subscript) and isinstance(x.value, ast.Attribute) and x.value.attr == 'iline'
                        for e in chain for x in ast.walk(e))
        via_readline = any(isinstance(x, ast.Call) and U(x.func).endswith('read_line') for e in chain for x in ast.walk(e))
        via_trace = any(isinstance(x, ast.Attribute) and x.attr in ('trace', 'raw') for e in chain for x in ast.walk(e))
        sides.append((via_iline, via_readline, via_trace))
    has_rl = any(s_[1] for s_ in sides)
    has_il = any(s_[0] for s_ in sides)
    if U(c.func).split('.')[-1] != 'array_equal':
        ctx.fail('C01.4', st, enclosing_stmt(c), 'the self-test compares samples with %s: a tolerance lets a reader through whose '
                 'samples differ from segyio\'s' % U(c.func), line=c.lineno)
    elif has_rl and has_il:
        ctx.ok('C01.4', st, c, 'self-test compares read_line(0) with the inline accessor of the source (the fallback\'s access path)')
    elif has_rl and any(s_[2] for s_ in sides):
        ctx.fail('C01.4', st, enclosing_stmt(c), 'the self-test compares read_line(0) with traces taken in file order (`%s`), not with '
                 'the inline the segyio path would read (<file>.iline[<file>.ilines[0]]): a file whose traces are not stored '
                 'inline-major passes the test and is converted in the wrong order' % U([a for a, s_ in zip(c.args, sides) if s_[2]][0])[:50],
                 line=c.lineno)
    else:
        raise AnalysisError('%s: the reference of the self-test (`%s`) follows no recognised idiom' % (st.qualname, U(c)[:70]))


def axis_agreement(ctx):
    P, G = ctx.P, ctx.G
    n = 0
    mods = [P.modules[m] for m in ('conversion_utils', 'conversion', 'cropping', 'read') if m in P.modules]
    for f in P.functions.values():
        if f.module not in mods:
            continue
        for c in ast.walk(f.node):
            # AT3: pad(x, blockshape[k])
            if isinstance(c, ast.Call) and U(c.func).split('.')[-1] == 'pad' and len(c.args) == 2 and \
                    not U(c.func).startswith(('np.', 'numpy.')):
                m = re.search(r'blockshape\[(\d)\]', U(c.args[1]))
                if not m:
                    continue
                k = int(m.group(1))
                r = role_of(c.args[0])
                ax = r[1] if r else axis_of_text(U(c.args[0]))
                if ax == 'TRACE':
                    ax = 'XL'
                if ax in ('IL', 'XL', 'Z'):
                    n += 1
                    if ax != ('IL', 'XL', 'Z')[k]:
                        ctx.fail('C01.5', f, enclosing_stmt(c), '`%s` pads a %s extent to the %s component of the blockshape' % (
                            U(c), ax, ('IL', 'XL', 'Z')[k]), line=c.lineno)
                    else:
                        ctx.ok('C01.5', f, c, 'pad of a %s extent to blockshape[%d]' % (ax, k))
            # AT2: shape tuples
            if isinstance(c, ast.Tuple) and len(c.elts) in (2, 3) and isinstance(c.ctx, ast.Load):
                idxs = []
                for e in c.elts:
                    ms = set(re.findall(r'(?:padded_shape|blockshape|shape_pad)\[(\d)\]', U(e)))
                    idxs.append(ms)
                if all(len(s) == 1 for s in idxs):
                    got = [int(next(iter(s))) for s in idxs]
                    want = [0, 1, 2] if len(got) == 3 else [1, 2]
                    par = parent(c)
                    if isinstance(par, ast.Tuple):
                        continue
                    n += 1
                    if got != want:
                        ctx.fail('C01.5', f, enclosing_stmt(c), 'shape tuple `%s` uses components %s in positions %s' % (
                            U(c)[:70], got, want), line=c.lineno)
                    else:
                        ctx.ok('C01.5', f, c, 'shape tuple uses component k in position k')
            # tiles: buf[.., v*s:(v+1)*s, ..]
            if isinstance(c, ast.Subscript) and isinstance(c.slice, ast.Tuple):
                elts = c.slice.elts
                for j, e in enumerate(elts):
                    if isinstance(e, ast.Slice) and e.lower is not None and e.upper is not None:
                        ml = re.fullmatch(r'(\w+) \* (\S*blockshape\[(\d)\])', U(e.lower))
                        mu = re.fullmatch(r'\((\w+) \+ 1\) \* (\S*blockshape\[(\d)\])', U(e.upper))
                        if ml and mu:
                            n += 1
                            k = int(ml.group(3))
                            want = j if len(elts) == 3 else j + 1
                            if ml.group(1) != mu.group(1) or ml.group(2) != mu.group(2):
                                ctx.fail('C01.5', f, enclosing_stmt(c), 'tile `%s` does not have the form v*s:(v+1)*s' % U(e),
                                         line=c.lineno)
                            elif k != want:
                                ctx.fail('C01.5', f, enclosing_stmt(c), 'tile `%s` in position %d uses blockshape[%d]' % (
                                    U(e), j, k), line=c.lineno)
                            else:
                                ctx.ok('C01.5', f, '%s [%d]' % (U(c.value), j), 'tile v*bs[%d]:(v+1)*bs[%d] in its own position' % (k, k))
    ctx.floor('C01.5', 30, 'tagged positions')


def emission_order(ctx, prods):
    for pr in prods:
        for c in pr.block_puts:
            loops = []
            n = parent(c)
            while n is not None and n is not pr.func.node:
                if isinstance(n, ast.For):
                    loops.append(n)
                n = parent(n)
            # loops: innermost first; drop the group loop (outermost)
            inner = loops[:-1] if pr.group_loop in loops else loops
            want = [2, 1] if not pr.is_2d else [2]
            # the block that is put: a subscript of the plane-set buffer (possibly through .copy() and a local)
            arg = c.args[0] if c.args else None
            for _ in range(3):
                if isinstance(arg, ast.Call) and isinstance(arg.func, ast.Attribute) and arg.func.attr in ('copy', 'ascontiguousarray') \
                        and not arg.args:
                    arg = arg.func.value
                elif isinstance(arg, ast.Call) and U(arg.func).split('.')[-1] in ('ascontiguousarray', 'copy', 'array') and arg.args:
                    arg = arg.args[0]
                elif isinstance(arg, ast.Name):
                    ds = [a for a in ast.walk(pr.func.node) if isinstance(a, ast.Assign) and len(a.targets) == 1 and
                          isinstance(a.targets[0], ast.Name) and a.targets[0].id == arg.id]
                    if len(ds) != 1:
                        break
                    arg = ds[0].value
                else:
                    break
            nd = 2 if pr.is_2d else 3
            # pieces produced by np.split(X, n, axis=k) in nested loops: each loop moves axis k of the group buffer
            split_axes = []
            cur = arg
            while isinstance(cur, ast.Name):
                lp_ = [l for l in loops if isinstance(l.target, ast.Name) and l.target.id == cur.id]
                if not lp_ or not (isinstance(lp_[0].iter, ast.Call) and U(lp_[0].iter.func).split('.')[-1] in ('split', 'array_split')
                                   and lp_[0].iter.args):
                    break
                kw = {k.arg: k.value for k in lp_[0].iter.keywords}
                ax = kw.get('axis') or (lp_[0].iter.args[2] if len(lp_[0].iter.args) > 2 else ast.Constant(value=0))
                if not (isinstance(ax, ast.Constant) and isinstance(ax.value, int)):
                    raise AnalysisError('%s: split axis at line %d is not a literal' % (pr.func.qualname, lp_[0].lineno))
                split_axes.append((ax.value % nd) + (3 - nd))
                cur = lp_[0].iter.args[0]
            if split_axes:
                if len(split_axes) != len(inner):
                    raise AnalysisError('%s: block emission at line %d mixes split pieces and other loops' % (pr.func.qualname, c.lineno))
                if split_axes == want:
                    ctx.ok('C01.6', pr.func, c, 'pieces are split with z innermost, then x')
                else:
                    ctx.fail('C01.6', pr.func, enclosing_stmt(c), 'per-block emission loops (innermost first) split the group buffer along '
                             'axes %s; the reader addresses blocks with z (axis 2) fastest, then x (axis 1): expected %s' % (
                                 split_axes, want), line=c.lineno)
                continue
            if not isinstance(arg, ast.Subscript) or not isinstance(arg.slice, ast.Tuple) or len(arg.slice.elts) != nd:
                raise AnalysisError('%s: the block put at line %d is not a %d-axis subscript of the group buffer (`%s`)' % (
                    pr.func.qualname, c.lineno, nd, U(c)[:60]))
            elts = arg.slice.elts
            shift = 3 - nd          # subscript position -> axis of the (il, xl, z) / (1, trace, z) frame
            comps, probs = [], []
            for lp in inner:
                vars_ = {x.id for x in ast.walk(lp.target) if isinstance(x, ast.Name)}
                pos = [j for j, e in enumerate(elts) if vars_ & {x.id for x in ast.walk(e) if isinstance(x, ast.Name)}]
                if len(pos) != 1:
                    raise AnalysisError('%s: loop variable `%s` of the block emission at line %d occurs in %d subscript positions' % (
                        pr.func.qualname, U(lp.target), c.lineno, len(pos)))
                j = pos[0] + shift
                comps.append(j)
                other = [k for k in range(3) if k != j and ('blockshape[%d]' % k) in U(elts[pos[0]])]
                if other:
                    probs.append('position %d of the block is stepped by blockshape[%d]' % (j, other[0]))
                m = re.search(r'padded_shape\[(\d)\]', U(lp.iter))
                if m and int(m.group(1)) != j:
                    probs.append('the loop that moves position %d of the block runs over padded_shape[%s]' % (j, m.group(1)))
            if comps == want and not probs:
                ctx.ok('C01.6', pr.func, c, 'blocks are emitted with %s' % ('x outer, z inner' if not pr.is_2d else 'z inside the trace group'))
            else:
                ctx.fail('C01.6', pr.func, enclosing_stmt(c), 'per-block emission loops (innermost first) move subscript positions %s of '
                         'the group buffer (as axes of the il / xl / z frame)%s; the reader addresses blocks with z (axis 2) fastest, then x (axis 1): '
                         'expected %s' % (comps, ('; ' + '; '.join(probs)) if probs else '', want), line=c.lineno)
    ctx.floor('C01.6', 3)


def pad_spec(ctx):
    P = ctx.P
    f = P.func('utils.pad')
    T = Atoms()
    m = T.declare('m', 1, None, kind='extent')
    q = T.declare('q', 0, None, kind='digitb')
    r = T.declare('r', 0, m, kind='digit')
    n = m * q + r
    env = {f.params[0]: n, f.params[1]: m}

    def ev(e):
        if isinstance(e, ast.Constant) and isinstance(e.value, int):
            return C(e.value)
        if isinstance(e, ast.Name) and e.id in env:
            return env[e.id]
        if isinstance(e, ast.BinOp):
            l, rr = ev(e.left), ev(e.right)
            if l is None or rr is None:
                return None
            if isinstance(e.op, ast.Add):
                return l + rr
            if isinstance(e.op, ast.Sub):
                return l - rr
            if isinstance(e.op, ast.Mult):
                return l * rr
            if isinstance(e.op, ast.FloorDiv):
                return T.floordiv(l, rr)
            if isinstance(e.op, ast.Mod):
                return T.mod(l, rr)
        if isinstance(e, ast.UnaryOp) and isinstance(e.op, ast.USub):
            v = ev(e.operand)
            return None if v is None else -v
        return None
    spec = m * T.ceildiv(n, m)
    carry = [a for a in spec.atoms() if T.kind(a) == 'carry']
    # residue class r == 0: r -> 0, carry -> 0 ; class r > 0: carry -> 1
    def cls0(p):
        return p.subst({'r': Poly(), **{c: Poly() for c in carry}})

    def cls1(p):
        return p.subst({c: C(1) for c in carry})
    # evaluate the body once per residue class: a test on n % m is decided by the class (r = 0 / r > 0)
    loc = {}
    ev0 = ev

    def evx(e):
        if isinstance(e, ast.Name) and e.id in loc:
            return loc[e.id]
        if isinstance(e, ast.IfExp):
            tv = truth(e.test)
            if tv is None:
                return None
            return evx(e.body if tv else e.orelse)
        if isinstance(e, ast.BinOp):
            l, rr = evx(e.left), evx(e.right)
            if l is None or rr is None:
                return None
            if isinstance(e.op, ast.Add):
                return l + rr
            if isinstance(e.op, ast.Sub):
                return l - rr
            if isinstance(e.op, ast.Mult):
                return l * rr
            if isinstance(e.op, ast.FloorDiv):
                return T.floordiv(l, rr)
            if isinstance(e.op, ast.Mod):
                return T.mod(l, rr)
        return ev0(e)

    state = {'cls': 0}

    def truth(t):
        if isinstance(t, ast.UnaryOp) and isinstance(t.op, ast.Not):
            v = truth(t.operand)
            return None if v is None else not v
        if isinstance(t, ast.Compare) and len(t.ops) == 1 and U(t.comparators[0]) == '0':
            rem = evx(t.left)
            if rem is None:
                return None
            red = cls0(rem) if state['cls'] == 0 else cls1(rem)
            if state['cls'] == 0:
                z = red.is_zero()
            else:
                # r > 0: a remainder r is positive; anything else must be decided syntactically
                z = False if rem == r else (True if red.is_zero() else None)
            if z is None:
                return None
            op = t.ops[0]
            if isinstance(op, ast.Eq):
                return z
            if isinstance(op, (ast.NotEq, ast.Gt)):
                return not z
        if isinstance(t, ast.BinOp) and isinstance(t.op, ast.Mod):      # `if n % m:` truthiness of the remainder
            return truth(ast.Compare(left=t, ops=[ast.NotEq()], comparators=[ast.Constant(value=0)]))
        return None

    def run_body(stmts):
        for st_ in stmts:
            if isinstance(st_, ast.Return):
                return evx(st_.value) if st_.value is not None else None
            if isinstance(st_, ast.Assign) and len(st_.targets) == 1 and isinstance(st_.targets[0], ast.Name):
                loc[st_.targets[0].id] = evx(st_.value)
                continue
            if isinstance(st_, ast.Assign) and len(st_.targets) == 1 and isinstance(st_.targets[0], ast.Tuple) and \
                    len(st_.targets[0].elts) == 2 and all(isinstance(x, ast.Name) for x in st_.targets[0].elts) and \
                    isinstance(st_.value, ast.Call) and U(st_.value.func) == 'divmod' and len(st_.value.args) == 2:
                a_, b_ = evx(st_.value.args[0]), evx(st_.value.args[1])
                if a_ is None or b_ is None:
                    return None
                loc[st_.targets[0].elts[0].id] = T.floordiv(a_, b_)
                loc[st_.targets[0].elts[1].id] = T.mod(a_, b_)
                continue
            if isinstance(st_, ast.If):
                tv = truth(st_.test)
                if tv is None:
                    return None
                res = run_body(st_.body if tv else st_.orelse)
                if res is not None:
                    return res
                continue
            if isinstance(st_, (ast.Expr, ast.Pass)):
                continue
            return None
        return None
    results = {}
    for k in (0, 1):
        state['cls'] = k
        loc.clear()
        results[k] = run_body(f.node.body)
    if any(v is None for v in results.values()):
        raise AnalysisError('pad(): the body does not evaluate over the residue classes of n % m')
    ok0 = cls0(results[0]) == cls0(spec)
    ok1 = cls1(results[1]) == cls1(spec)
    if ok0 and ok1:
        ctx.ok('C01.7', f, 'pad', 'n = m*q + r: returns m*q for r = 0 and m*(q+1) for r > 0 = m*ceil(n/m)',
               sample={'spec': repr(spec)})
    else:
        ctx.fail('C01.7', f, f.node.body[0], 'pad(n, m) is not m*ceil(n/m): with n = m*q + r it returns %r for r = 0 and %r for '
                 'r > 0' % (cls0(results[0]), cls1(results[1])))


def routes(ctx, pl):
    P, G = ctx.P, ctx.G
    entries = [f for f in P.functions.values() if f.name == 'run' and f.cls is not None and 'Converter' in f.cls.name]
    cli = [f for f in P.functions.values() if f.module.name == 'cli' and f.name.endswith('2sgz')]
    for f in entries + cli:
        r = G.reach(f)
        if pl.main.qualname in r:
            ctx.ok('C01.8', f, f.qualname, 'reaches %s' % pl.main.name)
        else:
            ctx.fail('C01.8', f, f.qualname, 'conversion route %s does not reach %s: it would write with a different pipeline' % (
                f.qualname, pl.main.name))
    ctx.floor('C01.8', 4)
