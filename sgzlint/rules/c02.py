"""C02 - access-path coherence: every read API addresses, assembles, decodes and crops the same
decoded volume."""
import ast
from ..core import U, AnalysisError, parent, enclosing_stmt
from ..algebra import Poly, C, A, Atoms
from .. import layoutrules as LR
from .. import readerfacts as RF
from ..axes import axis_of_text

PROP = 'C02'
TECHNIQUE = 'static analysis: symbolic evaluation of read.py/loader.py over a polynomial index algebra with mixed-radix digits; axis tags'
EXPLANATION = (
    'Every public read method of SgzReader that reaches a loader is evaluated symbolically (no execution) in 8 3D and '
    '4 2D layout modes (each blockshape component = 4 or a symbolic multiple of 4 >= 8); request bounds are written in '
    'digits v = blockshape*v.b + 4*v.u + v.r so that //, %, ceil-idioms reduce to polynomials. The reader\'s derived '
    'quantities (shape_pad, unit/block/chunk bytes, loader.block_dims) are evaluated from the package\'s own __init__ '
    'assignments. C02.1 (L1): every range-read offset is the canonical address U*[block part + in-block unit part] of '
    'the layout, with each block / unit / loop coordinate carrying the stride of its own axis. C02.2: every decode '
    'receives exactly rate*prod(shape)/8 bytes and assembly buffers are tiled completely in coordinate order '
    '(mixed-radix check of the buffer position). C02.3 (L4): every crop of a decoded array selects [request - origin) '
    'where the origin is derived from the offsets actually read, on the axis of its position; the decoded region is '
    'the minimal aligned hull. C02.4: the dispatch in read.py is evaluated by the model, so a loader used outside the '
    'layout it assumes shows up as an L1 violation in that mode. C02.5: coordinates reach ordinals only through '
    'coord_to_index with the axis list of the same axis. C02.6: arguments bound across the reader/loader layers keep '
    'their axis and their min/max kind. C02.7: trace ordinals are il*n_xlines + xl, decomposed with the same radix, '
    'and the diagonal index polynomials have slope n_xlines+1 / n_xlines-1 in the diagonal position.')
EXPLANATION += (
    ' ADDED: Arrays assembled block by block (general loaders) are checked too: decoded block (i, x, z) of the file lands at array block (i, x, z), blocks fill the array, and crops of such arrays - and crops of crops (get_trace on the chunk returned by read_subvolume) - select the requested window. C02.5 also decides the translation itself: coord_to_index returns only ordinals found by exact equality with an axis entry (or len(axis) under the include-stop flag and an exact test), never through a tolerance / nearest-neighbour construct, and ends in IndexError otherwise.'
)
EXPLANATION += (
    ' C02.6 also: in every three-element cube subscript of the read-side modules each axis-tagged element stands in the position of its axis; the xarray backend (basic indexing support) post-indexes the bounding-box window by the slice steps and drops integer-indexed axes. C02.7 also: each start of a diagonal belongs to the half of the family its enclosing test selects, and the two diagonal-length functions return exactly min of the cell bounds derived from those index polynomials - every path of each function, under its branch conditions, the id guard and the order of n_il and n_xl, compared by Fourier-Motzkin elimination over (n_il, n_xl, id), with a concrete witness reported when the two differ only on part of a case.'
)
EXPLANATION += (
    ' C02.8 - in each mode (2D / 3D file; decided from the constant facts SgzReader.__init__ leaves for that mode) in which a public read method can return data, every parameter other than a boolean switch reaches a returned value by data dependence (closure over the statements reachable in that mode; control dependence such as a range check does not count): a window parameter dropped in one mode returns the unwindowed trace / plane.'
)
ASSUMPTIONS = [
    'a fixed-rate ZFP stream of an array stores its 4^d cells in C order, rate*4^d bits each (decoding an assembly of '
    'units equals the cell-by-cell decode)',
    'request bounds are non-negative integers (C14)',
    'identifier names denote what they say (axis tags are seeded from names)',
]
NOT_DECIDED = ('Bitwise equality of results with an independent decode; the behaviour of xarray\'s indexing adapter for '
               'stepped keys; numpy slicing semantics are trusted.')


def run(ctx):
    P, G = ctx.P, ctx.G
    ctx.rule('C02.1', 'every range-read offset is the canonical address of the layout in force (per layout mode)')
    ctx.rule('C02.2', 'decode shape and bytes agree; assembly buffers are tiled completely in coordinate order')
    ctx.rule('C02.3', 'crop of a decoded array = requested window relative to the origin actually read, axis by axis')
    ctx.rule('C02.5', 'coordinate -> ordinal translation only via coord_to_index with the axis list of the same axis')
    ctx.rule('C02.6', 'arguments keep their axis and min/max kind across the reader / loader / accessor layers')
    ctx.rule('C02.8', 'every request parameter of a public read method reaches the returned value in each mode (2D / 3D) that returns data')
    ctx.rule('C02.7', 'trace linearisation uses the crossline count as radix; diagonal index polynomials have the right slopes')
    recs = LR.collect(ctx.shared)
    LR.report(ctx, recs, {'L1': 'C02.1', 'DEC': 'C02.2', 'L3': 'C02.2', 'L4': 'C02.3', 'HULL': 'C02.3'})
    ctx.floor('C02.1', 8, 'range-read sites')
    ctx.floor('C02.2', 12, 'decode / assembly sites')
    ctx.floor('C02.3', 10, 'crop sites')
    modes = sorted({r.mode for r in recs})
    ctx.notes.append('layout modes evaluated: %s' % ', '.join(modes))
    ctx.notes.append('entry points: %s' % ', '.join(sorted({r.entry.name for r in recs})))
    translation(ctx)
    bindings(ctx)
    subscript_axes(ctx, 'C02.6')
    xarray_adapter(ctx, 'C02.6')
    linearisation(ctx)
    honoured_parameters(ctx)


# ---------------------------------------------------------------------------
def translation(ctx):
    """C02.5: every coord_to_index(x, coords) pairs a value and an axis list of one axis; wrappers likewise."""
    P, G = ctx.P, ctx.G
    n = 0
    for f in P.functions.values():
        for e in G.callees(f):
            if e.target is None or e.target.qualname != 'utils.coord_to_index':
                continue
            c = e.call
            if len(c.args) < 2:
                continue
            ax_list = axis_of_text(U(c.args[1]))
            ax_val = axis_of_text(U(c.args[0])) or axis_of_text(f.name)
            n += 1
            if ax_list in ('IL', 'XL', 'Z') and ax_val in ('IL', 'XL', 'Z') and ax_list != ax_val:
                ctx.fail('C02.5', f, enclosing_stmt(c), 'coord_to_index looks `%s` (%s) up in `%s` (the %s axis)' % (
                    U(c.args[0]), ax_val, U(c.args[1]), ax_list), line=c.lineno)
            else:
                ctx.ok('C02.5', f, c, 'value and axis list agree (%s / %s)' % (ax_val, ax_list),
                       nontrivial=ax_list is not None and ax_val is not None)
    # call sites of helper functions that forward (coordinate, axis list) pairs
    for f in P.functions.values():
        for e in G.callees(f):
            t = e.target
            if t is None or t.qualname == 'utils.coord_to_index':
                continue
            fwd = [x for x in G.callees(t) if x.target is not None and x.target.qualname == 'utils.coord_to_index']
            if not fwd:
                continue
            # parameters of t that flow into (coord, coords)
            for x in fwd:
                if len(x.call.args) < 2:
                    continue
                pc, pl = U(x.call.args[0]).split('.')[0].split('[')[0], U(x.call.args[1])
                if pc in e.binding and pl in e.binding:
                    a1, a2 = axis_of_text(U(e.binding[pc])), axis_of_text(U(e.binding[pl]))
                    n += 1
                    if a1 in ('IL', 'XL', 'Z') and a2 in ('IL', 'XL', 'Z') and a1 != a2:
                        ctx.fail('C02.5', f, enclosing_stmt(e.call), '%s is called with the %s value `%s` and the %s axis `%s`' % (
                            t.name, a1, U(e.binding[pc]), a2, U(e.binding[pl])), line=e.call.lineno)
                    else:
                        ctx.ok('C02.5', f, e.call, '%s(%s, %s): axes agree (%s / %s)' % (
                            t.name, U(e.binding[pc])[:20], U(e.binding[pl])[:20], a1, a2),
                            nontrivial=a1 is not None and a2 is not None)
                    break
    ctx.floor('C02.5', 8, 'coordinate translations')
    # the translation itself is exact (shared with C14.4)
    from .. import sanitiser
    sanitiser.check(ctx, 'C02.5')


KIND_MIN = ('min', 'start', 'lower')
KIND_MAX = ('max', 'stop', 'upper')


def kind_of(text):
    t = text.lower()
    for k in KIND_MIN:
        if t.startswith(k + '_') or ('_' + k) in t or '.' + k in t:
            return 'MIN'
    for k in KIND_MAX:
        if t.startswith(k + '_') or ('_' + k) in t or '.' + k in t:
            return 'MAX'
    return None


def arg_tag(e):
    """(axis, kind) of an argument expression: single definite axis among its names, else None."""
    names = [U(n) for n in ast.walk(e) if isinstance(n, (ast.Name, ast.Attribute)) and
             not isinstance(parent(n), ast.Attribute)]
    axes = set()
    kinds = set()
    for nm in names:
        if nm in ('self',) or 'blockshape' in nm or 'shape_pad' in nm:
            continue
        a = axis_of_text(nm)
        if a == 'MIXED':
            return None, None
        if a:
            axes.add(a)
        k = kind_of(nm)
        if k:
            kinds.add(k)
    ax = axes.pop() if len(axes) == 1 else None
    kd = kinds.pop() if len(kinds) == 1 else None
    # blockshape[k] alone tags the axis too
    if ax is None and not axes:
        for n in ast.walk(e):
            if isinstance(n, ast.Subscript) and 'blockshape' in U(n.value) and isinstance(n.slice, ast.Constant) and \
                    n.slice.value in (0, 1, 2):
                ax = ('IL', 'XL', 'Z')[n.slice.value]
    return ax, kd


def bindings(ctx):
    """C02.6 (AT6): for every resolved call into the reader / loader / accessor layers, each argument with a
    definite axis (and min/max kind) is bound to a parameter of the same axis (and kind)."""
    P, G = ctx.P, ctx.G
    layer = set()
    for c in RF.reader_classes(P) + [P.cls('loader.SgzLoader')] + P.cls('loader.SgzLoader').all_subclasses():
        for m in c.methods.values():
            layer.add(m.qualname)
    n = 0
    seen = set()
    for f in P.functions.values():
        for e in G.callees(f):
            if e.target is None or e.target.qualname not in layer:
                continue
            key = (f.qualname, e.call.lineno, e.call.col_offset, e.target.qualname)
            if key in seen:
                continue
            seen.add(key)
            for p_, v in e.binding.items():
                pax, pk = axis_of_text(p_), kind_of(p_)
                if e.target.cls is not None and e.target.module.name == 'loader' and pax is None and \
                        p_ in ('min_id', 'max_id'):
                    pax = None
                aax, ak = arg_tag(v)
                if pax in ('IL', 'XL', 'Z') and aax in ('IL', 'XL', 'Z'):
                    n += 1
                    # a 2D trace range rides on the crossline position: trace-tagged values are not compared
                    if pax != aax:
                        ctx.fail('C02.6', f, enclosing_stmt(e.call), 'argument `%s` (%s axis) is bound to parameter %s (%s axis) '
                                 'of %s' % (U(v)[:50], aax, p_, pax, e.target.name), line=e.call.lineno, key_extra=p_)
                        continue
                    if pk and ak and pk != ak:
                        ctx.fail('C02.6', f, enclosing_stmt(e.call), 'argument `%s` (a %s bound) is bound to parameter %s (a %s '
                                 'bound) of %s' % (U(v)[:50], ak, p_, pk, e.target.name), line=e.call.lineno, key_extra=p_)
                        continue
                    ctx.ok('C02.6', f, '%s(%s=%s)' % (e.target.name, p_, U(v)[:30]), 'axis %s%s agrees' % (
                        aax, (' and kind ' + ak) if pk and ak else ''))
    ctx.floor('C02.6', 30, 'tagged argument bindings')


def xarray_adapter(ctx, rule):
    """The xarray backend declares IndexingSupport.BASIC: its raw indexing method receives, per axis, an integer (the
    axis is dropped) or a slice that may carry a step.  Reading the bounding box is fine (C07 says so), but the value
    returned must then be post-indexed: by the step on sliced axes and by a scalar on integer axes.  A method that
    returns the bare read_subvolume(...) result, or whose post-index never depends on the steps, returns the
    unstepped window / an array with a spurious axis."""
    P = ctx.P
    f = P.functions.get('sgz_xarray.SeismicZfpBackendArray._raw_indexing_method')
    if f is None:
        raise AnalysisError('xarray raw indexing method not found')
    from ..footer import _def_chain
    rets = [r for r in ast.walk(f.node) if isinstance(r, ast.Return) and r.value is not None]
    data_rets = [r for r in rets if any(isinstance(c, ast.Call) and U(c.func).endswith('read_subvolume') for c in ast.walk(r.value))]
    if not data_rets:
        raise AnalysisError('%s: no return of a read_subvolume result' % f.qualname)
    handles_int = any(isinstance(c, ast.Call) and U(c.func) == 'isinstance' and len(c.args) == 2 and U(c.args[1]) == 'slice'
                      for c in ast.walk(f.node))
    for r in data_rets:
        v = r.value
        post = v.slice if isinstance(v, ast.Subscript) and any(
            isinstance(c, ast.Call) and U(c.func).endswith('read_subvolume') for c in ast.walk(v.value)) else None
        if post is None:
            ctx.fail(rule, f, r, 'the raw indexing method returns the bare read_subvolume(...) window: slice steps are ignored '
                     '(data[::2] returns every inline) and integer-indexed axes are not dropped (data[3] keeps a length-1 axis), '
                     'although the backend declares basic indexing support')
            continue
        chain = _def_chain(f, post)
        # everything that flows into the post-index, including appends to lists it is built from
        names = {x.id for e in chain for x in ast.walk(e) if isinstance(x, ast.Name)}
        feeders = [c for c in ast.walk(f.node) if isinstance(c, ast.Call) and isinstance(c.func, ast.Attribute) and
                   c.func.attr in ('append', 'extend', 'insert') and isinstance(c.func.value, ast.Name) and c.func.value.id in names]
        flow = list(chain) + [a for c in feeders for a in c.args]
        flow_names = {x.id for e in flow for x in ast.walk(e) if isinstance(x, ast.Name)}
        step_sources = set()
        for a in ast.walk(f.node):
            if isinstance(a, ast.Assign):
                if isinstance(a.value, ast.Call) and isinstance(a.value.func, ast.Attribute) and a.value.func.attr == 'indices' and \
                        isinstance(a.targets[0], ast.Tuple) and len(a.targets[0].elts) == 3:
                    step_sources.add(U(a.targets[0].elts[2]))
                elif isinstance(a.value, ast.Attribute) and a.value.attr == 'step' and isinstance(a.targets[0], ast.Name):
                    step_sources.add(a.targets[0].id)
        uses_step = bool(step_sources & flow_names) or any(isinstance(x, ast.Attribute) and x.attr == 'step' for e in flow for x in ast.walk(e))
        drops_int = any(isinstance(x, ast.Constant) and x.value == 0 for e in flow for x in ast.walk(e)) or not handles_int
        if uses_step and drops_int:
            ctx.ok(rule, f, r, 'window post-indexed by the steps of sliced axes and a scalar on integer axes')
        else:
            ctx.fail(rule, f, r, 'the post-index of the window %s' % (
                'does not depend on the slice steps: stepped requests return the unstepped window' if not uses_step else
                'never drops integer-indexed axes'))


def subscript_axes(ctx, rule):
    """AT1: in a three-element subscript of a cube (IL, XL, Z order) each element that carries a definite axis tag
    (through the names of its slice bounds / step) stands in the position of that axis."""
    P = ctx.P
    n = 0
    for f in P.functions.values():
        if f.module.name not in ('read', 'accessors', 'sgz_xarray', 'tools', 'segyio_emulator'):
            continue
        for sub in ast.walk(f.node):
            if not (isinstance(sub, ast.Subscript) and isinstance(sub.slice, ast.Tuple) and len(sub.slice.elts) == 3):
                continue
            tags = []
            for e in sub.slice.elts:
                parts = [x for x in ((e.lower, e.upper, e.step) if isinstance(e, ast.Slice) else (e,)) if x is not None]
                ax = {axis_of_text(U(x_)) for x_ in parts for x_ in ast.walk(x_) if isinstance(x_, (ast.Name, ast.Attribute))}
                ax -= {None, 'MIXED'}
                tags.append(ax.pop() if len(ax) == 1 else None)
            if sum(t is not None for t in tags) < 2:
                continue
            n += 1
            want = ['IL', 'XL', 'Z']
            bad = [(k, t) for k, t in enumerate(tags) if t is not None and t != want[k]]
            if bad:
                k, t = bad[0]
                ctx.fail(rule, f, enclosing_stmt(sub), 'position %d (%s) of the cube subscript `%s` is indexed with a %s quantity' % (
                    k, want[k], U(sub.slice)[:70], t), line=sub.lineno)
            else:
                ctx.ok(rule, f, sub, 'subscript elements stand in the positions of their axes %s' % tags, nontrivial=True)
    if n < 4:
        raise AnalysisError('cube subscripts with axis-tagged elements: only %d found' % n)


def linearisation(ctx):
    """C02.7"""
    P, G = ctx.P, ctx.G
    gt = P.func(RF.READER + '.get_trace')
    n_dec = 0
    # (quotient, remainder) of one dividend: as a tuple assignment, two assignments, or divmod()
    pairs = []
    singles = {}
    for n in ast.walk(gt.node):
        if not isinstance(n, ast.Assign):
            continue
        if isinstance(n.value, ast.Tuple) and len(n.value.elts) == 2 and isinstance(n.targets[0], ast.Tuple):
            for t, v in zip(n.targets[0].elts, n.value.elts):
                if isinstance(v, ast.BinOp) and isinstance(v.op, (ast.FloorDiv, ast.Mod)):
                    singles.setdefault(U(v.left), []).append((n, U(t), v))
        elif isinstance(n.value, ast.BinOp) and isinstance(n.value.op, (ast.FloorDiv, ast.Mod)) and isinstance(n.targets[0], ast.Name):
            singles.setdefault(U(n.value.left), []).append((n, U(n.targets[0]), n.value))
        elif isinstance(n.value, ast.Call) and U(n.value.func) == 'divmod' and len(n.value.args) == 2 and \
                isinstance(n.targets[0], ast.Tuple) and len(n.targets[0].elts) == 2:
            q, r_ = [U(t) for t in n.targets[0].elts]
            pairs.append((n, q, r_, U(n.value.args[1]), U(n.value.args[1])))
    for dividend, lst in singles.items():
        qs = [x for x in lst if isinstance(x[2].op, ast.FloorDiv)]
        rs = [x for x in lst if isinstance(x[2].op, ast.Mod)]
        if len(qs) == 1 and len(rs) == 1 and axis_of_text(qs[0][1]) in ('IL', 'XL') and axis_of_text(rs[0][1]) in ('IL', 'XL') \
                and 'blockshape' not in U(qs[0][2].right):
            pairs.append((qs[0][0], qs[0][1], rs[0][1], U(qs[0][2].right), U(rs[0][2].right)))
    for (n, qname, rname, ra, rb) in pairs:
        n_dec += 1
        ok = ra == rb and axis_of_text(ra) == 'XL' and axis_of_text(qname) == 'IL' and axis_of_text(rname) == 'XL'
        if ok:
            ctx.ok('C02.7', gt, n, 'trace ordinal is split as (index // n_xl -> IL, index %% n_xl -> XL)')
        else:
            ctx.fail('C02.7', gt, n, 'trace ordinal decomposition (%s = .. // %s, %s = .. %% %s) does not use the crossline count as '
                     'radix for (IL, XL)' % (qname, ra, rname, rb))
    if n_dec < 1:
        raise AnalysisError('get_trace: trace ordinal decomposition (index // n, index % n) not found')
    # the bound of the ordinal uses the same grid
    # diagonals: index polynomial in d
    T = Atoms()
    N1 = T.declare('self.n_xlines', 1, None)
    N0 = T.declare('self.n_ilines', 1, None)
    d = T.declare('d', 0, None)
    cd = T.declare('diag', None, None)

    def ev(e, diag_name):
        if isinstance(e, ast.Constant) and isinstance(e.value, int):
            return C(e.value)
        t = U(e)
        if t == 'self.n_xlines':
            return N1
        if t == 'self.n_ilines':
            return N0
        if t == 'd':
            return d
        if t == diag_name:
            return cd
        if isinstance(e, ast.BinOp):
            l, r = ev(e.left, diag_name), ev(e.right, diag_name)
            if l is None or r is None:
                return None
            if isinstance(e.op, ast.Add):
                return l + r
            if isinstance(e.op, ast.Sub):
                return l - r
            if isinstance(e.op, ast.Mult):
                return l * r
        return None
    for name, slope_xl in (('read_correlated_diagonal', 1), ('read_anticorrelated_diagonal', -1)):
        f = P.func(RF.READER + '.' + name)
        diag = f.params[1]
        calls = [c for c in ast.walk(f.node) if isinstance(c, ast.Call) and U(c.func) == 'self.get_trace' and c.args]
        # index expressions with the node whose enclosing test selects the half: the call itself, or - when the index
        # is computed into a local first - each definition of that local
        sites = []
        for c in calls:
            a0 = c.args[0]
            defs = [n for n in ast.walk(f.node) if isinstance(n, ast.Assign) and len(n.targets) == 1 and
                    isinstance(a0, ast.Name) and U(n.targets[0]) == a0.id] if isinstance(a0, ast.Name) else []
            if defs:
                sites.extend((n.value, n, c, None) for n in defs)
            else:
                # the indices computed into a list first:  idx = [f(d) for d in range(..)]  (per half);  for i in idx: get_trace(i)
                lists = []
                if isinstance(a0, ast.Name):
                    q = parent(c)
                    while q is not None and q is not f.node:
                        if isinstance(q, ast.For) and any(isinstance(x, ast.Name) and x.id == a0.id for x in ast.walk(q.target)):
                            it = q.iter
                            if isinstance(it, ast.Call) and U(it.func) == 'enumerate' and it.args:
                                it = it.args[0]
                            if isinstance(it, ast.Name):
                                lists = [n for n in ast.walk(f.node) if isinstance(n, ast.Assign) and len(n.targets) == 1 and
                                         U(n.targets[0]) == it.id and isinstance(n.value, ast.ListComp) and
                                         len(n.value.generators) == 1 and isinstance(n.value.generators[0].target, ast.Name)]
                        q = parent(q)
                if lists:
                    sites.extend((n.value.elt, n, c, n.value.generators[0].target.id) for n in lists)
                else:
                    sites.append((a0, c, c, None))
        if len(sites) < 2:
            raise AnalysisError('%s: expected two get_trace call sites (the two halves of the diagonal family)' % name)
        for (iexpr, anchor, c, dname0) in sites:
            # the running variable of the diagonal: target of the innermost enclosing loop over a range
            dname = dname0
            q = parent(anchor)
            while q is not None and q is not f.node and dname is None:
                if isinstance(q, ast.For):
                    it, tg = q.iter, q.target
                    if isinstance(it, ast.Call) and U(it.func) == 'enumerate' and it.args and isinstance(tg, ast.Tuple) and len(tg.elts) == 2:
                        it, tg = it.args[0], tg.elts[1]
                    if isinstance(it, ast.Call) and U(it.func) == 'range' and isinstance(tg, ast.Name):
                        dname = tg.id
                    elif dname is None:
                        # several loop variables (zip of ranges ..): the one the trace index is computed from
                        used = {x.id for x in ast.walk(iexpr) if isinstance(x, ast.Name)}
                        cands = [x.id for x in ast.walk(q.target) if isinstance(x, ast.Name) and x.id in used]
                        if len(cands) == 1:
                            dname = cands[0]
                q = parent(q)
            if dname is None:
                raise AnalysisError('%s: the loop variable running along the diagonal was not found' % name)

            def ev2(e, depth=0):
                if isinstance(e, ast.Name) and e.id == dname:
                    return d
                if isinstance(e, ast.Name) and e.id not in f.params and depth < 4:
                    ds = [n for n in ast.walk(f.node) if isinstance(n, ast.Assign) and len(n.targets) == 1 and U(n.targets[0]) == e.id]
                    if len(ds) == 1:
                        return ev2(ds[0].value, depth + 1)
                if isinstance(e, ast.BinOp):
                    l, r = ev2(e.left, depth), ev2(e.right, depth)
                    if l is None or r is None:
                        return None
                    return l + r if isinstance(e.op, ast.Add) else l - r if isinstance(e.op, ast.Sub) else l * r if isinstance(e.op, ast.Mult) else None
                if isinstance(e, ast.Name) and e.id == 'd':
                    return None
                return ev(e, diag)
            p = ev2(iexpr)
            if p is None:
                raise AnalysisError('%s: trace index `%s` does not normalise' % (name, U(iexpr)))
            # coefficient of d must be N1 + slope_xl: IL part has slope +1 (radix N1), XL part slope +-1
            coef_d = Poly({k: v for k, v in p.t.items() if any(a == 'd' for a, e in k)})
            coef_d = T.exact_div(coef_d, d)
            want = N1 + slope_xl
            rest = p.subst({'d': Poly()})
            ok = coef_d == want and N0 not in [A(a) for a in p.atoms()]
            # the start trace (d = 0) lies on an edge of the grid: IL*N1 + XL with IL or XL at an end
            edge_ok = rest in (cd * N1, -cd + 0 * N1, cd + 0 * N1, (cd - N1 + 1) * N1 + N1 - 1)
            # the start belongs to the half of the family selected by the enclosing test
            q, child, side = parent(anchor), anchor, None
            while q is not None and q is not f.node:
                if isinstance(q, ast.If) and isinstance(q.test, ast.Compare) and len(q.test.ops) == 1 and U(q.test.left) == diag:
                    inbody = any(child is s_ or any(child is x for x in ast.walk(s_)) for s_ in q.body)
                    op, rhs = type(q.test.ops[0]), U(q.test.comparators[0])
                    if slope_xl > 0 and rhs == '0' and op in (ast.GtE, ast.Lt):
                        side = 'first' if (op is ast.GtE) == inbody else 'second'
                    if slope_xl < 0 and rhs == 'self.n_xlines' and op in (ast.Lt, ast.GtE):
                        side = 'first' if (op is ast.Lt) == inbody else 'second'
                child, q = q, parent(q)
            want_rest = {(1, 'first'): cd * N1, (1, 'second'): -cd + 0 * N1, (-1, 'first'): cd + 0 * N1,
                         (-1, 'second'): (cd - N1 + 1) * N1 + N1 - 1}.get((slope_xl, side))
            if side is None:
                raise AnalysisError('%s: the test selecting the half of the diagonal family was not recognised' % name)
            edge_ok = edge_ok and rest == want_rest
            if ok and edge_ok:
                ctx.ok('C02.7', f, c, 'index = (IL0 + d)*n_xl + (XL0 %s d): slope %r, start %r' % (
                    '+' if slope_xl > 0 else '-', coef_d, rest), sample={'poly': repr(p)})
            else:
                ctx.fail('C02.7', f, enclosing_stmt(c), 'trace index `%s` = %r along the diagonal: slope in d is %r (must be '
                         'n_xlines %s 1), start %r' % (U(c.args[0])[:60], p, coef_d, '+' if slope_xl > 0 else '-', rest),
                         line=c.lineno)
    from .. import diaglen
    diaglen.check(ctx, 'C02.7')
    ctx.floor('C02.7', 5)


# ---------------------------------------------------------------------------
# C02.8  request parameters are honoured in every mode
# ---------------------------------------------------------------------------

def _b(name):
    return name.split('@')[0]


def _loads(e):
    out = set()
    for x in ast.walk(e):
        if isinstance(x, ast.Name) and isinstance(x.ctx, ast.Load):
            out.add(_b(x.id))
        elif isinstance(x, ast.Attribute) and isinstance(x.ctx, ast.Load):
            out.add(U(x))
    return out


def _flows_into(fm, fnode, rets):
    """names / attribute texts whose value may flow into a returned value: closure of data dependence over the
    statements reachable in this mode (flow-insensitive, so it over-approximates the flow and under-approximates alarms;
    control dependence - a range check, a defaulting test - does not count)."""
    want = set()
    contributing = list(rets)
    for r in rets:
        want |= _loads(r.value)
    stmts = [s for s in ast.walk(fnode) if isinstance(s, ast.stmt) and id(s) in fm.reachable]
    changed = True
    while changed:
        changed = False
        for s in stmts:
            add = set()
            if isinstance(s, (ast.Assign, ast.AugAssign, ast.AnnAssign)) and s.value is not None:
                tg = s.targets if isinstance(s, ast.Assign) else [s.target]
                names = set()
                for t in tg:
                    for x in ast.walk(t):
                        if isinstance(x, ast.Name) and isinstance(x.ctx, ast.Store):
                            names.add(_b(x.id))
                        elif isinstance(x, ast.Attribute) and isinstance(x.ctx, ast.Store):
                            names.add(U(x))
                        elif isinstance(x, ast.Subscript) and isinstance(x.ctx, ast.Store):
                            names |= _loads(x.value)
                if names & want:
                    add = _loads(s.value)
                    for t in tg:
                        add |= _loads(t)
            elif isinstance(s, ast.Expr) and isinstance(s.value, ast.Call):
                l = _loads(s.value)
                if l & want:
                    add = l
            if not add and isinstance(s, (ast.Assign, ast.Expr)):
                # a wanted buffer handed to a call (a pool submission inside a comprehension bound to `futures`): the call
                # may fill it, so everything the call receives may flow into it
                for c in ast.walk(s.value):
                    if isinstance(c, ast.Call) and any(isinstance(a, ast.Name) and _b(a.id) in want for a in c.args):
                        add |= _loads(c)
                        for comp in ast.walk(s.value):
                            if isinstance(comp, ast.comprehension):
                                add |= _loads(comp.iter)
            elif isinstance(s, ast.For):
                names = {_b(x.id) for x in ast.walk(s.target) if isinstance(x, ast.Name)}
                if names & want:
                    add = _loads(s.iter)
            elif isinstance(s, ast.With):
                for it in s.items:
                    if it.optional_vars is not None and \
                            {_b(x.id) for x in ast.walk(it.optional_vars) if isinstance(x, ast.Name)} & want:
                        add |= _loads(it.context_expr)
            if add and not any(s is c for c in contributing):
                contributing.append(s)
            if add - want:
                want |= add
                changed = True
    return want, contributing


def _incoming_value_used(fm, contributing, p):
    """does a statement that feeds the result read the parameter while its incoming value (or something computed from
    it) is still in it?  A load of the name after `p = <expression without p>` on every path reads another value."""
    from ..facts import tokens
    for s in contributing:
        for n in ast.walk(s):
            if isinstance(n, ast.stmt) and n is not s:
                continue
            if isinstance(n, ast.Name) and _b(n.id) == p and isinstance(n.ctx, ast.Load):
                for facts in fm.paths_at(n):
                    defs = [a for a in facts if a[0] == 'def' and _b(a[1]) == p]
                    if not defs or any(p in {_b(t) for t in tokens(str(a[2]))} for a in defs):
                        return True
    return False


def honoured_parameters(ctx):
    """A public read method takes its request as parameters; in each mode (2D / 3D file) in which the method can
    return data, every parameter other than a boolean switch must reach the returned value by data flow.  A window
    parameter dropped in one mode returns the whole trace / plane where a slice of it was asked for."""
    P = ctx.P
    n = 0
    for cls in RF.reader_classes(P):
        for f in sorted(cls.methods.values(), key=lambda f: f.node.lineno):
            if f.name.startswith('_') or not f.is_method:
                continue
            if any(isinstance(x, (ast.Yield, ast.YieldFrom)) for x in ast.walk(f.node)):
                continue
            params = [p for p in f.call_params()
                      if not (isinstance(f.defaults.get(p), ast.Constant) and isinstance(f.defaults[p].value, bool))]
            if not params:
                continue
            for mode in ('2d', '3d'):
                fm = RF.factmap(P, f, mode)
                rets = [r for r in ast.walk(f.node) if isinstance(r, ast.Return) and r.value is not None
                        and U(r.value) != 'None' and fm.is_reachable(r)]
                if not rets:
                    continue        # the mode is refused (dimensionality error) or the method returns nothing
                w, contributing = _flows_into(fm, f.node, rets)
                for p in params:
                    n += 1
                    if p in w and _incoming_value_used(fm, contributing, p):
                        ctx.ok('C02.8', f, rets[0], 'parameter `%s` reaches the value returned for a %s file' % (p, mode.upper()),
                               nontrivial=(f.defaults.get(p) is not None))
                    else:
                        ctx.fail('C02.8', f, f.node.args, 'parameter `%s` of the public read method `%s` is ignored for %s files: '
                                 'no data flow from it to a value returned on the paths of that mode (return at line %d), '
                                 'so a windowed request returns the unwindowed result' % (p, f.name, mode.upper(), rets[0].lineno),
                                 key_extra='%s|%s' % (p, mode), line=f.node.lineno)
    # the loaders (one per layout family): every parameter reaches the decoded array; a parameter that selects the path
    # (a test enclosing a statement that feeds the result) counts as well
    from ..facts import FactMap
    for cls in P.classes.values():
        if cls.module.name != 'loader':
            continue
        for f in sorted(cls.methods.values(), key=lambda f: f.node.lineno):
            if f.name.startswith('_') or not f.is_method:
                continue
            fm = FactMap(f.node)
            rets = [r for r in ast.walk(f.node) if isinstance(r, ast.Return) and r.value is not None
                    and U(r.value) != 'None' and fm.is_reachable(r)]
            if not rets:
                continue
            w, contributing = _flows_into(fm, f.node, rets)
            for p in f.call_params():
                n += 1
                ctl = any(isinstance(t, (ast.If, ast.While)) and p in _loads(t.test) and
                          any(c is x for c in contributing for x in ast.walk(t)) for t in ast.walk(f.node))
                if (p in w and _incoming_value_used(fm, contributing, p)) or ctl:
                    ctx.ok('C02.8', f, rets[0], 'loader parameter `%s` reaches the decoded array' % p)
                else:
                    ctx.fail('C02.8', f, f.node.args, 'parameter `%s` of the loader `%s` does not reach the decoded array it '
                             'returns: the read does not depend on that part of the request' % (p, f.name),
                             key_extra=p, line=f.node.lineno)
    ctx.floor('C02.8', 100, '(method, mode, parameter) triples')
