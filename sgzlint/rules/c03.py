"""C03 - container conformance: header table writer = reader = specification, codecs, roles,
size formulas, footer stride, count/table pairing, version numeral."""
import ast
from ..core import U, AnalysisError, parent, enclosing_stmt
from ..facts import FactMap
from ..algebra import Poly, C, A
from .. import tables as TB
from .. import headerrules as HR
from .. import footer as FT
from ..sizerules import RoleEval
from ..axes import role_of

PROP = 'C03'
EXPLANATION = (
    'One table, three witnesses. Every constant byte range written into a header buffer (slice stores on '
    'bytearray(DISK_BLOCK_BYTES*n) or a copy of headerbytes, seek+write patches), every decoded range of '
    'self.headerbytes and every row of docs/file-specification.md is extracted from the tree; struct formats are '
    'read off utils.py. C03.1: each range is exactly a field of the specification and every field the reader '
    'interprets is filled by the fresh-header writer on each geometry branch. C03.2: codec width/endianness/'
    'signedness = specification type and sibling writers agree. C03.3: axis and kind (count/origin/step/blockshape) '
    'of the stored expression and of the reader destination = role of the field (name-seeded tags, definite-vs-'
    'definite only). C03.4: data-section size, header-array length and trace-count expressions of all writers have '
    'one normal form over role atoms. C03.5: bytes emitted per footer array = stride the reader derives for the '
    'stamped version, on both residue classes of len % 512 (digit algebra, no enumeration). C03.6: header-array '
    'count, table and arrays move together. C03.7: the version encoding is the mixed-radix numeral '
    '(2^21, 2^11, 2, 1), decoded with the same radices, compared through the encoding, and every gate compares '
    'SeismicZfpVersion objects.')
EXPLANATION += (
    " ADDED: C03.4 also requires every inline / crossline count that reaches a count or size field of the fresh header to come from the output geometry (the conversion window), not from the source axes. C03.5 additionally: reader-derived writers (cropper, re-blocker) emit the arrays in header-word table order (iterating the reader's stored-key list, which must hold one key per stored array - duplicates of another header word excluded - not a lazily filled memo dict whose order is the call history), take the full grid arrays (include_padding / grid reshape) rather than the mask-compacted ones, `x += pad` accumulations and companion writes in the same iteration are summed, and a padding gate on the SOURCE's version is evaluated on both outcomes against the stride of the version the OUTPUT is stamped with. C03.8: bytes 28:32 are decoded only under the 0.1.6 unit gate (or on the 2D branch) and a copied header whose version stamp is replaced also rewrites them. C03.9: the cropper's aligned upper bounds are provably within the source axis on every path (clip semantics, conditional expressions forked)."
)
EXPLANATION += (
    ' ADDED (round 4): C03.7 also covers the STRING form of a version: major / minor / patch are int() of the first three dot-separated fields of one split, or - when a regular expression is used - capturing groups that are complete digit runs, decided on the syntax tree of the pattern (re._parser): a lazy or bounded digit group followed by something that can match a digit reads 0.2.10 as 0.2.1 and stamps / gates on the wrong version. The regex rule carries a positive and a negative control, since the pinned tree splits the string.'
)
EXPLANATION += (
    ' ADDED (session 4): C03.11 - reader wiring: each size slot of the header (blocks of header, disk blocks of data, bytes per header array, number of arrays) is followed by def-use to the one reader attribute that holds it; the offset given to stored header array j in get_header_dict normalises to 512*... = DISK*(header blocks + data blocks) + j*stride with every parameter bound at the call site to the attribute of that role and j counting the arrays located so far (list length or counter); data_start_bytes = DISK * header blocks. C03.12 - writers that copy the source header keep its length (rule of C10.9 for every writer).'
)
EXPLANATION += (
    ' C03.10: the ordering facts of the writer pipeline (rules C16.1-C16.7) are part of conformance: every block is on disk, once and in order, before the footer is appended and the patches are made.'
)
ASSUMPTIONS = [
    'docs/file-specification.md is the format; rows marked Unused take no part',
    'the writing library stamps a version newer than 0.2.1 (the footer-padding gate) - not derivable from the source',
    'names denote what they say (axis tags are seeded from identifiers)',
    'block_bytes == DISK_BLOCK_BYTES (asserted by the reader) makes the size divisions by 8*4096 exact',
]
NOT_DECIDED = ('That the bytes on disk equal what the expressions denote (needs execution); string parsing of every '
               'setuptools_scm version string; the historical truth of the gate constants 0.1.6 / 0.2.1; compositions of '
               'writers beyond the per-writer rules.')


def run(ctx):
    P, G = ctx.P, ctx.G
    ht = HR.HeaderTable(P, G)
    ctx.ht = ht
    ctx.rule('C03.1', 'every written/read header range is a field of the specification; reader fields are filled')
    ctx.rule('C03.2', 'codec width, endianness and signedness = specification type; sibling writers agree')
    ctx.rule('C03.3', 'axis/kind of the stored expression and of the decode destination = role of the field')
    ctx.rule('C03.4', 'size formulas of all writers have one normal form')
    ctx.rule('C03.5', 'footer bytes per array = reader stride for the stamped version (both residues mod 512)')
    ctx.rule('C03.6', 'array count, header-word table and stored arrays move together')
    ctx.rule('C03.7', 'version encoding is a mixed-radix numeral, decoded and compared consistently')
    not_segy = lambda s: TB.role_of_row(ht.row_of(s)[0]) != ('SEGY_BIN', None) if ht.row_of(s)[0] is not None else True
    HR.check_ranges_and_codecs(ctx, ht, 'C03.1', 'C03.2', select=lambda s: not (4096 <= s.lo and s.width < 400))
    HR.check_sibling_codecs(ctx, ht, 'C03.2')
    HR.check_roles(ctx, ht, 'C03.3')
    HR.check_reader_roles(ctx, ht, 'C03.3')
    check_completeness(ctx, ht, 'C03.1')
    check_sizes(ctx, ht, 'C03.4')
    output_frame_counts(ctx, ht, 'C03.4')
    check_footer(ctx, ht, 'C03.5')
    ctx.rule('C03.9', 'the cropper states true dimensions: aligned bounds stay within the source axis on every path')
    from .c10 import alignment
    from .c09 import _relabel
    n0 = len(ctx.findings)
    alignment(ctx)
    for fnd in ctx.findings[n0:]:
        if fnd.rule == 'C10.7':
            fnd.rule = 'C03.9'
    _relabel(ctx, ('C10.7',), 'C03.9')
    # the data section is complete, in order and on disk before the footer is appended and the patches are made:
    # the ordering facts of the writer pipeline (rules C16.1-C16.7), reported here as C03.10
    from . import c16
    n0 = len(ctx.findings)
    before_rules = set(ctx.rule_counts)
    c16.run(ctx)
    for fnd in ctx.findings[n0:]:
        if fnd.rule.startswith('C16.'):
            fnd.rule = 'C03.10'
    _relabel(ctx, tuple(r for r in list(ctx.rule_counts) if r.startswith('C16.')), 'C03.10')
    for r in [r for r in ctx.rule_docs if r.startswith('C16.')]:
        ctx.rule_docs.pop(r, None)
    ctx.rule_docs['C03.10'] = 'writer pipeline: every block written once, in order, before footer / patches (rules of C16)'
    ctx.floors = [(('C03.10' if r.startswith('C16.') else r), n_, w) for (r, n_, w) in getattr(ctx, 'floors', [])]
    ctx.rule('C03.8', 'version-dependent fields are decoded under their version gate; a re-stamped copy converts them')
    if version_gated_fields(ctx, ht, 'C03.8') < 2:
        raise AnalysisError('decodes of the sample-interval field (28:32): fewer than the 2 confirmed sites')
    check_pairing(ctx, 'C03.6')
    check_version(ctx, 'C03.7')
    ctx.rule('C03.11', 'reader wiring: size slots reach the attributes of their role; footer array j is looked up at '
             '512*(header blocks + data blocks) + j*stride; data section starts after the header blocks')
    from .. import wiring as WR
    roles = WR.footer_location(ctx, ht, 'C03.11')
    WR.size_attr_uses(ctx, ht, 'C03.11', roles)
    ctx.floor('C03.11', 7, 'wiring facts')
    ctx.rule('C03.12', 'writers that copy the source header keep its length: no slice store past the end of a one-block header')
    HR.check_copy_bounds(ctx, ht, 'C03.12')
    ctx.floor('C03.12', 10, 'stores into header copies')
    ctx.floor('C03.1', 60, 'slot ranges')
    ctx.floor('C03.2', 50, 'slot codecs')
    ctx.floor('C03.3', 25, 'slot roles')
    ctx.floor('C03.4', 6, 'size formulas')
    ctx.floor('C03.5', 4, 'footer writers')
    ctx.floor('C03.7', 6, 'version facts')


# ---------------------------------------------------------------------------
def fresh_writers(ht):
    return sorted({s.func.qualname: s.func for s in ht.stores if TB.header_buffers(ht.P, s.func).get(s.buf) == 'fresh'
                   and s.lo == 0}.values(), key=lambda f: f.qualname)


BRANCHES = {
    '2d': [('T', 'isinstance(geom, Geometry2d)')],
    'regular': [('F', 'isinstance(geom, Geometry2d)'), ('F', 'unstructured')],
    'unstructured': [('F', 'isinstance(geom, Geometry2d)'), ('T', 'unstructured')],
}


def reader_rows(ctx, ht, mode):
    """rows decoded by the reader for files of ``mode``: loads reachable from __init__ under the mode facts."""
    from .. import readerfacts as RF
    P, G = ht.P, ht.G
    init = P.func('read.SgzReader.__init__')
    fm = RF.factmap(P, init, mode)
    live_funcs = {init.qualname}
    for e in G.callees(init):
        if e.target is not None and e.target.cls is not None and fm.is_reachable(e.call):
            live_funcs.add(e.target.qualname)
    rows, optional = {}, set()
    for s in ht.loads:
        if s.func.qualname not in live_funcs:
            continue
        f_fm = fm if s.func is init else RF.factmap(P, s.func, mode)
        if not f_fm.is_reachable(s.node):
            continue
        row, prob = ht.row_of(s)
        if row is None:
            continue
        rows.setdefault((row.lo, row.hi), []).append(s)
    # optional rows: every load is the zero-test itself or dominated by its outcome
    for key, ss in rows.items():
        opt = True
        for s in ss:
            f_fm = fm if s.func is init else RF.factmap(P, s.func, mode)
            facts = f_fm.facts_at(s.node) or frozenset()
            in_test = False
            p = parent(s.value)
            while p is not None and not isinstance(p, ast.stmt):
                if isinstance(p, ast.Compare) and any(U(c) == '0' for c in p.comparators):
                    in_test = True
                p = parent(p)
            guarded = any(a[0] in ('!=', '==') and 'headerbytes' in str(a[1]) and a[2] == '0' for a in facts)
            if not (in_test or guarded):
                opt = False
        if opt:
            optional.add(key)
    return rows, optional


def check_completeness(ctx, ht, rule):
    P = ht.P
    writers = fresh_writers(ht)
    if not writers:
        raise AnalysisError('no fresh-header writer (bytearray(DISK_BLOCK_BYTES*n) filled from byte 0) found')
    for w in writers:
        # wrappers that complete the buffer returned by w
        wrappers = [f for f in P.functions.values() if any(e.target is w for e in ht.G.callees(f))
                    and TB.returns_header_buffer(P, ht.G).get(f.qualname)]
        for br, assume in BRANCHES.items():
            fm = FactMap(w.node, assume=assume)
            written = set()
            for s in ht.stores:
                if s.func is w and fm.is_reachable(s.stmt):
                    row, prob = ht.row_of(s)
                    if row is not None:
                        written.add((row.lo, row.hi))
            patched = set()
            for s in ht.stores + ht.patches:
                if s.func in wrappers or s.kind == 'patch':
                    row, prob = ht.row_of(s) if s.kind != 'patch' else (_row_at(ht, s.lo), None)
                    if row is not None:
                        patched.add((row.lo, row.hi))
            need, optional = reader_rows(ctx, ht, '2d' if br == '2d' else '3d')
            for key in sorted(need):
                row = [r for r in ht.rows if (r.lo, r.hi) == key][0]
                role = TB.role_of_row(row)
                label = '%s[%s] field %d:%d %s' % (w.name, br, key[0], key[1], row.text[:25])
                if key in written:
                    ctx.ok(rule, w, label, 'filled on the %s branch' % br)
                elif key in patched:
                    ctx.ok(rule, w, label, 'filled by a wrapper / late patch')
                elif key in optional:
                    ctx.ok(rule, w, label, 'optional field: the reader tests it for zero', nontrivial=False)
                elif role in (('SEGY_TEXT', None), ('SEGY_BIN', None)):
                    ctx.ok(rule, w, label, 'raw SEG-Y area, copied for SEG-Y sources only', nontrivial=False)
                elif br == '2d' and role and role[1] in ('IL', 'XL'):
                    ctx.ok(rule, w, label, '3D geometry bytes are not set for 2D files (specification footnote)',
                           nontrivial=False)
                else:
                    ctx.fail(rule, w, label, 'the reader decodes bytes %d:%d (%s) but %s never fills them on the %s '
                             'branch' % (key[0], key[1], row.text[:30], w.name, br), line=w.node.lineno)


def _row_at(ht, off):
    for r in ht.typed:
        if r.lo == off:
            return r
    return None


# ---------------------------------------------------------------------------
def size_slots(ht, kind):
    out = []
    for s in ht.stores:
        row, prob = ht.row_of(s)
        if row is not None and TB.role_of_row(row) == (kind, None):
            out.append(s)
    return out


def check_sizes(ctx, ht, rule, select=lambda f: True):
    P = ht.P
    # --- data-section size
    forms = []
    for s in size_slots(ht, 'DATA_BLOCKS'):
        if not select(s.func):
            continue
        fm = FactMap(s.func.node)
        # one evaluation per definition of the stored local (2D / 3D branch of make_header)
        defs = [s.value]
        if isinstance(s.value, ast.Name):
            defs = [n.value for n in ast.walk(s.func.node) if isinstance(n, ast.Assign) and len(n.targets) == 1
                    and U(n.targets[0]) == s.value.id]
        # a formula over a local that is chosen in the arms of an `if` (padded_shape = [..] per geometry) stands for one
        # formula per arm; products over a display are written out
        from ..sizerules import expand_variants
        from .. import norm as _norm
        expanded = []
        for d in defs:
            needs = any(isinstance(c, ast.Call) and U(c.func).split('.')[-1] in ('prod', 'reduce') for c in ast.walk(d))
            if not needs:
                expanded.append(d)
                continue
            for v_ in expand_variants(s.func, d, reachable=fm.is_reachable):
                v2 = _norm._Fold(lookup=None, pure=lambda e: True).visit(v_)
                ast.fix_missing_locations(v2)
                for x_ in ast.walk(v2):
                    if not hasattr(x_, 'lineno'):
                        x_.lineno = getattr(d, 'lineno', 0)
                v2._sgz_stmt = enclosing_stmt(d)
                expanded.append(v2)
        defs = expanded
        for d in defs:
            res = ht.resolver(s)
            ev = RoleEval(P, s.func.module, lambda nm, res=res, d=d: None if isinstance(d, ast.Name) and nm == U(d) else res(nm))
            v = ev.ev(d)
            label = '%s: %s' % (s.func.name, U(d)[:70])
            if v is None:
                raise AnalysisError('cannot normalise the data-size formula `%s` in %s' % (U(d)[:80], s.func.qualname))
            for pr in ev.problems:
                ctx.fail(rule, s.func, getattr(d, '_sgz_stmt', None) or enclosing_stmt(d) or s.stmt, pr, line=d.lineno)
            forms.append((s, d, v, ev))
    dsk = P.const_value(P.modules['sgzconstants'], 'DISK_BLOCK_BYTES')
    if not isinstance(dsk, int):
        raise AnalysisError('DISK_BLOCK_BYTES is not a literal constant')
    for (s, d, v, ev) in forms:
        want3 = ev.atom('RATE[None]') * ev.atom('PAD[Z]') * ev.atom('PAD[XL]') * ev.atom('PAD[IL]') * C(1) * \
            Poly.const(1) * C(1)
        want3 = want3 * C(__import__('fractions').Fraction(1, 8 * dsk))
        want2 = ev.atom('RATE[None]') * ev.atom('PAD[Z]') * ev.atom('PAD[TRACE]') * C(__import__('fractions').Fraction(1, 8 * dsk))
        label = '%s: %s' % (s.func.name, U(d)[:60])
        if v == want3 or v == want2:
            ctx.ok(rule, s.func, label, 'data blocks = rate * prod(pad(count_k, blockshape_k)) / (8*%d)' % dsk,
                   sample={'normal_form': repr(v)})
        else:
            ctx.fail(rule, s.func, getattr(d, '_sgz_stmt', None) or enclosing_stmt(d) or s.stmt, 'data-section size `%s` normalises to %r, not to '
                     'rate*PAD[Z]*PAD[XL]*PAD[IL]/(8*%d): the header would state a different size than the blocks '
                     'written/addressed' % (U(d)[:60], v, dsk), line=d.lineno)
    # --- header array length
    for s in size_slots(ht, 'HEADER_ARRAY_BYTES'):
        if not select(s.func):
            continue
        defs = [s.value]
        if isinstance(s.value, ast.Name):
            defs = [n.value for n in ast.walk(s.func.node) if isinstance(n, ast.Assign) and len(n.targets) == 1
                    and U(n.targets[0]) == s.value.id]
        for d in defs:
            res = ht.resolver(s)
            ev = RoleEval(P, s.func.module, res)
            v = ev.ev(d)
            if v is None:
                # a factor chosen in the arms of an `if`: one formula per arm
                from ..sizerules import expand_variants
                vs = [RoleEval(P, s.func.module, res).ev(x) for x in expand_variants(s.func, d)]
                want_any = (4 * ev.atom('COUNT[XL]') * ev.atom('COUNT[IL]'), 4 * ev.atom('COUNT[TRACE]'))
                if vs and all(x is not None for x in vs):
                    badv = [x for x in vs if x not in want_any]
                    v = badv[0] if badv else vs[0]
            if v is None:
                raise AnalysisError('cannot normalise the header-array length `%s` in %s' % (U(d)[:80], s.func.qualname))
            want3 = 4 * ev.atom('COUNT[XL]') * ev.atom('COUNT[IL]')
            want2 = 4 * ev.atom('COUNT[TRACE]')
            label = '%s: %s' % (s.func.name, U(d)[:60])
            if v in (want3, want2):
                ctx.ok(rule, s.func, label, 'array length = 4 bytes per grid trace', sample={'normal_form': repr(v)})
            else:
                ctx.fail(rule, s.func, enclosing_stmt(d) or s.stmt, 'header-array length `%s` normalises to %r, not to '
                         '4*count(XL)*count(IL) (or 4*traces for 2D)' % (U(d)[:60], v), line=d.lineno)
    # --- trace count slot
    for s in size_slots(ht, 'TRACECOUNT'):
        if not select(s.func):
            continue
        e = s.value
        if isinstance(e, ast.Name):
            d_ = ht.resolver(s)(e.id)
            if isinstance(d_, ast.IfExp):
                e = d_
        ok = False
        why = ''
        if isinstance(e, ast.IfExp):
            t = U(e.test)
            r_else = RoleEval(P, s.func.module, ht.resolver(s)).ev(e.orelse)
            ev = RoleEval(P, s.func.module, ht.resolver(s))
            want = ev.atom('COUNT[IL]') * ev.atom('COUNT[XL]')
            body_role = role_of(e.body, ht.resolver(s))
            if 'unstructured' in t and 'Geometry2d' in t and body_role == ('COUNT', 'TRACE') and \
                    ev.ev(e.orelse) == want:
                ok = True
            else:
                why = 'expected `tracecount if unstructured or 2D else n_il * n_xl`'
        else:
            ev = RoleEval(P, s.func.module, ht.resolver(s))
            v = ev.ev(e)
            if v is not None and v == ev.atom('COUNT[IL]') * ev.atom('COUNT[XL]'):
                ok = True
            else:
                why = 'normalises to %r' % (v,)
        if ok:
            ctx.ok(rule, s.func, '%s: %s' % (s.func.name, U(e)[:60]), 'trace count = source traces (irregular/2D) or grid size')
        else:
            ctx.fail(rule, s.func, s.stmt, 'trace-count field receives `%s`: %s' % (U(e)[:60], why), line=s.node.lineno)


# ---------------------------------------------------------------------------
def check_footer(ctx, ht, rule, select=lambda f: True):
    P = ht.P
    FA = FT.FooterAlgebra()
    FT.register_helpers(P)
    FA.reader_stride = FT.reader_stride(P, FA)
    sites = FT.footer_write_sites(P)
    for (f, call) in sites:
        if not select(f):
            continue
        fm = FactMap(f.node)
        facts = fm.facts_at(call) or frozenset()

        def resolve(name, fm=fm, facts=facts, f=f):
            d = fm.resolve_def(name, facts)
            augs = sorted([n for n in ast.walk(f.node) if isinstance(n, ast.AugAssign) and U(n.target) == name and
                           isinstance(n.op, ast.Add)], key=lambda n: n.lineno)
            if d is None or augs:
                defs = [n for n in ast.walk(f.node) if isinstance(n, ast.Assign) and len(n.targets) == 1
                        and U(n.targets[0]) == name]
                if len(defs) == 2 and not augs:
                    from ..core import conditional_def
                    return conditional_def(f.node, name)
                if len(defs) != 1:
                    return None
                expr = defs[0].value
                # `x += more` (possibly under a gate held in a local flag): x = x + (more if gate else b'')
                import copy

                class _Sub(ast.NodeTransformer):
                    def __init__(self, repl):
                        self.repl = repl

                    def visit_Name(self, node):
                        return copy.deepcopy(self.repl) if node.id == name else node
                for a_ in augs:
                    # inside the increment the name still denotes the value accumulated so far
                    term = _Sub(expr).visit(copy.deepcopy(a_.value))
                    q = parent(a_)
                    if isinstance(q, ast.If) and q is not f.node:
                        t = q.test
                        if isinstance(t, ast.Name):
                            td = [n for n in ast.walk(f.node) if isinstance(n, ast.Assign) and U(n.targets[0]) == t.id]
                            if len(td) == 1:
                                t = td[0].value
                        inbody = any(a_ is x for x in q.body)
                        term = ast.IfExp(test=t, body=term if inbody else ast.Constant(value=b''),
                                         orelse=ast.Constant(value=b'') if inbody else term)
                    expr = ast.BinOp(left=expr, op=ast.Add(), right=term)
                return ast.fix_missing_locations(expr)
            try:
                return ast.parse(d, mode='eval').body
            except SyntaxError:
                return None
        # does the writer carry the source's version (copy of headerbytes, 72:76 untouched) or stamp its own?
        copies = copies_version(ht, f)
        # a writer that is itself a reader of a source file can gate its padding on the SOURCE's version: both
        # outcomes of that gate are possible whatever version the output is stamped with
        src_gated = any(FT.GATE_HINT in U(x) for x in FT._def_chain(f, call.args[0]) for x in [x])
        gates = (True, False) if (copies or src_gated) else (True,)
        # a version test in an enclosing `if` of the write fixes the gate on that path
        encl_gate = None
        p, child = parent(call), call
        while p is not None and p is not f.node:
            if isinstance(p, ast.If):
                gt = FT.gate_truth(p.test, True, resolve)
                if gt is not None:
                    encl_gate = gt if _in(child, p.body) else (not gt)
            child, p = p, parent(p)
        problems = []
        forms = {}
        for g in gates:
            if encl_gate is not None and g != encl_gate:
                continue
            v = FT.bytelen(call.args[0], FA, resolve, g)
            if v is None:
                raise AnalysisError('cannot normalise the footer write `%s` in %s' % (U(call)[:80], f.qualname))
            # further writes to the same handle in the same iteration (array and padding written separately)
            lp = parent(call)
            while lp is not None and lp is not f.node and not isinstance(lp, ast.For):
                lp = parent(lp)
            if isinstance(lp, ast.For):
                for other in ast.walk(lp):
                    if isinstance(other, ast.Call) and other is not call and isinstance(other.func, ast.Attribute) and \
                            other.func.attr == 'write' and U(other.func.value) == U(call.func.value) and other.args and \
                            not _exclusive(call, other, lp):
                        ov = FT.bytelen(other.args[0], FA, resolve, g)
                        if ov is None:
                            raise AnalysisError('cannot normalise the companion write `%s` in %s' % (U(other)[:60], f.qualname))
                        v = v + ov
            forms[g] = v
            # stride the reader of the OUTPUT derives: that of the source's version when the stamp is carried over,
            # that of the writing library's (current, padded) version when the writer stamps its own
            want = FA.reader_stride[g] if copies else FA.reader_stride[True]
            if v != want:
                if copies:
                    which = 'files stamped newer than the padding gate' if g else 'files stamped at or below the padding gate'
                else:
                    which = ('sources newer than the padding gate' if g else 'sources at or below the padding gate') + \
                        ' (the output is stamped with the current version)'
                problems.append('for %s each array occupies %r bytes on disk but the reader steps by %r '
                                '(L = 512*q + r is the array length)' % (which, v, want))
        label = '%s: %s' % (f.name, U(call)[:70])
        if problems:
            ctx.fail(rule, f, enclosing_stmt(call), 'footer stride mismatch%s: %s' % (
                ' (the header, and so the version, is copied from the source)' if copies else '', '; '.join(problems)),
                line=call.lineno)
        else:
            ctx.ok(rule, f, label, 'bytes per array = reader stride %s' % {k: repr(v) for k, v in forms.items()},
                   sample={'written': {str(k): repr(v) for k, v in forms.items()}})
        # reader-derived writers: the arrays must be the full grid arrays (the reader's memo holds the compacted,
        # mask-filtered ones for an irregular source unless padding was requested)
        if f.cls is not None and any(c.qualname == 'read.SgzReader' for c in f.cls.mro):
            chain = FT._def_chain(f, call.args[0])
            from_memo = any(isinstance(x, ast.Attribute) and x.attr == 'variant_headers' for e2 in chain for x in ast.walk(e2))
            if from_memo:
                loads = [c for c in ast.walk(f.node) if isinstance(c, ast.Call) and U(c.func).endswith('read_variant_headers')]
                padded = any(any(k.arg == 'include_padding' and isinstance(k.value, ast.Constant) and k.value.value is True
                                 for k in c.keywords) or (c.args and isinstance(c.args[0], ast.Constant) and c.args[0].value is True)
                             for c in loads)
                grid = any(isinstance(x, ast.Call) and isinstance(x.func, ast.Attribute) and x.func.attr == 'reshape' and
                           'n_ilines' in U(x) and 'n_xlines' in U(x) for e2 in chain for x in ast.walk(e2))
                facts = fm.facts_at(call) or frozenset()
                structured = ('T', 'self.structured') in facts
                # a reshape to the grid assumes full grid arrays, it does not establish them: on the compacted arrays of an
                # irregular source it raises - after the output file has been opened and its header and data written
                if not structured:
                    for facts_ in fm.paths_at(call) or []:
                        if ('T', 'self.structured') in facts_:
                            structured = True
                        else:
                            structured = False
                            break
                if padded or structured:
                    ctx.ok(rule, f, 'arrays: ' + label, 'footer arrays are the full grid arrays (%s)' % (
                        'padding requested' if padded else 'structured source only'))
                elif grid:
                    ctx.fail(rule, f, enclosing_stmt(loads[0]) if loads else enclosing_stmt(call),
                             'the footer arrays come from read_variant_headers() without include_padding=True and are reshaped to '
                             'the (n_ilines, n_xlines) grid: for an irregular source these are the mask-compacted arrays (one '
                             'entry per trace), the reshape raises after the output file has been opened and its header and '
                             'data written - the source is neither refused nor cropped, and a partial output is left behind',
                             line=(loads[0].lineno if loads else call.lineno), key_extra='masked')
                else:
                    ctx.fail(rule, f, enclosing_stmt(loads[0]) if loads else enclosing_stmt(call),
                             'the footer arrays come from read_variant_headers() without include_padding=True: for an irregular '
                             'source these are the mask-compacted arrays (one entry per trace, not per grid position), shorter '
                             'than the array length the copied header states - every header array of the output is misread',
                             line=(loads[0].lineno if loads else call.lineno), key_extra='masked')
        verdict, text = FT.footer_order(P, f, call)
        if verdict == 'ok':
            ctx.ok(rule, f, 'order: ' + label, text)
        elif verdict == 'bad':
            ctx.fail(rule, f, enclosing_stmt(call), 'footer order: ' + text, line=call.lineno, key_extra='order')
        elif verdict == 'unknown':
            raise AnalysisError('footer order in %s: %s' % (f.qualname, text))


def _exclusive(a, b, stop):
    """a and b lie in different arms of one `if` below ``stop``: they never run in the same iteration."""
    chain = []
    p, child = parent(a), a
    while p is not None and p is not stop:
        if isinstance(p, ast.If):
            chain.append((p, 'body' if any(child is x for x in p.body) else 'orelse'))
        child, p = p, parent(p)
    p, child = parent(b), b
    while p is not None and p is not stop:
        if isinstance(p, ast.If):
            arm = 'body' if any(child is x for x in p.body) else 'orelse'
            for (q, arm_a) in chain:
                if q is p and arm_a != arm:
                    return True
        child, p = p, parent(p)
    return False


def _in(node, body):
    for s in body:
        for x in ast.walk(s):
            if x is node:
                return True
    return False


def copies_version(ht, f):
    """the function (or the class's header regeneration it calls) starts from a copy of the source header and
    never stores bytes 72:76."""
    funcs = [f]
    for e in ht.G.callees(f):
        if e.target is not None and e.target.cls is f.cls and f.cls is not None:
            funcs.append(e.target)
    # a footer helper called by the method that builds the header (same class)
    for e in ht.G.callers(f):
        if e.caller.cls is f.cls and f.cls is not None and e.caller not in funcs:
            funcs.append(e.caller)
    copy = False
    stamped = False
    for g in funcs:
        for name, kind in TB.header_buffers(ht.P, g).items():
            if kind == 'copy':
                copy = True
        for s in ht.stores:
            if s.func is g and s.lo == 72:
                stamped = True
    return copy and not stamped


# ---------------------------------------------------------------------------
def output_frame_counts(ctx, ht, rule):
    """The fresh-header writer receives the SOURCE axes (parameters `ilines`, `xlines`) and the OUTPUT geometry (`geom`,
    the conversion window).  Every inline / crossline count that reaches a count or size field (8:12, 12:16, 56:60,
    60:64, 68:72) must be a count of the output geometry; `len(<source axis parameter>)` is the source frame."""
    n = 0
    for s in ht.stores:
        if TB.header_buffers(ht.P, s.func).get(s.buf) != 'fresh':
            continue
        row, prob = ht.row_of(s)
        if row is None:
            continue
        role = TB.role_of_row(row)
        if role is None or role[0] not in ('COUNT', 'DATA_BLOCKS', 'HEADER_ARRAY_BYTES', 'TRACECOUNT') or role[1] == 'Z':
            continue
        f = s.func
        axes_params = [p_ for p_ in f.params if p_ in ('ilines', 'xlines')]
        if not axes_params:
            continue
        n += 1
        chain = FT._def_chain(f, s.value)
        bad = [c for e2 in chain for c in ast.walk(e2) if isinstance(c, ast.Call) and U(c.func) == 'len' and c.args and
               isinstance(c.args[0], ast.Name) and c.args[0].id in axes_params]
        if bad:
            ctx.fail(rule, f, s.stmt, 'field %d:%d (%s) is computed from `%s`, the line count of the SOURCE file: with an '
                     'inline/crossline window the header states the source size, not the size of the converted window '
                     '(use the output geometry)' % (s.lo, s.hi, row.text[:30], U(bad[0])), key_extra='%d' % s.lo)
        else:
            ctx.ok(rule, f, 'field %d:%d' % (s.lo, s.hi), 'counts come from the output geometry')
    if n < 4:
        raise AnalysisError('fresh-header count / size fields: fewer than the 4 confirmed sites')


UNIT_GATE = '0.1.6'


def version_gated_fields(ctx, ht, rule, select=lambda f: True):
    """The meaning of bytes 28:32 depends on the version stamped in 72:76 (milliseconds up to 0.1.6, microseconds
    after).  (a) every decode of that field is unit-gated: the function compares file_version with the 0.1.6 gate, or
    the decode sits on the 2D branch (2D files postdate the gate); (b) a writer that starts from a copy of a source
    header and re-stamps 72:76 must also rewrite 28:32 (otherwise an old source keeps milliseconds under a stamp that
    says microseconds)."""
    P = ht.P
    n = 0
    for s in ht.loads:
        if (s.lo, s.hi) != (28, 32) or not select(s.func):
            continue
        n += 1
        f = s.func
        gate = any(isinstance(c, ast.Compare) and FT.GATE_HINT in U(c) and UNIT_GATE in U(c) for c in ast.walk(f.node))
        facts = ht.fm(f).facts_at(s.node) or frozenset()
        on_2d = any((a[0] == 'T' and a[1].endswith('is_2d')) or (a[0] == 'F' and a[1].endswith('is_3d')) for a in facts)
        if gate or on_2d:
            ctx.ok(rule, f, s.stmt, 'sample-interval field decoded %s' % ('under the 0.1.6 unit gate' if gate else 'on the 2D branch'))
        else:
            ctx.fail(rule, f, s.stmt, 'bytes 28:32 (sample interval) are decoded without the version gate: files written by '
                     '0.1.6 or earlier store milliseconds there, newer ones microseconds', line=getattr(s.node, 'lineno', None))
    for f in {s.func for s in ht.stores if s.lo == 72}:
        if not select(f):
            continue
        kinds = TB.header_buffers(P, f)
        for s in [x for x in ht.stores if x.func is f and x.lo == 72]:
            if kinds.get(s.buf) != 'copy':
                continue
            n += 1
            if any(x.func is f and x.buf == s.buf and x.lo == 28 for x in ht.stores):
                ctx.ok(rule, f, s.stmt, 're-stamped copy also rewrites the sample-interval field')
            else:
                ctx.fail(rule, f, s.stmt, 'the header is a copy of the source header whose version stamp (72:76) is replaced '
                         'while bytes 28:32 keep the source convention: a source written by 0.1.6 or earlier (milliseconds) '
                         'is then read with a 1000x finer sample interval')
    return n


# ---------------------------------------------------------------------------
def check_pairing(ctx, rule):
    """C03.6: in each constructor branch of HeaderwordInfo the self-referential table entries and the keys of
    headers_dict come from the same collection; every later removal is paired with update_table and followed
    by the re-write of the count (64:68) and of the table (980:..)."""
    P, G = ctx.P, ctx.G
    init = P.func('headers.HeaderwordInfo.__init__')
    fm = FactMap(init.node)
    # branches = top-level if/elif chain on the constructor mode
    n_br = 0
    for st in ast.walk(init.node):
        if not (isinstance(st, ast.Assign) and U(st.targets[0]) == 'self.headers_dict'):
            continue
        n_br += 1
        # collection feeding headers_dict
        v = st.value
        src = None
        from .c04 import _dict_helper, _zip_dict
        h = _dict_helper(ctx.G, init, v)
        if h is not None:
            # the dictionary is built by a helper: its keys are those of the local the helper returns
            g, local = h
            ds = [a for a in ast.walk(g.node) if isinstance(a, ast.Assign) and len(a.targets) == 1 and U(a.targets[0]) == local]
            if len(ds) == 1:
                v = ds[0].value
        if _zip_dict(v) is not None:
            src = '[%s]' % ', '.join(U(k) for k in _zip_dict(v)[0])
            lit_keys = src
        if isinstance(v, ast.Dict) and not v.keys:
            # an empty dictionary filled by constant item stores in the same branch: self.headers_dict[181] = ..
            blk0 = _enclosing_branch(st, init.node)
            ks = [a.targets[0].slice for a in (ast.walk(blk0) if blk0 is not None else []) if isinstance(a, ast.Assign) and
                  isinstance(a.targets[0], ast.Subscript) and U(a.targets[0].value) == 'self.headers_dict' and
                  isinstance(a.targets[0].slice, ast.Constant) and a.lineno > st.lineno]
            if ks:
                v = ast.Dict(keys=ks, values=[ast.Constant(value=None) for _ in ks])
        if isinstance(v, ast.Call) and 'fromkeys' in U(v.func) and v.args:
            src = U(v.args[0])
        elif isinstance(v, ast.Name):
            src = v.id + '.keys()'
        elif isinstance(v, ast.Dict):
            src = '[%s]' % ', '.join(U(k) for k in v.keys)
        # self-referential table entries in the same branch: self.table[code(hw)] = (0, code(hw)) in a loop over C
        blk = _enclosing_branch(st, init.node)
        loops = [n for n in ast.walk(blk) if isinstance(n, ast.For)] if blk is not None else []
        feeders = set()
        for lp in loops:
            for a in ast.walk(lp):
                if isinstance(a, ast.Assign) and U(a.targets[0]).startswith('self.table[') and \
                        isinstance(a.value, ast.Tuple) and len(a.value.elts) == 2 and U(a.value.elts[0]) == '0':
                    key_t = U(a.targets[0].slice)
                    if U(a.value.elts[1]) == key_t:
                        it = U(lp.iter)
                        # unconditional in the loop, or guarded by membership in a collection
                        g = parent(a)
                        if isinstance(g, ast.If) and isinstance(g.test, ast.Compare) and isinstance(g.test.ops[0], ast.In):
                            feeders.add(U(g.test.comparators[0]))
                        else:
                            feeders.add(it)
        # the same entries written one by one for constant keys (an unrolled loop over a literal list)
        consts = []
        for a in (ast.walk(blk) if blk is not None else []):
            if isinstance(a, ast.Assign) and U(a.targets[0]).startswith('self.table[') and \
                    isinstance(a.value, ast.Tuple) and len(a.value.elts) == 2 and U(a.value.elts[0]) == '0' and \
                    isinstance(a.targets[0].slice, ast.Constant) and U(a.value.elts[1]) == U(a.targets[0].slice) and \
                    not any(isinstance(q, (ast.For, ast.While)) and q in loops for q in _ancestors(a, blk)):
                consts.append(U(a.targets[0].slice))
        if consts:
            feeders.add('[%s]' % ', '.join(consts))
        norm = lambda t: t.replace('self.', '').replace('.keys()', '').replace(' ', '')
        fset = {norm(x) for x in feeders}
        # alias: self.unique_variant_nonzero_header_words = variant_header_list / variant_header_dict.keys()
        aliases = {}
        for a in ast.walk(blk) if blk is not None else []:
            if isinstance(a, ast.Assign) and isinstance(a.targets[0], ast.Attribute):
                aliases[norm(U(a.targets[0]))] = norm(U(a.value))
        s0 = norm(src or '')
        cands = {s0, aliases.get(s0, s0)} | {k for k, v in aliases.items() if v == s0}
        if isinstance(v, ast.Dict) or _zip_dict(v) is not None:
            kk = v.keys if isinstance(v, ast.Dict) else _zip_dict(v)[0]
            lits = {norm('[%s]' % ', '.join(U(k) for k in kk))}
            ok = bool(fset & lits) or any(norm(x) == norm('[%s]' % ', '.join(U(k) for k in kk)) for x in feeders)
        else:
            ok = bool(fset & cands)
        label = 'headers_dict <- %s' % (src,)
        if ok:
            ctx.ok(rule, init, label, 'self-referential table entries are made for the same collection (%s)' % sorted(fset))
        else:
            ctx.fail(rule, init, st, 'headers_dict takes its keys from `%s` but the table marks %s as stored arrays: count, '
                     'table and arrays can disagree' % (src, sorted(feeders) or 'nothing'))
    if n_br < 4:
        raise AnalysisError('expected 4 constructor branches assigning headers_dict, found %d' % n_br)
    # removals
    n_del = 0
    for f in P.functions.values():
        for d in ast.walk(f.node):
            if isinstance(d, ast.Delete) and any('headers_dict[' in U(t) for t in d.targets):
                n_del += 1
                from ..iorules import block_of, precedes_in_block
                blk = block_of(d)
                paired = any(isinstance(s, ast.Expr) and isinstance(s.value, ast.Call) and
                             U(s.value.func).endswith('update_table') for s in blk)
                ffm = FactMap(f.node)
                # the re-writes of the count and of the table follow on every path to the footer write
                sites = [c for (g, c) in FT.footer_write_sites(P) if g is f]
                patches = [n for n in ast.walk(f.node) if isinstance(n, ast.Call) and isinstance(n.func, ast.Attribute)
                           and n.func.attr == 'seek' and n.args]
                offs = {TB.const_eval(P, f.module, n.args[0]) for n in patches}
                # the patches are later siblings of the (outermost) loop that performs the removals
                top = d
                q = parent(d)
                while q is not None and q is not f.node:
                    if isinstance(q, (ast.For, ast.While)):
                        top = q
                    q = parent(q)
                same = all(precedes_in_block(top, n) for n in patches) if top is not d else False
                after = True
                if paired and {64, 980} <= offs and same and after:
                    ctx.ok(rule, f, d, 'removal is paired with update_table and followed by the re-write of 64:68 and 980:2048')
                else:
                    ctx.fail(rule, f, d, 'a header array is removed %s%s' % (
                        '' if paired else 'without update_table ',
                        '' if {64, 980} <= offs and same and after else 'and the array count (64:68) / table (980:..) '
                        'are not both re-written afterwards on the same path'))
    if n_del < 1:
        raise AnalysisError('no removal from headers_dict found (the thorough re-classification)')


def _ancestors(node, stop):
    p = parent(node)
    while p is not None and p is not stop:
        yield p
        p = parent(p)


def _enclosing_branch(node, stop):
    """the outermost if-branch body (as a Module-like node) containing ``node`` below ``stop``."""
    p, child = parent(node), node
    top = None
    while p is not None and p is not stop:
        if isinstance(p, ast.If):
            top = (p, child)
        child, p = p, parent(p)
    if top is None:
        return None
    ifn, ch = top
    body = ifn.body if _in(node, ifn.body) else ifn.orelse
    m = ast.Module(body=body, type_ignores=[])
    return m


# ---------------------------------------------------------------------------
def _regex_numeric_groups(pattern):
    """[(group number, problem or None)] for the capturing groups of a regular expression that consist of a repeated digit
    class: a numeric component must be the WHOLE run of digits - a lazy quantifier (\\d+?) or a bounded one that is
    followed by something that can itself match a digit captures only a prefix of the number."""
    import re
    try:
        import re._parser as sre_parse
        import re._constants as sre_c
    except ImportError:          # Python < 3.11
        import sre_parse
        import sre_constants as sre_c
    tree = sre_parse.parse(pattern)
    items = list(tree)
    out = []

    def can_match_digit(op, av):
        name = str(op)
        if name == 'ANY':
            return True
        if name == 'IN':
            return any(str(o) == 'CATEGORY' and 'DIGIT' in str(a) and 'NOT' not in str(a) or str(o) == 'RANGE' and a[0] <= ord('5') <= a[1]
                       or str(o) == 'LITERAL' and chr(a).isdigit() for (o, a) in av)
        if name == 'LITERAL':
            return chr(av).isdigit()
        if name in ('MAX_REPEAT', 'MIN_REPEAT'):
            return any(can_match_digit(o, a) for (o, a) in av[2])
        if name == 'SUBPATTERN':
            return any(can_match_digit(o, a) for (o, a) in av[3][:1]) or (not list(av[3]))
        if name == 'AT':
            return False
        return True

    for i, (op, av) in enumerate(items):
        if str(op) != 'SUBPATTERN' or av[0] is None:
            continue
        inner = list(av[3])
        if len(inner) != 1 or str(inner[0][0]) not in ('MAX_REPEAT', 'MIN_REPEAT'):
            continue
        rop, (lo, hi, body) = inner[0][0], inner[0][1]
        body = list(body)
        if not (len(body) == 1 and str(body[0][0]) == 'IN' and any(str(o) == 'CATEGORY' and 'DIGIT' in str(a) and 'NOT' not in str(a)
                                                                    for (o, a) in body[0][1])):
            continue
        nxt = items[i + 1] if i + 1 < len(items) else None
        follows_digit = nxt is not None and can_match_digit(nxt[0], nxt[1])
        prob = None
        if str(rop) == 'MIN_REPEAT' and follows_digit:
            prob = 'is lazy and followed by a pattern that can match a digit: it captures only the first %d digit%s of the number' % (
                lo, '' if lo == 1 else 's')
        elif str(rop) == 'MAX_REPEAT' and hi != sre_c.MAXREPEAT and follows_digit:
            prob = 'takes at most %d digits and is followed by a pattern that can match a digit: longer numbers are cut' % hi
        out.append((av[0], prob))
    return out


def version_string(ctx, rule):
    """The string form of a version ('0.2.10', '0.2.10.dev3+g..') is turned into (major, minor, patch) by taking the
    integer value of each of the first three dot-separated fields as a whole.  Accepted: int(<parts>[k]) on a split('.') of
    the string; or groups of a regular expression that are complete digit runs (checked on the regex syntax tree)."""
    P = ctx.P
    # positive / negative control of the regex rule (it has no instance on a tree that splits the string)
    bad = _regex_numeric_groups(r'^(\d+)\.(\d+)\.(\d+?)(.*)$')
    good = _regex_numeric_groups(r'^(\d+)\.(\d+)\.(\d+)(.*)$')
    if not (len(bad) == 3 and bad[2][1] and not bad[0][1] and all(p_ is None for (_g, p_) in good) and len(good) == 3):
        raise AnalysisError('control of the version-string regex rule failed')
    cls = P.cls('version.SeismicZfpVersion')
    init = cls.methods['__init__']
    mod = init.module
    uses_re = [c for c in ast.walk(init.node) if isinstance(c, ast.Call) and isinstance(c.func, ast.Attribute) and
               c.func.attr in ('match', 'fullmatch', 'search')]
    if uses_re:
        for c in uses_re:
            pat = None
            recv = c.func.value
            if isinstance(recv, ast.Name) and recv.id in mod.const_nodes:
                cn = mod.const_nodes[recv.id]
                if isinstance(cn, ast.Call) and U(cn.func) in ('re.compile', 'compile') and cn.args and isinstance(cn.args[0], ast.Constant):
                    pat = cn.args[0].value
            elif U(recv) == 're' and c.args and isinstance(c.args[0], ast.Constant):
                pat = c.args[0].value
            if not isinstance(pat, str):
                raise AnalysisError('SeismicZfpVersion.__init__: the pattern of `%s` is not a literal' % U(c)[:50])
            groups = _regex_numeric_groups(pat)
            if len(groups) < 3:
                raise AnalysisError('SeismicZfpVersion.__init__: pattern %r has %d numeric groups, expected 3' % (pat, len(groups)))
            for (g, prob) in groups:
                if prob:
                    ctx.fail(rule, init, enclosing_stmt(c), 'version strings are parsed with %r: group %d %s - e.g. patch 10 is read as 1, '
                             'the file is stamped with another version and the version gates of the reader pick the wrong layout' % (
                                 pat, g, prob), line=c.lineno, key_extra='group%d' % g)
                else:
                    ctx.ok(rule, init, 'regex group %d' % g, 'a complete run of digits')
        return
    # split('.') form: int(parts[k]) for k = 0, 1, 2 of one split of the argument
    comps = {}
    for a in ast.walk(init.node):
        if isinstance(a, ast.Assign) and U(a.targets[0]) in ('self.major', 'self.minor', 'self.patch') and \
                isinstance(a.value, ast.Call) and U(a.value.func) == 'int' and a.value.args and isinstance(a.value.args[0], ast.Subscript) and \
                isinstance(a.value.args[0].slice, ast.Constant):
            comps[U(a.targets[0])] = (U(a.value.args[0].value), a.value.args[0].slice.value)
    if len(comps) == 3:
        srcs = {v[0] for v in comps.values()}
        idx = [comps[k][1] for k in ('self.major', 'self.minor', 'self.patch')]
        src_def = [d for d in ast.walk(init.node) if isinstance(d, ast.Assign) and U(d.targets[0]) in srcs]
        if len(srcs) == 1 and idx == [0, 1, 2] and src_def and ".split('.')" in U(src_def[0].value).replace('"', "'"):
            ctx.ok(rule, init, src_def[0], 'major, minor, patch = int() of the first three dot-separated fields')
            return
        ctx.fail(rule, init, (src_def or [init.node.body[0]])[0], 'major / minor / patch are not int() of fields 0, 1, 2 of one split of '
                 'the version string (%s)' % comps)
        return
    raise AnalysisError('SeismicZfpVersion.__init__: how the version string is split was not recognised')


def check_version(ctx, rule):
    P, G = ctx.P, ctx.G
    version_string(ctx, rule)
    cls = P.cls('version.SeismicZfpVersion')
    enc = cls.methods.get('to_encoding')
    init = cls.methods.get('__init__')
    if enc is None or init is None:
        raise AnalysisError('SeismicZfpVersion.to_encoding / __init__ not found')
    from ..algebra import Atoms
    T = Atoms()
    atoms = {'self.major': T.declare('major', 0, None), 'self.minor': T.declare('minor', 0, None),
             'self.patch': T.declare('patch', 0, None)}

    def ev(e):
        if isinstance(e, ast.Constant) and isinstance(e.value, int):
            return C(e.value)
        if U(e) in atoms:
            return atoms[U(e)]
        if isinstance(e, ast.BinOp):
            l, r = ev(e.left), ev(e.right)
            if l is None or r is None:
                return None
            if isinstance(e.op, ast.Add):
                return l + r
            if isinstance(e.op, ast.Sub):
                return l - r
            if isinstance(e.op, ast.Mult):
                return l * r
        return None
    assigns = [n for n in ast.walk(enc.node) if isinstance(n, ast.Assign) and U(n.targets[0]) == 'encoding']
    if len(assigns) != 1:
        raise AnalysisError('to_encoding: expected one assignment of `encoding`')
    poly = ev(assigns[0].value)
    if poly is None:
        raise AnalysisError('to_encoding: cannot normalise `%s`' % U(assigns[0].value))
    coef = {a: poly.coeff_of(((a, 1),)) for a in ('major', 'minor', 'patch')}
    const = poly.coeff_of(())
    want = {'major': 2 ** 21, 'minor': 2 ** 11, 'patch': 2}
    if coef == want and const == 1 and len(poly.t) == 4:
        ctx.ok(rule, enc, assigns[0], 'coefficients (major, minor, patch, released) = (2^21, 2^11, 2, 1): radices '
               '(1024, 1024, 2), a bijection that preserves release order for minor, patch < 1024',
               sample={'normal_form': repr(poly)})
    else:
        ctx.fail(rule, enc, assigns[0], 'version encoding %r is not the mixed-radix numeral 2^21*major + 2^11*minor + '
                 '2*patch + 1: it is not a bijection / does not preserve release order' % (poly,))
    # dev flag: `if self.changes_exist: encoding -= 1`
    aug = [n for n in ast.walk(enc.node) if isinstance(n, ast.AugAssign) and U(n.target) == 'encoding']
    if len(aug) == 1 and isinstance(aug[0].op, ast.Sub) and U(aug[0].value) == '1' and \
            isinstance(parent(aug[0]), ast.If) and U(parent(aug[0]).test) == 'self.changes_exist':
        ctx.ok(rule, enc, aug[0], 'an unreleased build is the numeral minus one (even), a release is odd')
    else:
        ctx.fail(rule, enc, enc.name, 'the released/dev bit of the encoding is not `encoding -= 1 if changes_exist`')
    # integer decoder uses the same radices
    dec = {}
    for n in ast.walk(init.node):
        if isinstance(n, ast.Assign) and U(n.targets[0]) in ('self.major', 'self.minor', 'self.patch') and \
                isinstance(n.value, ast.BinOp) and isinstance(n.value.op, ast.FloorDiv):
            d = ev(n.value.right)
            dec[U(n.targets[0]).split('.')[1]] = (n, d.const_value() if d is not None and d.is_const() else None)
    for k in ('major', 'minor', 'patch'):
        if k not in dec:
            raise AnalysisError('integer decoder of SeismicZfpVersion: no floor division for %s' % k)
        n, d = dec[k]
        if d == want[k]:
            # subtracted part must use the higher fields with their radices
            ctx.ok(rule, init, n, 'decoder divides by %d = coefficient of %s in the encoding' % (d, k))
        else:
            ctx.fail(rule, init, n, 'decoder extracts %s with // %s but the encoder multiplies it by %d' % (k, d, want[k]))
    # the subtractions in the decoder
    for k, higher in (('minor', ['major']), ('patch', ['major', 'minor'])):
        n, d = dec[k]
        num = n.value.left
        # num = arg - major*c1 [- minor*c2]
        p = ev_arg(num)
        ok = p is not None and all(p.get(h) == -want[h] for h in higher) and p.get('arg') == 1
        if ok:
            ctx.ok(rule, init, n, 'decoder subtracts the higher digits with their own weights before dividing')
        else:
            ctx.fail(rule, init, n, 'decoder of %s does not subtract %s with the encoder\'s weights' % (k, higher))
    # comparisons go through the encoding
    for m in ('__gt__', '__eq__'):
        f = cls.methods.get(m)
        if f is None:
            ctx.fail(rule, enc, m, 'SeismicZfpVersion has no %s' % m)
            continue
        rets = [n for n in ast.walk(f.node) if isinstance(n, ast.Return)]
        ok = len(rets) == 1 and isinstance(rets[0].value, ast.Compare) and \
            U(rets[0].value.left) == 'self.encoding' and U(rets[0].value.comparators[0]) == f.params[1] + '.encoding' and \
            isinstance(rets[0].value.ops[0], ast.Gt if m == '__gt__' else ast.Eq)
        if ok:
            ctx.ok(rule, f, rets[0], '%s compares the encodings of both operands' % m)
        else:
            ctx.fail(rule, f, rets[0] if rets else m, '%s does not compare self.encoding with other.encoding' % m)
    # every gate compares SeismicZfpVersion objects
    n_g = 0
    for f in P.functions.values():
        for n in ast.walk(f.node):
            if isinstance(n, ast.Compare) and 'file_version' in U(n):
                n_g += 1
                sides = [n.left] + n.comparators
                if all('file_version' in U(s) or (isinstance(s, ast.Call) and U(s.func).endswith('SeismicZfpVersion'))
                       for s in sides) and all(isinstance(o, (ast.Gt, ast.Eq)) for o in n.ops):
                    ctx.ok(rule, f, n, 'version gate compares SeismicZfpVersion objects with a defined operator')
                else:
                    ctx.fail(rule, f, enclosing_stmt(n), 'version gate `%s` does not compare SeismicZfpVersion objects through '
                             '__gt__/__eq__ (string/tuple comparison, or an operator the class does not define)' % U(n))
    if n_g < 2:
        raise AnalysisError('expected the two version gates of the reader, found %d' % n_g)
    # the stamp: bytes 72:76 receive version.encoding of SeismicZfpVersion(<installed version>)
    ht = ctx.ht
    for s in ht.stores:
        if s.lo == 72:
            ok = U(s.value).endswith('.encoding')
            if ok:
                ctx.ok(rule, s.func, s.stmt, 'the stamped value is the encoding of a SeismicZfpVersion')
            else:
                ctx.fail(rule, s.func, s.stmt, 'bytes 72:76 receive `%s`, not a SeismicZfpVersion encoding' % U(s.value))
    for s in ht.loads:
        if s.lo == 72:
            p = parent(s.value)
            ok = isinstance(p, ast.Call) and U(p.func).endswith('SeismicZfpVersion')
            if ok:
                ctx.ok(rule, s.func, s.stmt, 'the stored integer is decoded by SeismicZfpVersion(int)')
            else:
                ctx.fail(rule, s.func, s.stmt, 'bytes 72:76 are not decoded through SeismicZfpVersion')


def ev_arg(e):
    """linear form of the decoder numerators: {'arg': c, 'major': c, 'minor': c}"""
    out = {}

    def go(x, sign):
        if isinstance(x, ast.BinOp) and isinstance(x.op, ast.Sub):
            go(x.left, sign)
            go(x.right, -sign)
            return True
        if isinstance(x, ast.BinOp) and isinstance(x.op, ast.Add):
            go(x.left, sign)
            go(x.right, sign)
            return True
        if isinstance(x, ast.Name):
            out[x.id] = out.get(x.id, 0) + sign
            return True
        if isinstance(x, ast.BinOp) and isinstance(x.op, ast.Mult):
            names = [n for n in ast.walk(x) if isinstance(n, ast.Attribute)]
            consts = 1
            ok = True
            for c in ast.walk(x):
                if isinstance(c, ast.Constant):
                    consts *= c.value
            if len(names) == 1:
                k = names[0].attr
                out[k] = out.get(k, 0) + sign * consts
                return True
        return False
    go(e, 1)
    return out
