"""C04 - trace-header and file-header preservation through compression."""
import ast
RF_READER = 'read.SgzReader'
import os
import re
from ..core import U, AnalysisError, parent, enclosing_stmt
from ..facts import FactMap
from .. import producers as PR
from .. import capture as CAP
from .. import footer as FT
from .. import iorules as IO
from .c11 import allocation
from .c01 import fillers_of
from .c03 import check_pairing

PROP = 'C04'
TECHNIQUE = ('static analysis: extraction of the header byte tables and codecs; def-use wiring of the size slots; role-tagged '
             'polynomial evaluation of the size formulas; abstract interpretation of the header-word classification')
EXPLANATION = (
    'C04.1 footer element type: every array serialised into the footer by any writer is int32 on every path - '
    'provenance of each headers_dict value (np.zeros dtype int32/intc, np.frombuffer int32, .astype(int32/intc), '
    'linspace dtype intc) through constructors, parameters and the converter that builds the dictionary; caller '
    'arrays must be cast. C04.2 write order = table order: every dictionary whose values are written to the footer is '
    'in ascending header-word order when written (sorted construction, ascending literal, slice of the TraceField '
    'enumeration parsed from the installed segyio/tracefield.py; an insertion after sorting un-sorts it unless it is '
    're-sorted). C04.3 allocation: arrays are allocated for the output grid (see C11.2). C04.4 frame consistency of '
    'header capture in the plane reader (FILE vs WINDOW frame polynomials). C04.5 file header: 3600 bytes are read '
    'from offset 0 of the source into [DISK_BLOCK_BYTES, +3600) and split by the reader at +3200. C04.6 array count, '
    'table and arrays move together (C03.6).')
EXPLANATION += (
    " ADDED: C04.7 (heuristic detection, abstract interpretation over the five (first trace, last trace) classes of a header field: constant zero, constant non-zero, zero->non-zero, non-zero->zero, two different non-zero values): the helper lists of HeaderwordInfo are evaluated as predicates; the varying base of the stored-array list and of the duplicate finder is exactly the three varying classes, the table constants exactly the constant non-zero class. C04.8: both converters write the footer at the reader's stride and in table order (rule of C03.5). C04.4 also covers the reduced-I/O reader: it is addressed by window-local line ordinals, so every path on which it survives must establish source line count == window line count on both axes; the plane read on each side of `i < planes_to_read` is ordinal i / the last real ordinal."
)
EXPLANATION += (
    ' C04.9: every decode of bytes fetched from a footer array (range read at a template FileOffset) is a signed 32-bit decode (np.frombuffer int32 or the signed codec).'
)
EXPLANATION += (
    ' C04.11 - the header arrays are found behind the data section, so the data-section size the fresh header states must be that of the blocks written: rate * prod over the axes of (count padded to the blockshape component of the same axis) / (8*DISK); formulas over a local chosen per geometry are evaluated per arm, products over a display are written out (rule of C03.4 / C19.5).'
)
ASSUMPTIONS = [
    'segyio returns what the file holds; segyio.TraceField enumerates the 89 SEG-Y trace header fields in ascending byte order',
    'the reader assigns footer offsets in the order of the header-word table, which lists the fields in ascending order',
]
NOT_DECIDED = ('The heuristic classification\'s value-dependent conditions (which fields count as variant); 2- vs 4-byte field '
               'extremes; equality of every header value read back (needs execution).')

INT32 = ('np.int32', 'np.intc', 'numpy.int32', 'numpy.intc', "'int32'", "'intc'", 'int32', 'intc')


def is_int32_expr(f, e, depth=0):
    """True / False / None(unknown) : does the expression certainly produce an int32 array?"""
    if depth > 6 or e is None:
        return None
    if isinstance(e, ast.Call):
        fn = U(e.func)
        last = fn.split('.')[-1]
        kw = {k.arg: U(k.value) for k in e.keywords}
        if last == 'astype' and e.args:
            return U(e.args[0]) in INT32
        if last in ('zeros', 'ones', 'empty', 'full', 'linspace', 'arange', 'frombuffer', 'fromiter', 'array', 'asarray'):
            dt = kw.get('dtype') or (U(e.args[1]) if last in ('zeros', 'ones', 'empty', 'frombuffer') and len(e.args) > 1 else None)
            if dt is None:
                return False if last in ('zeros', 'ones', 'empty', 'full', 'linspace', 'arange') else None
            return dt in INT32
        if last in ('reshape', 'flatten', 'copy', 'ravel', 'squeeze') and isinstance(e.func, ast.Attribute):
            return is_int32_expr(f, e.func.value, depth + 1)
        if last == 'broadcast_to' and e.args:
            return is_int32_expr(f, e.args[0], depth + 1)
        # a helper of the same module / class: what it returns
        tgt = None
        if isinstance(e.func, ast.Name):
            tgt = f.module.functions.get(e.func.id)
        elif isinstance(e.func, ast.Attribute) and isinstance(e.func.value, ast.Name) and f.cls is not None and \
                e.func.value.id in ('self', 'cls', f.cls.name):
            tgt = f.cls.find_method(e.func.attr)
        if tgt is not None and tgt is not f:
            rets = [r for r in ast.walk(tgt.node) if isinstance(r, ast.Return) and r.value is not None]
            if rets and not isinstance(rets[0].value, ast.Tuple):
                rs = [is_int32_expr(tgt, r.value, depth + 1) for r in rets]
                if all(x is True for x in rs):
                    return True
                if any(x is False for x in rs):
                    return False
        return None
    if isinstance(e, ast.Subscript):
        return is_int32_expr(f, e.value, depth + 1)
    if isinstance(e, ast.Name):
        use_line = getattr(e, 'lineno', 10 ** 9)
        defs = [n for n in ast.walk(f.node) if isinstance(n, ast.Assign) and any(
            isinstance(t, ast.Name) and t.id == e.id for t in n.targets) and n.lineno < use_line]
        tup = [n for n in ast.walk(f.node) if isinstance(n, ast.Assign) and isinstance(n.targets[0], ast.Tuple) and
               any(isinstance(t, ast.Name) and t.id == e.id for t in n.targets[0].elts) and n.lineno < use_line]
        # straight-line code: the latest definition before the use is the one in force
        alld = sorted(defs + tup, key=lambda n: n.lineno)
        if alld:
            last = alld[-1]
            defs = [last] if last in defs else []
            tup = [last] if last in tup else []
        res = []
        for d in defs:
            res.append(is_int32_expr(f, d.value, depth + 1))
        for d in tup:
            # meshgrid(a, b) keeps the dtype of its inputs
            if isinstance(d.value, ast.Call) and U(d.value.func).split('.')[-1] == 'meshgrid':
                res.append(all(is_int32_expr(f, a, depth + 1) is True for a in d.value.args) or None)
            else:
                res.append(None)
        if not res:
            return None
        if all(r is True for r in res):
            return True
        if any(r is False for r in res):
            return False
        return None
    return None


def run(ctx):
    P, G = ctx.P, ctx.G
    ctx.rule('C04.1', 'every array serialised into the footer is int32 on every path')
    ctx.rule('C04.2', 'dictionaries written to the footer are in ascending header-word order')
    ctx.rule('C04.3', 'header arrays are allocated for the output grid')
    ctx.rule('C04.4', 'frame consistency of header capture (FILE vs WINDOW frame)')
    ctx.rule('C04.5', 'the 3600-byte SEG-Y file header is copied from offset 0 into its slot')
    ctx.rule('C04.6', 'array count, table and arrays move together (C03.6)')
    dtypes(ctx)
    order(ctx)
    allocation(ctx, 'C04.3')
    pl, prods = PR.producers(P, G)
    for pr in prods:
        fl, bufs = fillers_of(P, G, pr)
        for (t, bp, e) in fl:
            if 'planes_to_read' in t.params and 'geom' in t.params:
                CAP.check_plane_reader(ctx, 'C04.4', t)
                CAP.check_reduced_reader(ctx, 'C04.4', pr.func, t, e)
    ctx.floor('C04.4', 8)
    file_header(ctx)
    check_pairing(ctx, 'C04.6')
    classification(ctx)
    footer_decode(ctx)
    ctx.rule('C04.8', 'footer arrays of both converters are written at the stride and in the order the reader derives')
    from .. import headerrules as HR
    from .c03 import check_footer
    check_footer(ctx, HR.HeaderTable(P, G), 'C04.8', select=lambda f: f.module.name == 'conversion' and f.name == 'write_headers' and 'Sgz' not in (f.cls.name if f.cls else ''))
    ctx.floor('C04.8', 2, 'write_headers of the two converters')
    ctx.rule('C04.10', 'the reader looks for stored header array j at 512*(header blocks + data blocks) + j*stride, '
             'with every quantity taken from the header slot of that role')
    from .. import wiring as WR
    ht = HR.HeaderTable(P, G)
    roles = WR.footer_location(ctx, ht, 'C04.10')
    WR.size_attr_uses(ctx, ht, 'C04.10', roles)
    ctx.floor('C04.10', 7, 'wiring facts')
    # the stored header arrays are looked up behind the data section: the size the fresh header states for it must be that
    # of the blocks written (per axis: count padded to the blockshape component of that axis)
    ctx.rule('C04.11', 'the data-section size stated by the fresh header (which locates the header arrays) pads every axis to its own blockshape component')
    from .c03 import check_sizes
    check_sizes(ctx, ht, 'C04.11', select=lambda f: f.module.name == 'conversion_utils')
    ctx.floor('C04.11', 2, 'size formulas of the fresh-header writer (3D and 2D branch)')


def _zip_dict(v):
    """dict(zip(<literal keys>, <values>)) -> (key nodes, values expr) or None"""
    if isinstance(v, ast.Call) and U(v.func) == 'dict' and len(v.args) == 1 and not v.keywords:
        z = v.args[0]
        if isinstance(z, ast.Call) and U(z.func) == 'zip' and len(z.args) == 2 and isinstance(z.args[0], (ast.Tuple, ast.List)):
            return z.args[0].elts, z.args[1]
    return None


def headers_dict_stores(P, G=None):
    """every store that puts a value into a headers_dict (attribute or local alias) -> [(func, node, value expr, kind)].
    A dictionary built by a helper (`self.headers_dict = self.helper(..)`, the helper returns a local) is followed
    into the helper: the stores to that local count as stores to the dictionary, in the helper's own scope."""
    out = []
    seen_helpers = set()
    for f in P.functions.values():
        for n in ast.walk(f.node):
            if isinstance(n, ast.Assign):
                t = n.targets[0]
                if isinstance(t, ast.Subscript) and 'headers_dict' in U(t.value):
                    out.append((f, n, n.value, 'item'))
                elif isinstance(t, ast.Attribute) and t.attr == 'headers_dict':
                    h = _dict_helper(G, f, n.value) if G is not None else None
                    if h is None:
                        out.append((f, n, n.value, 'whole'))
                        continue
                    g, local = h
                    for m in ast.walk(g.node):
                        if isinstance(m, ast.Assign) and len(m.targets) == 1:
                            t2 = m.targets[0]
                            if isinstance(t2, ast.Name) and t2.id == local:
                                # the branch of the caller stays the anchor of the finding; the value is the helper's
                                out.append((f, n, m.value, 'whole'))
                            elif isinstance(t2, ast.Subscript) and U(t2.value) == local and g.qualname not in seen_helpers \
                                    and 'headers_dict' not in local:
                                out.append((g, m, m.value, 'item'))
                    seen_helpers.add(g.qualname)
    return out


def _dict_helper(G, f, v):
    """(helper function, name of the local it returns) when v is a call of a package function that returns a local"""
    if not isinstance(v, ast.Call):
        return None
    for e in G.edges_at(f, v):
        if e.target is None or e.kind != 'direct':
            continue
        rets = [r for r in ast.walk(e.target.node) if isinstance(r, ast.Return)]
        if len(rets) == 1 and isinstance(rets[0].value, ast.Name):
            return e.target, rets[0].value.id
    return None


def dtypes(ctx):
    P, G = ctx.P, ctx.G
    sites = FT.footer_write_sites(P)
    if len(sites) < 4:
        raise AnalysisError('footer write sites: found %d, floor 4' % len(sites))
    # (1) values stored into headers_dict anywhere
    for (f, n, v, kind) in headers_dict_stores(P, G):
        if kind == 'item':
            r = is_int32_expr(f, v)
            if r is None and isinstance(v, ast.Name):
                r = _from_method_return(P, G, f, v.id)      # one of the arrays a helper returns as a tuple
            if r is True:
                ctx.ok('C04.1', f, n, 'stored array is int32')
            else:
                ctx.fail('C04.1', f, n, 'a header array of %s dtype is stored for the footer: the reader decodes 4-byte integers' % (
                    'non-int32' if r is False else 'unknown'))
        else:
            if isinstance(v, ast.Dict):
                for k, val in zip(v.keys, v.values):
                    r = is_int32_expr(f, val)
                    # values returned by a helper of the same class
                    if r is None and isinstance(val, ast.Name):
                        r = _from_method_return(P, G, f, val.id)
                    if r is True:
                        ctx.ok('C04.1', f, '%s: %s' % (U(k), U(val)), 'int32 array')
                    else:
                        ctx.fail('C04.1', f, n, 'headers_dict[%s] = %s is not known to be int32' % (U(k), U(val)), key_extra=U(k))
            elif isinstance(v, ast.Call) and 'fromkeys' in U(v.func):
                ctx.ok('C04.1', f, n, 'keys only; values are stored by the item stores checked above', nontrivial=False)
            elif _zip_dict(v) is not None:
                keys, vals = _zip_dict(v)
                r = None
                if isinstance(vals, ast.Call):
                    for e in G.edges_at(f, vals):
                        if e.target is not None:
                            rets = [x for x in ast.walk(e.target.node) if isinstance(x, ast.Return) and isinstance(x.value, ast.Tuple)]
                            if rets and all(len(x.value.elts) == len(keys) for x in rets):
                                r = all(is_int32_expr(e.target, el) is True for x in rets for el in x.value.elts)
                elif isinstance(vals, (ast.Tuple, ast.List)) and len(vals.elts) == len(keys):
                    r = all(is_int32_expr(f, el) is True or (isinstance(el, ast.Name) and _from_method_return(P, G, f, el.id))
                            for el in vals.elts)
                if r:
                    ctx.ok('C04.1', f, n, 'dict(zip(keys, arrays)): every array is int32')
                else:
                    ctx.fail('C04.1', f, n, 'headers_dict = `%s`: the zipped arrays are not known to be int32' % U(v)[:50])
            elif isinstance(v, ast.Name) and v.id in f.params:
                # a caller-supplied dictionary: every caller must hand over int32 arrays
                for e in G.callers(f):
                    if v.id in e.binding:
                        check_caller_dict(ctx, e.caller, e.binding[v.id], e)
            else:
                ctx.fail('C04.1', f, n, 'headers_dict is assigned `%s`, whose element type is unknown' % U(v)[:50])
    # (2) the readers' own arrays (cropper / re-blocker) come from frombuffer int32 or are cast
    for (f, call) in sites:
        if f.module.name in ('cropping',) or 'adv' in f.name:
            arr = [x for x in ast.walk(call.args[0]) if isinstance(x, ast.Attribute) and x.attr == 'tobytes']
            srcs = []
            fm_names = {n.id for n in ast.walk(call.args[0]) if isinstance(n, ast.Name)}
            expr = arr[0].value if arr else None
            if expr is None:
                for nm in fm_names:
                    for d in ast.walk(f.node):
                        if isinstance(d, ast.Assign) and U(d.targets[0]) == nm:
                            a2 = [x for x in ast.walk(d.value) if isinstance(x, ast.Attribute) and x.attr == 'tobytes']
                            if a2:
                                expr = a2[0].value
            r = is_int32_expr(f, expr) if expr is not None else None
            chain_vh = expr is not None and any(
                isinstance(x, ast.Attribute) and x.attr == 'variant_headers' and U(x.value) == 'self'
                for e2 in FT._def_chain(f, expr) for x in ast.walk(e2))
            if r is None and expr is not None and ('variant_headers' in U(expr) or _loops_variant_headers(f, expr)
                                                   or chain_vh):
                # values of self.variant_headers: np.frombuffer(.., dtype=np.int32) in read_variant_headers
                rv = P.func('read.SgzReader.read_variant_headers')
                fb = [c for c in ast.walk(rv.node) if isinstance(c, ast.Call) and U(c.func).endswith('frombuffer')]
                r = bool(fb) and all(is_int32_expr(rv, c) is True for c in fb)
            if r is True:
                ctx.ok('C04.1', f, call, 'array written is int32 (frombuffer int32 / cast)')
            else:
                ctx.fail('C04.1', f, enclosing_stmt(call), 'the array written to the footer is not known to be int32', line=call.lineno)
    ctx.floor('C04.1', 8)


def _loops_variant_headers(f, expr):
    if not isinstance(expr, ast.Name):
        return False
    for lp in ast.walk(f.node):
        if isinstance(lp, ast.For) and expr.id in U(lp.target) and 'variant_headers' in U(lp.iter):
            return True
    return False


def _from_method_return(P, G, f, name):
    """name is bound from a tuple-returning helper: check the returned expressions position-wise."""
    for d in ast.walk(f.node):
        if isinstance(d, ast.Assign) and isinstance(d.targets[0], ast.Tuple) and isinstance(d.value, ast.Call):
            names = [U(t) for t in d.targets[0].elts]
            if name in names:
                idx = names.index(name)
                for e in G.edges_at(f, d.value):
                    if e.target is not None:
                        rets = [r for r in ast.walk(e.target.node) if isinstance(r, ast.Return) and isinstance(r.value, ast.Tuple)]
                        if rets and all(len(r.value.elts) == len(names) for r in rets):
                            return all(is_int32_expr(e.target, r.value.elts[idx]) is True for r in rets) or None
    return None


def _local_dict_build(f, v):
    """a dictionary built into a local and then stored whole:  d = OrderedDict(); for k, a in sorted(src.items()): d[k] = g(a);
    self.attr = d   ->  (loop iterables, item values) or None"""
    if not isinstance(v, ast.Name):
        return None
    inits = [a for a in ast.walk(f.node) if isinstance(a, ast.Assign) and len(a.targets) == 1 and U(a.targets[0]) == v.id]
    if len(inits) != 1:
        return None
    iv = inits[0].value
    empty = (isinstance(iv, ast.Dict) and not iv.keys) or (isinstance(iv, ast.Call) and not iv.args and not iv.keywords and
                                                         U(iv.func).split('.')[-1] in ('dict', 'OrderedDict'))
    if not empty:
        return None
    iters, vals = [], []
    for a in ast.walk(f.node):
        if isinstance(a, ast.Assign) and isinstance(a.targets[0], ast.Subscript) and U(a.targets[0].value) == v.id:
            q = parent(a)
            while q is not None and q is not f.node and not isinstance(q, ast.For):
                q = parent(q)
            if not isinstance(q, ast.For):
                return None
            iters.append(q.iter)
            vals.append(a.value)
    return (iters, vals) if vals else None


def check_caller_dict(ctx, caller, expr, edge):
    """the dictionary handed to HeaderwordInfo(variant_header_dict=...) holds int32 arrays: its last construction in the
    owning class casts every value."""
    P = ctx.P
    if not (isinstance(expr, ast.Attribute) and U(expr.value) == 'self' and caller.cls is not None):
        ctx.fail('C04.1', caller, enclosing_stmt(edge.call), 'header dictionary `%s` of unknown provenance reaches the footer' % U(expr))
        return
    attr = expr.attr
    stores = P.attr_stores_mro(caller.cls, attr)
    whole = [(f, st, v) for (f, st, v) in stores if v is not None]
    # item stores self.<attr>[k] = v
    items = []
    for m in caller.cls.methods.values():
        for n in ast.walk(m.node):
            if isinstance(n, ast.Assign) and isinstance(n.targets[0], ast.Subscript) and U(n.targets[0].value) == 'self.' + attr:
                items.append((m, n))
    if not whole:
        ctx.fail('C04.1', caller, enclosing_stmt(edge.call), 'self.%s is never constructed' % attr)
        return
    f, st, v = max(whole, key=lambda x: x[1].lineno)
    cast = False
    built = _local_dict_build(f, v)
    if built is not None:
        # every value stored into the local dictionary is cast
        cast = all(any(isinstance(n, ast.Call) and isinstance(n.func, ast.Attribute) and n.func.attr == 'astype' and n.args and
                       U(n.args[0]) in INT32 for n in ast.walk(x)) for x in built[1])
    for n in ast.walk(v):
        if isinstance(n, ast.Call) and isinstance(n.func, ast.Attribute) and n.func.attr == 'astype' and n.args and \
                U(n.args[0]) in INT32:
            cast = True
    late_items = [(m, n) for (m, n) in items if m is f and n.lineno > st.lineno or m is not f and m.name != '__init__']
    if cast and not late_items:
        ctx.ok('C04.1', f, st, 'every value of self.%s is cast to int32 by its final construction' % attr)
    elif not cast:
        ctx.fail('C04.1', f, st, 'caller-supplied header arrays (and the int64 np.arange defaults) reach the footer with their '
                 'own dtype: self.%s is never cast to int32' % attr)
    else:
        ctx.fail('C04.1', late_items[0][0], late_items[0][1], 'an array is inserted into self.%s after the int32 cast' % attr)


def order(ctx):
    """C04.2"""
    P, G = ctx.P, ctx.G
    hw = P.func('headers.HeaderwordInfo.__init__')
    # (a) heuristic branch: list returned by a method whose return is sorted by header code
    n = 0
    for (f, node, v, kind) in headers_dict_stores(P, G):
        if kind != 'whole':
            continue
        n += 1
        if isinstance(v, ast.Call) and 'fromkeys' in U(v.func) and v.args:
            src = U(v.args[0])
            # what is it bound to in this branch?
            defs = [a for a in ast.walk(f.node) if isinstance(a, ast.Assign) and U(a.targets[0]) == src]
            from .c03 import _in
            blk = _innermost_branch(node, f.node)
            local = [a for a in defs if blk is not None and _in(a, blk)]
            if not local:
                ctx.fail('C04.2', f, node, 'cannot find what `%s` is bound to on this branch' % src)
                continue
            d = local[-1].value
            if isinstance(d, ast.Call):
                es = [e for e in G.edges_at(f, d) if e.target is not None]
                if es:
                    t = es[0].target
                    rets = [r for r in ast.walk(t.node) if isinstance(r, ast.Return)]
                    ok = rets and all('sorted(' in U(r.value) and 'code' in U(r.value) for r in rets)
                    if ok:
                        ctx.ok('C04.2', f, node, 'keys come from %s(), which returns them sorted by header code' % t.name)
                    else:
                        ctx.fail('C04.2', f, node, 'keys come from %s(), whose result is not sorted by header code' % t.name)
                    continue
            if _sorted_by_code(f, d):
                ctx.ok('C04.2', f, node, 'keys are the second components of sorted(zip(codes, words)): ascending header code')
                continue
            if isinstance(d, ast.Name) and d.id in f.params:
                # caller-supplied list: every caller passes a slice of the TraceField enumeration or []
                for e in G.callers(f):
                    if d.id in e.binding:
                        a = e.binding[d.id]
                        txt = U(a)
                        if txt == '[]' or re.fullmatch(r'segyio\.(tracefield\.)?TraceField\.enums\(\)(\[\d*:\d*\])?', txt):
                            ctx.ok('C04.2', e.caller, a, 'list is %s (ascending)' % txt)
                        else:
                            ctx.fail('C04.2', e.caller, enclosing_stmt(e.call), 'variant_header_list `%s` is not known to be in ascending '
                                     'header-word order' % txt, line=e.call.lineno)
                continue
            ctx.fail('C04.2', f, node, 'order of `%s` is unknown' % src)
        elif _zip_dict(v) is not None:
            kn = _zip_dict(v)[0]
            keys = [k.value for k in kn if isinstance(k, ast.Constant)]
            if len(keys) == len(kn) and keys == sorted(keys):
                ctx.ok('C04.2', f, node, 'dict(zip(..)) lists its literal keys ascending %s' % keys)
            else:
                ctx.fail('C04.2', f, node, 'keys %s of dict(zip(..)) are not ascending literals' % [U(k) for k in kn])
        elif isinstance(v, ast.Dict):
            keys = [k.value for k in v.keys if isinstance(k, ast.Constant)]
            if len(keys) == len(v.keys) and keys == sorted(keys):
                ctx.ok('C04.2', f, node, 'literal dictionary lists its keys ascending %s' % keys)
            else:
                ctx.fail('C04.2', f, node, 'literal dictionary keys %s are not ascending' % [U(k) for k in v.keys])
        elif isinstance(v, ast.Name) and v.id in f.params:
            for e in G.callers(f):
                if v.id in e.binding:
                    check_caller_order(ctx, e.caller, e.binding[v.id], e)
        else:
            ctx.fail('C04.2', f, node, 'order of `%s` is unknown' % U(v)[:40])
    if n < 4:
        raise AnalysisError('headers_dict constructions: found %d, floor 4' % n)
    # the enumeration itself is ascending in the installed segyio
    tf = segyio_tracefield_codes()
    if tf is None:
        ctx.notes.append('segyio/tracefield.py not found: ascending order of TraceField.enums() is assumed')
    elif tf == sorted(tf) and len(tf) >= 89:
        ctx.ok('C04.2', None, 'segyio.TraceField', 'the installed enumeration lists %d fields in ascending byte order' % len(tf),
               nontrivial=False)
    else:
        ctx.fail('C04.2', None, 'segyio.TraceField', 'the installed segyio TraceField enumeration is not ascending')


def _sorted_by_code(f, d):
    """[w for (_, w) in sorted(zip(C, W))] with C the header codes of the words W (element-wise map over W)."""
    if not (isinstance(d, ast.ListComp) and len(d.generators) == 1 and not d.generators[0].ifs):
        return False
    g = d.generators[0]
    if not (isinstance(g.target, ast.Tuple) and len(g.target.elts) == 2 and U(d.elt) == U(g.target.elts[1])):
        return False
    it = g.iter
    if not (isinstance(it, ast.Call) and U(it.func) == 'sorted' and len(it.args) == 1 and not it.keywords):
        return False
    z = it.args[0]
    if not (isinstance(z, ast.Call) and U(z.func) == 'zip' and len(z.args) == 2):
        return False
    codes, words = z.args

    def resolve(e):
        if isinstance(e, ast.Name):
            defs = [a for a in ast.walk(f.node) if isinstance(a, ast.Assign) and len(a.targets) == 1 and U(a.targets[0]) == e.id]
            if len(defs) == 1:
                return defs[0].value
        return e
    c = resolve(codes)
    if not (isinstance(c, ast.ListComp) and len(c.generators) == 1 and not c.generators[0].ifs):
        return False
    if U(c.generators[0].iter) != U(words) and U(resolve(c.generators[0].iter)) != U(resolve(words)):
        return False
    t = U(c.elt)
    return ('tracefield.keys[' in t or '_get_hw_code(' in t) and U(c.generators[0].target) in t


def _innermost_branch(node, stop):
    p, child = parent(node), node
    while p is not None and p is not stop:
        if isinstance(p, ast.If):
            return p.body if child in p.body else p.orelse
        child, p = p, parent(p)
    return None


def segyio_tracefield_codes():
    for base in ('/venv/lib/python3.12/site-packages', '/venv/lib/python3.11/site-packages'):
        p = os.path.join(base, 'segyio', 'tracefield.py')
        if os.path.exists(p):
            t = ast.parse(open(p).read())
            for c in ast.walk(t):
                if isinstance(c, ast.ClassDef) and c.name == 'TraceField':
                    vals = []
                    for s in c.body:
                        if isinstance(s, ast.Assign) and isinstance(s.value, ast.Constant) and isinstance(s.value.value, int):
                            vals.append(s.value.value)
                    return [v for v in vals if v > 0]
    return None


def check_caller_order(ctx, caller, expr, edge):
    P = ctx.P
    if not (isinstance(expr, ast.Attribute) and U(expr.value) == 'self' and caller.cls is not None):
        ctx.fail('C04.2', caller, enclosing_stmt(edge.call), 'header dictionary `%s` of unknown order reaches the footer' % U(expr))
        return
    attr = expr.attr
    whole = [(f, st, v) for (f, st, v) in P.attr_stores_mro(caller.cls, attr) if v is not None]
    items = []
    for m in caller.cls.methods.values():
        for n in ast.walk(m.node):
            if isinstance(n, ast.Assign) and isinstance(n.targets[0], ast.Subscript) and U(n.targets[0].value) == 'self.' + attr:
                items.append((m, n))
    if not whole:
        ctx.fail('C04.2', caller, enclosing_stmt(edge.call), 'self.%s is never constructed' % attr)
        return
    f, st, v = max(whole, key=lambda x: x[1].lineno)
    is_sorted = 'OrderedDict' in U(v) and 'sorted(' in U(v)
    built = _local_dict_build(f, v)
    if built is not None:
        # filled in the order of a loop over sorted(<items>)
        is_sorted = all(isinstance(it, ast.Call) and U(it.func) == 'sorted' for it in built[0])
    late = [(m, n) for (m, n) in items if (m is f and n.lineno > st.lineno) or (m is not f and m.name != '__init__')]
    if is_sorted and not late:
        ctx.ok('C04.2', f, st, 'self.%s is rebuilt sorted by header word after the last insertion' % attr)
    elif not is_sorted:
        ctx.fail('C04.2', f, st, 'self.%s is not constructed in sorted header-word order' % attr)
    else:
        m, n = late[0]
        ctx.fail('C04.2', m, n, 'an entry is inserted into self.%s after it was sorted: the footer is written in insertion order '
                 'but located by the reader in ascending header-word order' % attr)


def file_header(ctx):
    P, G = ctx.P, ctx.G
    from .. import headerrules as HR
    from .. import tables as TB
    ht = HR.HeaderTable(P, G)
    rows = {TB.role_of_row(r): r for r in ht.rows if TB.role_of_row(r) in (('SEGY_TEXT', None), ('SEGY_BIN', None))}
    if len(rows) != 2:
        raise AnalysisError('SEG-Y header rows not found in the specification')
    lo, hi = rows[('SEGY_TEXT', None)].lo, rows[('SEGY_BIN', None)].hi
    st = [s for s in ht.stores if s.lo == lo and s.kind == 'store' and s.codec == 'raw']
    if not st:
        ctx.fail('C04.5', None, 'make_header_seismic_file', 'no writer copies the SEG-Y file header into [%d:%d)' % (lo, hi))
        return
    s = st[0]
    f = s.func
    if s.hi != hi:
        ctx.fail('C04.5', f, s.stmt, 'the SEG-Y file header is stored into [%d:%d), the slot is [%d:%d)' % (s.lo, s.hi, lo, hi))
    # provenance: f.read(SEGY_FILE_HEADER_BYTES) directly after open(<source>, 'rb'), no seek
    name = U(s.value)
    defs = [n for n in ast.walk(f.node) if isinstance(n, ast.Assign) and U(n.targets[0]) == name]
    if not defs and isinstance(s.value, ast.Call):
        defs = [s.stmt]          # the bytes are read in place: buffer[lo:hi] = handle.read(n)
    ok = False
    if defs and isinstance(defs[0].value, ast.Call) and U(defs[0].value.func).endswith('.read') and defs[0].value.args:
        ln = TB.const_eval(P, f.module, defs[0].value.args[0])
        w = parent(defs[0])
        seeks = [c for c in ast.walk(w) if isinstance(c, ast.Call) and isinstance(c.func, ast.Attribute) and c.func.attr == 'seek'] \
            if isinstance(w, ast.With) else [1]
        # it is the first read on the freshly opened handle
        first = isinstance(w, ast.With) and w.body and w.body[0] is defs[0] and \
            sum(1 for c in ast.walk(w) if isinstance(c, ast.Call) and isinstance(c.func, ast.Attribute) and
                c.func.attr in ('read', 'readinto', 'readline')) == 1
        rb = isinstance(w, ast.With) and any('rb' in U(it.context_expr) and 'filename' in U(it.context_expr) for it in w.items)
        ok = ln == hi - lo and not seeks and first and rb
    if ok:
        ctx.ok('C04.5', f, s.stmt, 'first %d bytes of the source file -> [%d:%d)' % (hi - lo, lo, hi))
    else:
        ctx.fail('C04.5', f, s.stmt, 'the stored SEG-Y file header is not the first %d bytes of the source file read in binary mode' % (hi - lo))
    # reader split
    lds = [(x.lo, x.hi) for x in ht.loads if x.func.qualname == 'read.SgzReader.__init__' and x.lo >= lo]
    if (rows[('SEGY_TEXT', None)].lo, rows[('SEGY_TEXT', None)].hi) in lds and \
            (rows[('SEGY_BIN', None)].lo, rows[('SEGY_BIN', None)].hi) in lds:
        ctx.ok('C04.5', P.func('read.SgzReader.__init__'), 'file_text_header / file_binary_header', 'reader splits the slot at the '
               'textual/binary boundary of the specification')
    else:
        ctx.fail('C04.5', P.func('read.SgzReader.__init__'), 'file_text_header / file_binary_header', 'the reader does not split the '
                 'stored SEG-Y header at the boundaries of the specification: %s' % lds)


# ---------------------------------------------------------------------------
# C04.7  heuristic classification covers every (first trace, last trace) combination of a header field.
#
# Abstract domain: a field is described by three booleans  E (first == last), Z1 (first == 0), ZL (last == 0); the
# consistent combinations are the five classes below.  The helper methods of HeaderwordInfo that return lists of
# header words are evaluated as predicates over that domain (comprehension filters `v != 0`, `v1 == vl`, `v1 != vl`,
# membership in another helper, and / or / not).  No header value is enumerated.

CLASSES = [
    ('constant zero', dict(E=True, Z1=True, ZL=True)),
    ('constant non-zero', dict(E=True, Z1=False, ZL=False)),
    ('zero in the first trace, non-zero in the last', dict(E=False, Z1=True, ZL=False)),
    ('non-zero in the first trace, zero in the last', dict(E=False, Z1=False, ZL=True)),
    ('different non-zero values in the first and last trace', dict(E=False, Z1=False, ZL=False)),
]


class _Pred:
    def __init__(self, P, cls):
        self.P, self.cls = P, cls
        self.memo = {}

    def of_method(self, name, depth=0):
        if name in self.memo:
            return self.memo[name]
        m = self.cls.methods.get(name)
        if m is None or depth > 6:
            raise AnalysisError('HeaderwordInfo.%s: helper not found' % name)
        rets = [r for r in ast.walk(m.node) if isinstance(r, ast.Return) and r.value is not None]
        if len(rets) != 1:
            raise AnalysisError('HeaderwordInfo.%s: expected one return' % name)
        env = self._env(m)
        res = self.of_expr(m, rets[0].value, env, depth)
        self.memo[name] = res
        return res

    def _env(self, m):
        """names bound to the first / last trace header (or their items) inside m."""
        env = {}
        for a in ast.walk(m.node):
            if isinstance(a, ast.Assign):
                v = U(a.value)
                tg = a.targets[0]
                if isinstance(tg, ast.Tuple) and len(tg.elts) == 2:
                    if v.endswith('_get_first_last_headers()'):
                        env[U(tg.elts[0])], env[U(tg.elts[1])] = 'first', 'last'
                    elif isinstance(a.value, ast.Tuple) and len(a.value.elts) == 2:
                        for t, x in zip(tg.elts, a.value.elts):
                            k = self._which(U(x))
                            if k:
                                env[U(t)] = k
                elif isinstance(tg, ast.Name):
                    k = self._which(v)
                    if k:
                        env[tg.id] = k
        return env

    @staticmethod
    def _which(txt):
        if 'header[0]' in txt:
            return 'first'
        if 'header[-1]' in txt:
            return 'last'
        return None

    def of_expr(self, m, e, env, depth):
        """-> frozenset of class indices whose fields are in the list denoted by e."""
        if isinstance(e, ast.Call) and isinstance(e.func, ast.Attribute) and isinstance(e.func.value, ast.Name) and \
                e.func.value.id == 'self' and not e.args:
            return self.of_method(e.func.attr, depth + 1)
        if isinstance(e, ast.Name):
            ds = [a for a in ast.walk(m.node) if isinstance(a, ast.Assign) and U(a.targets[0]) == e.id]
            if len(ds) == 1:
                return self.of_expr(m, ds[0].value, env, depth)
            raise AnalysisError('%s: `%s` is assigned %d times' % (m.qualname, e.id, len(ds)))
        if isinstance(e, ast.ListComp) and len(e.generators) == 1:
            g = e.generators[0]
            base, binds = self._iter(m, g, env, depth)
            out = set()
            for i in base:
                vals = CLASSES[i][1]
                ok = all(self._truth(m, t, binds, vals, i, env, depth) for t in g.ifs)
                if ok:
                    out.add(i)
            return frozenset(out)
        raise AnalysisError('%s: list expression `%s` is outside the classification algebra' % (m.qualname, U(e)[:60]))

    def _iter(self, m, g, env, depth):
        it, tg = g.iter, g.target
        allc = frozenset(range(len(CLASSES)))
        # zip(first, last) with ((k1, v1), (kl, vl))
        if isinstance(it, ast.Call) and U(it.func) == 'zip' and len(it.args) == 2 and isinstance(tg, ast.Tuple) and len(tg.elts) == 2:
            sides = [env.get(U(a)) or self._which(U(a)) for a in it.args]
            if None in sides:
                raise AnalysisError('%s: zip over `%s` is not over the first / last trace header' % (m.qualname, U(it)))
            binds = {}
            for t, side in zip(tg.elts, sides):
                if isinstance(t, ast.Tuple) and len(t.elts) == 2:
                    binds[U(t.elts[1])] = side
            return allc, binds
        # <header>.items()  with (k, v)
        if isinstance(it, ast.Call) and isinstance(it.func, ast.Attribute) and it.func.attr == 'items' and isinstance(tg, ast.Tuple):
            side = env.get(U(it.func.value)) or self._which(U(it.func.value))
            if side is None:
                raise AnalysisError('%s: items() of `%s` is not the first / last trace header' % (m.qualname, U(it.func.value)))
            return allc, {U(tg.elts[1]): side}
        # another helper list
        base = self.of_expr(m, it, env, depth)
        return base, {'@elt': U(tg)}

    def _truth(self, m, t, binds, vals, i, env, depth):
        if isinstance(t, ast.BoolOp):
            vs = [self._truth(m, x, binds, vals, i, env, depth) for x in t.values]
            return all(vs) if isinstance(t.op, ast.And) else any(vs)
        if isinstance(t, ast.UnaryOp) and isinstance(t.op, ast.Not):
            return not self._truth(m, t.operand, binds, vals, i, env, depth)
        if isinstance(t, ast.Compare) and len(t.ops) == 1:
            l, op, r = t.left, t.ops[0], t.comparators[0]
            if isinstance(op, (ast.In, ast.NotIn)):
                inside = i in self.of_expr(m, r, env, depth)
                return inside if isinstance(op, ast.In) else not inside
            if isinstance(op, (ast.Eq, ast.NotEq)):
                sl, sr = binds.get(U(l)), binds.get(U(r))
                if sl and sr and {sl, sr} == {'first', 'last'}:
                    return vals['E'] if isinstance(op, ast.Eq) else not vals['E']
                side, other = (sl, r) if sl else (sr, l)
                if side and isinstance(other, ast.Constant) and other.value == 0:
                    z = vals['Z1'] if side == 'first' else vals['ZL']
                    return z if isinstance(op, ast.Eq) else not z
        raise AnalysisError('%s: filter `%s` is outside the classification algebra' % (m.qualname, U(t)[:60]))


def classification(ctx):
    P = ctx.P
    ctx.rule('C04.7', 'heuristic detection classifies every (first trace, last trace) combination: varying -> stored array, '
                      'constant non-zero -> table constant')
    cls = P.cls('headers.HeaderwordInfo')
    pr = _Pred(P, cls)
    init = cls.methods['__init__']
    # roles: the list whose members get a self-referential table entry + an array; the list of constants
    arr_src = [a for a in ast.walk(init.node) if isinstance(a, ast.Assign) and U(a.targets[0]) == 'self.unique_variant_nonzero_header_words'
               and isinstance(a.value, ast.Call) and U(a.value.func).startswith('self.')]
    if not arr_src:
        raise AnalysisError('HeaderwordInfo.__init__: the list of stored header words is no longer computed by a helper')
    uniq = cls.methods.get(arr_src[0].value.func.attr)
    # the variant base of the unique list and of the duplicate finder: the first helper call assigned in each
    bases = {}
    for m in (uniq, cls.methods.get('_find_duplicated_headerwords')):
        if m is None:
            raise AnalysisError('HeaderwordInfo: duplicate finder not found')
        seeds = [a for a in ast.walk(m.node) if isinstance(a, ast.Assign) and isinstance(a.value, ast.Call) and
                 isinstance(a.value.func, ast.Attribute) and U(a.value.func.value) == 'self' and
                 'variant' in a.value.func.attr and 'duplic' not in a.value.func.attr]
        if not seeds:
            # the helper is a single expression and was dissolved by the normal form: the list bound to the local
            # that names the variant words
            seeds = [a for a in ast.walk(m.node) if isinstance(a, ast.Assign) and len(a.targets) == 1 and
                     isinstance(a.targets[0], ast.Name) and 'variant' in a.targets[0].id and 'duplic' not in a.targets[0].id
                     and isinstance(a.value, ast.ListComp)]
        if not seeds:
            raise AnalysisError('%s: the variant base list is not obtained from a helper' % m.qualname)
        bases[m] = seeds[0]
    want_var = frozenset(i for i, (n_, v) in enumerate(CLASSES) if not v['E'])
    for m, seed in bases.items():
        if isinstance(seed.value, ast.Call):
            got = pr.of_method(seed.value.func.attr)
            sname = seed.value.func.attr + '()'
        else:
            got = pr.of_expr(m, seed.value, {}, 0)
            sname = 'the list `%s`' % U(seed.targets[0])
        missing = sorted(want_var - got)
        extra = sorted(got - want_var)
        if missing:
            ctx.fail('C04.7', m, seed, 'a header field that is %s is not treated as varying by %s: it gets neither a stored '
                     'array nor a table constant and reads back as 0 in every trace' % (
                         ' / '.join(CLASSES[i][0] for i in missing), sname), key_extra='missing')
        elif extra:
            ctx.fail('C04.7', m, seed, '%s also returns fields that are %s: a constant field is stored as if it varied' % (
                sname, ' / '.join(CLASSES[i][0] for i in extra)), key_extra='extra')
        else:
            ctx.ok('C04.7', m, seed, 'varying base = exactly the fields whose first and last values differ (3 of 5 classes)')
    # constants
    # the membership test guarding the store of a table constant: `if hw in <list>: self.table[code] = (first value, 0)`
    consts = []
    for g in ast.walk(init.node):
        if isinstance(g, ast.If) and isinstance(g.test, ast.Compare) and len(g.test.ops) == 1 and isinstance(g.test.ops[0], ast.In) \
                and any(isinstance(a, ast.Assign) and U(a.targets[0]).startswith('self.table[') and isinstance(a.value, ast.Tuple)
                        and len(a.value.elts) == 2 and U(a.value.elts[1]) == '0' and U(a.value.elts[0]) != '0' for a in g.body):
            consts.append(g.test)
    if not consts:
        raise AnalysisError('HeaderwordInfo.__init__: the constant-field test was not found')
    got = pr.of_expr(init, consts[0].comparators[0], {}, 0)
    want_c = frozenset(i for i, (n_, v) in enumerate(CLASSES) if v['E'] and not v['Z1'])
    if got == want_c:
        ctx.ok('C04.7', init, consts[0], 'table constants = exactly the constant non-zero fields')
    else:
        bad = sorted(got ^ want_c)
        ctx.fail('C04.7', init, consts[0], 'the table-constant test %s fields that are %s' % (
            'misses' if set(bad) <= want_c else 'includes', ' / '.join(CLASSES[i][0] for i in bad)))
    ctx.floor('C04.7', 3)


def _from_template(m, expr, depth=0):
    """does the offset expression derive from the header-word template (whose FileOffset values locate the footer
    arrays): it mentions the template, a name bound to an element of it, or the value variable of a loop over its items
    (directly or through a copy)."""
    if depth > 3:
        return False
    if 'segy_traceheader_template' in U(expr):
        return True
    for x in ast.walk(expr):
        if not isinstance(x, ast.Name):
            continue
        for n in ast.walk(m.node):
            if isinstance(n, ast.Assign) and len(n.targets) == 1 and U(n.targets[0]) == x.id and n.value is not expr and \
                    not any(y is expr for y in ast.walk(n.value)) and _from_template(m, n.value, depth + 1):
                return True
            if isinstance(n, ast.For) and any(isinstance(t, ast.Name) and t.id == x.id for t in ast.walk(n.target)) and \
                    _from_template(m, n.iter, depth + 1):
                return True
    return False


def footer_decode(ctx):
    """C04.9: footer arrays hold little-endian signed 32-bit integers (C04.1).  Every decode of bytes fetched from a
    footer array - a range read whose offset derives from a FileOffset of the header-word template - uses a signed
    32-bit decoder (np.frombuffer(.., dtype=int32) or the signed struct codec); an unsigned decoder turns negative
    header values into value + 2**32."""
    from .. import tables as TB
    P, G = ctx.P, ctx.G
    ctx.rule('C04.9', 'bytes of a footer array are decoded as signed 32-bit integers wherever they are read')
    C = TB.codecs(P)
    reader = P.cls(RF_READER)
    n = 0
    for m in reader.methods.values():
        for call in ast.walk(m.node):
            if not (isinstance(call, ast.Call) and U(call.func).endswith('read_range') and len(call.args) >= 3):
                continue
            if not _from_template(m, call.args[1]):
                continue
            # where do the bytes go?
            par = parent(call)
            uses = []
            if isinstance(par, ast.Assign) and isinstance(par.targets[0], ast.Name):
                nm = par.targets[0].id
                uses = [parent(x) for x in ast.walk(m.node) if isinstance(x, ast.Name) and x.id == nm and isinstance(x.ctx, ast.Load)]
            elif isinstance(par, ast.Call):
                uses = [par]
            decs = [u for u in uses if isinstance(u, ast.Call)]
            if not decs:
                raise AnalysisError('%s: the bytes of `%s` are not handed to a decoder' % (m.qualname, U(call)[:50]))
            for d in decs:
                nm = U(d.func).split('.')[-1]
                n += 1
                if nm == 'frombuffer':
                    dt = [U(k.value) for k in d.keywords if k.arg == 'dtype'] or ([U(d.args[1])] if len(d.args) > 1 else [])
                    if dt and dt[0] in INT32:
                        ctx.ok('C04.9', m, d, 'footer bytes decoded as int32')
                    else:
                        ctx.fail('C04.9', m, enclosing_stmt(d), 'footer bytes are decoded with dtype %s, the arrays hold signed 32-bit '
                                 'integers' % (dt[0] if dt else 'float64 (default)'), line=d.lineno)
                elif nm in C:
                    ft = TB.fmt_type(C[nm].fmt_for(4))
                    if ft and ft[1] == 'int' and C[nm].fmt_for(4).lstrip('<>=!@').islower():
                        ctx.ok('C04.9', m, d, 'footer bytes decoded with the signed codec %s' % nm)
                    else:
                        ctx.fail('C04.9', m, enclosing_stmt(d), 'footer bytes are decoded with %s (%s, unsigned): a negative header '
                                 'value reads back as value + 2**32' % (nm, C[nm].fmt_for(4)), line=d.lineno)
                else:
                    raise AnalysisError('%s: decoder `%s` of footer bytes not recognised' % (m.qualname, U(d.func)))
    if n < 3:
        raise AnalysisError('footer decodes in the reader: only %d found' % n)
