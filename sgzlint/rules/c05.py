"""C05 - geometry preservation: geometry slots, rounding before pack, axis generation, origin frame,
structured flag."""
import ast
from ..core import U, AnalysisError, parent, enclosing_stmt
from .. import headerrules as HR
from .. import tables as TB
from .. import readerfacts as RF
from .c11 import origin_slots
from .c03 import check_sizes

PROP = 'C05'
EXPLANATION = (
    'C05.1: the geometry fields (counts, origins, steps of IL/XL/Z, trace count) of every writer and of the reader '
    'have the ranges and codecs of the specification, sibling writers agree on signedness, and the stored / decoded '
    'expressions carry the axis and kind of the field (rules C03.1-C03.3 restricted to the geometry roles); the SEG-Y '
    'export hands each reader axis to the segyio.spec attribute of the same axis. C05.2: a value produced by float '
    'arithmetic (float literal, true division) that is packed by a truncating integer codec (the codecs whose body '
    'is int(x.astype(int)), read off utils.py) passes through a rounding operation first. C05.3: the axis generator '
    'does not derive its length from a floating-point stop value (no arange(start, start + step*count, step)); its '
    'length is fixed by count. C05.4: the origin fields hold the source axis at the window origin. C05.5: structured '
    'is tracecount == n_ilines*n_xlines with tracecount decoded from its slot under the version gate, and the slot '
    'is written with the matching formula.')
EXPLANATION += (
    ' ADDED: C05.4 resolves the origin expression per branch and through single-assignment locals. C05.5 accepts either operand order. C05.6: the sample-interval field (28:32) is decoded only under the 0.1.6 unit gate or on the 2D branch (the cropper must not re-derive times from raw header bytes), and a re-stamped copied header converts it.'
)
EXPLANATION += (
    ' C05.1 also: on the NumPy route the inline axis is a column ([:, k]) of the INLINE_3D grid and the crossline axis a row ([k, :]) of the CROSSLINE_3D grid; header loads whose byte range is driven by a loop over literal constants are expanded, so the 2D start time is seen to be decoded signed.'
)
ASSUMPTIONS = ['names denote what they say (axis tags from identifiers)', 'segyio reports the source axes correctly']
NOT_DECIDED = 'Float rounding of start + i*interval itself; what segyio reports for the source; values of the axes.'

GEOM_KINDS = ('COUNT', 'ORIGIN', 'STEP')


def run(ctx):
    P, G = ctx.P, ctx.G
    ctx.rule('C05.1', 'geometry fields: ranges, codecs, sibling agreement and roles (writers and reader); spec hand-over')
    ctx.rule('C05.2', 'float-computed values are rounded before a truncating integer pack')
    ctx.rule('C05.3', 'the axis generator fixes its length by count, not by a floating-point stop')
    ctx.rule('C05.4', 'origin fields hold the source axis at the window origin')
    ctx.rule('C05.5', 'structured = (tracecount == n_il*n_xl); tracecount slot formula')
    ht = HR.HeaderTable(P, G)
    ctx.ht = ht

    def geom(s):
        row, prob = ht.row_of(s)
        if row is None:
            return False
        r = TB.role_of_row(row)
        return r is not None and (r[0] in GEOM_KINDS or r[0] == 'TRACECOUNT')
    HR.check_ranges_and_codecs(ctx, ht, 'C05.1', 'C05.1', select=geom)
    HR.check_sibling_codecs(ctx, ht, 'C05.1', select=geom)
    HR.check_roles(ctx, ht, 'C05.1', select=geom)
    HR.check_reader_roles(ctx, ht, 'C05.1')
    spec_handover(ctx)
    numpy_axes(ctx)
    ctx.floor('C05.1', 60)
    rounding(ctx, ht)
    generator(ctx)
    origin_slots(ctx, ht, 'C05.4')
    structured(ctx, ht)
    ctx.rule('C05.6', 'the sample-interval field is decoded under its version gate; a re-stamped copy converts it')
    from .c03 import version_gated_fields
    if version_gated_fields(ctx, ht, 'C05.6') < 2:
        raise AnalysisError('decodes of the sample-interval field (28:32): fewer than the 2 confirmed sites')


def spec_handover(ctx):
    P, G = ctx.P, ctx.G
    f = P.func('conversion.SgzConverter.convert_to_segy')
    want = {'samples': 'self.zslices', 'xlines': 'self.xlines', 'ilines': 'self.ilines', 'tracecount': 'self.tracecount'}
    n = 0
    for a in ast.walk(f.node):
        if isinstance(a, ast.Assign) and isinstance(a.targets[0], ast.Attribute) and U(a.targets[0].value) == 'spec' and \
                a.targets[0].attr in want:
            n += 1
            if U(a.value) == want[a.targets[0].attr]:
                ctx.ok('C05.1', f, a, 'spec.%s receives the reader attribute of the same axis' % a.targets[0].attr)
            else:
                ctx.fail('C05.1', f, a, 'spec.%s receives `%s`, expected %s' % (a.targets[0].attr, U(a.value), want[a.targets[0].attr]))
    if n < 4:
        raise AnalysisError('convert_to_segy: geometry hand-over to segyio.spec not found (%d assignments)' % n)


def truncating_codecs(P):
    """utils codecs that convert with int(x.astype(int)) / int(x): truncation toward zero."""
    out = set()
    m = P.modules['utils']
    for f in m.functions.values():
        for n in ast.walk(f.node):
            if isinstance(n, ast.Call) and U(n.func) == 'struct.pack':
                txt = U(n)
                if '.astype(int)' in txt or 'int(' in txt:
                    if not any(r in txt for r in ('round', 'rint')):
                        out.add(f.name)
    return out


def is_float_computed(e, resolve, depth=0):
    if depth > 4 or e is None:
        return False
    for n in ast.walk(e):
        if isinstance(n, ast.Constant) and isinstance(n.value, float):
            return True
        if isinstance(n, ast.BinOp) and isinstance(n.op, ast.Div):
            return True
        if isinstance(n, ast.Name) and resolve is not None:
            d = resolve(n.id)
            if d is not None and d is not e and is_float_computed(d, resolve, depth + 1):
                return True
    return False


def is_rounded(e):
    while isinstance(e, ast.Call) and len(e.args) >= 1 and U(e.func).split('.')[-1] in ('int32', 'int', 'array', 'asarray', 'int64'):
        e = e.args[0]
    return isinstance(e, ast.Call) and U(e.func).split('.')[-1] in ('round', 'rint', 'around', 'round_')


def numpy_axes(ctx):
    """NumPy route: header grids are (IL, XL) ordered; the inline axis is a COLUMN of the INLINE_3D grid ([:, k]), the
    crossline axis a ROW of the CROSSLINE_3D grid ([k, :])."""
    f = ctx.P.func('conversion.NumpyConverter.__init__')
    n = 0
    for a in ast.walk(f.node):
        if isinstance(a, ast.Assign) and U(a.targets[0]) in ('self.ilines', 'self.xlines') and isinstance(a.value, ast.Subscript) \
                and isinstance(a.value.slice, ast.Tuple) and len(a.value.slice.elts) == 2:
            n += 1
            ax = 'IL' if U(a.targets[0]) == 'self.ilines' else 'XL'
            grid = 'INLINE_3D' if 'INLINE_3D' in U(a.value.value) else 'CROSSLINE_3D' if 'CROSSLINE_3D' in U(a.value.value) else '?'
            if grid == '?' and isinstance(a.value.value, ast.Subscript):
                from .. import tables as TB_
                code = TB_.tracefield_code(ctx.P, f, a.value.value.slice)
                if code is None:
                    raise AnalysisError('NumpyConverter.__init__: header word `%s` of the axis grid is not recognised' % U(a.value.value.slice))
                grid = {189: 'INLINE_3D', 193: 'CROSSLINE_3D'}.get(code, 'header word %d' % code)
            e0, e1 = a.value.slice.elts
            runs = 0 if isinstance(e0, ast.Slice) and not isinstance(e1, ast.Slice) else \
                1 if isinstance(e1, ast.Slice) and not isinstance(e0, ast.Slice) else None
            want_grid = {'IL': 'INLINE_3D', 'XL': 'CROSSLINE_3D'}[ax]
            want_run = {'IL': 0, 'XL': 1}[ax]
            if grid == want_grid and runs == want_run:
                ctx.ok('C05.1', f, a, '%s axis = the %s grid along position %d' % (ax, grid, runs))
            else:
                ctx.fail('C05.1', f, a, 'the %s axis is taken from `%s`: the %s grid varies along position %d of an (inline, crossline) '
                         'array' % (ax, U(a.value)[:70], want_grid, want_run))
    if n < 2:
        raise AnalysisError('NumpyConverter.__init__: axes taken from the header grids not found')


def rounding(ctx, ht):
    P = ctx.P
    trunc = truncating_codecs(P)
    if not trunc:
        ctx.ok('C05.2', None, 'utils codecs', 'no truncating integer codec in utils.py', nontrivial=False)
        return
    n = 0
    for s in ht.stores:
        if s.codec not in trunc:
            continue
        n += 1
        res = ht.resolver(s)
        if is_float_computed(s.value, res):
            if is_rounded(s.value):
                ctx.ok('C05.2', s.func, s.stmt, 'float-computed value is rounded before the truncating pack')
            else:
                ctx.fail('C05.2', s.func, s.stmt, '`%s` is computed in floating point and packed by %s, which truncates '
                         '(int(x.astype(int))): a value like 1000.9999 is stored as 1000' % (U(s.value)[:60], s.codec))
        else:
            ctx.ok('C05.2', s.func, '%s[%d:%d] <- %s' % (s.buf, s.lo, s.hi, U(s.value)[:30]), 'integer-valued expression',
                   nontrivial=False)
    if n < 6:
        raise AnalysisError('stores through truncating codecs: found %d, floor 6' % n)


def generator(ctx):
    P, G = ctx.P, ctx.G
    # role: the utils function the reader calls with (origin, step, count) decoded from the header
    rd = P.func(RF.READER + '._parse_coordinates')
    gens = {}
    for e in G.callees(rd):
        if e.target is not None and e.target.cls is None and len(e.target.params) == 3 and \
                any('headerbytes' in U(v) for v in e.binding.values()):
            gens[e.target.qualname] = e.target
    if len(gens) != 1:
        raise AnalysisError('axis generator not identified (candidates: %s)' % sorted(gens))
    g = next(iter(gens.values()))
    start, step, count = g.params
    ar = [c for c in ast.walk(g.node) if isinstance(c, ast.Call) and U(c.func).split('.')[-1] == 'arange']
    ls = [c for c in ast.walk(g.node) if isinstance(c, ast.Call) and U(c.func).split('.')[-1] == 'linspace']
    bad = None
    for c in ar:
        if len(c.args) >= 2:
            stop = U(c.args[1])
            if step in stop and count in stop:
                bad = c
    if bad is not None:
        ctx.fail('C05.3', g, enclosing_stmt(bad), 'the axis is generated by `%s`: with a non-integer step the floating-point stop '
                 'can exceed the last grid point and the axis gets count+1 entries' % U(bad)[:60], line=bad.lineno)
    elif ar and all(len(c.args) == 1 and U(c.args[0]) == count for c in ar):
        ctx.ok('C05.3', g, ar[0], 'length fixed by arange(%s)' % count)
    elif ls and all(any(k.arg == 'num' and U(k.value) == count for k in c.keywords) for c in ls):
        ctx.ok('C05.3', g, ls[0], 'length fixed by linspace(num=%s)' % count)
    else:
        raise AnalysisError('%s: axis generation idiom not recognised (`%s`)' % (g.qualname, U(g.node.body[-1])[:80]))
    # call sites pass (origin, step, count) in that order: covered by C05.1 reader roles


def structured(ctx, ht):
    P, G = ctx.P, ctx.G
    init = P.func(RF.READER + '.__init__')
    st = [a for a in ast.walk(init.node) if isinstance(a, ast.Assign) and U(a.targets[0]) == 'self.structured']
    exprs = [U(a.value).replace(' ', '') for a in st]

    def is_grid_test(e):
        if not (isinstance(e, ast.Compare) and len(e.ops) == 1 and isinstance(e.ops[0], ast.Eq)):
            return False
        sides = [e.left, e.comparators[0]]
        tcs = [x for x in sides if U(x) == 'self.tracecount']
        prods = [x for x in sides if isinstance(x, ast.BinOp) and isinstance(x.op, ast.Mult) and
                 {U(x.left), U(x.right)} == {'self.n_ilines', 'self.n_xlines'}]
        return len(tcs) == 1 and len(prods) == 1
    # `self.is_3d and <grid test>`: conjuncts that hold for every 3D file (the mode flag) do not change the value there,
    # and make it False on a 2D file
    from ..facts import truth as f_truth
    facts3, al, flag = RF.mode_facts(P, '3d')
    fm3 = RF.factmap(P, init, '3d')

    def strip_mode(e):
        if isinstance(e, ast.BoolOp) and isinstance(e.op, ast.And):
            rest = [v for v in e.values if f_truth(v, frozenset(facts3), fm3.cc) is not True]
            if len(rest) == 1:
                return rest[0]
        return e
    good = [a for a in st if is_grid_test(strip_mode(a.value))]
    others = [a for a in st if not is_grid_test(strip_mode(a.value)) and not (isinstance(a.value, ast.Constant) and a.value.value is False)]
    if good and not others:
        ctx.ok('C05.5', init, good[0], 'structured = tracecount == n_il*n_xl')
    else:
        ctx.fail('C05.5', init, (others or st or [init.name])[0], 'structured is computed as %s, not tracecount == n_ilines*n_xlines' % exprs)
    tc = [a for a in ast.walk(init.node) if isinstance(a, ast.Assign) and U(a.targets[0]) == 'self.tracecount']
    slot = [s for s in ht.loads if s.func is init and TB.role_of_row(ht.row_of(s)[0]) == ('TRACECOUNT', None)] \
        if True else []
    ok_slot = any(isinstance(a.value, ast.Call) and any(s.value is a.value for s in slot) for a in tc)
    ok_grid = any(U(a.value).replace(' ', '') in ('self.n_ilines*self.n_xlines', 'self.n_xlines*self.n_ilines') for a in tc)
    if ok_slot and ok_grid and len(tc) == 2:
        ctx.ok('C05.5', init, tc[0], 'tracecount = trace-count field for files after the gate, n_il*n_xl before')
    else:
        ctx.fail('C05.5', init, tc[0] if tc else init.name, 'tracecount is not (trace-count field | n_ilines*n_xlines) on the two '
                 'sides of the version gate')
    # the writers' formula for the slot
    before = len(ctx.findings)
    from .c03 import size_slots
    from ..sizerules import RoleEval
    from ..axes import role_of
    for s in size_slots(ht, 'TRACECOUNT'):
        e = s.value
        if isinstance(e, ast.Name):
            d_ = ht.resolver(s)(e.id)
            if isinstance(d_, ast.IfExp):
                e = d_          # the value chosen in the arms of an `if` before the store
        if isinstance(e, ast.IfExp):
            ev = RoleEval(P, s.func.module, ht.resolver(s))
            want_p = ev.atom('COUNT[IL]') * ev.atom('COUNT[XL]')
            if 'unstructured' in U(e.test) and 'Geometry2d' in U(e.test) and role_of(e.body, ht.resolver(s)) == ('COUNT', 'TRACE') \
                    and ev.ev(e.orelse) == want_p:
                ctx.ok('C05.5', s.func, s.stmt, 'slot = source trace count (irregular / 2D) else n_il*n_xl of the output grid')
            else:
                ctx.fail('C05.5', s.func, s.stmt, 'trace-count field receives `%s`' % U(e)[:70])
        else:
            ev = RoleEval(P, s.func.module, ht.resolver(s))
            v = ev.ev(e)
            if v is not None and v == ev.atom('COUNT[IL]') * ev.atom('COUNT[XL]'):
                ctx.ok('C05.5', s.func, s.stmt, 'slot = grid size of the output')
            else:
                ctx.fail('C05.5', s.func, s.stmt, 'trace-count field receives `%s` = %r, not the grid size' % (U(e)[:50], v))
