"""C06 - SEG-Y export round trip (narrow): binary-header field access, header-last ordering,
geometry hand-over, trace order, DelayRecordingTime."""
import ast
import os
import struct
from ..core import U, AnalysisError, parent, enclosing_stmt
from ..facts import FactMap
from .. import headerrules as HR
from .. import tables as TB
from .c05 import spec_handover

PROP = 'C06'
EXPLANATION = (
    'Five structural necessary conditions of the export; segyio\'s own behaviour is not modelled. C06.1: every '
    'constant offset used to decode or patch the stored SEG-Y binary header (bytes 7296:7696 of the SGZ header) is '
    'BinField.<X> - 1 of a field X of the enumeration parsed from the installed segyio/binfield.py, is accessed with a '
    'big-endian codec and with the width of that field (distance to the next field). C06.2: the raw write of the '
    'stored 3600 bytes happens at offset 0 of a handle opened after - and dominated by the exit of - the '
    'segyio.create context (must-facts). C06.3: spec.ilines/xlines/samples/tracecount receive the reader attributes of '
    'the same axis; 2D takes the tracecount branch. C06.4: traces and headers are produced by two comprehensions over '
    'the same range(self.tracecount), each applying its index unchanged. C06.5: DelayRecordingTime is regenerated from '
    'the first sample coordinate.')
EXPLANATION += (
    ' ADDED: C06.5: DelayRecordingTime is zslices[0] converted by int()/round() without a shift (int(x + 0.5) truncates toward zero and is off by one for negative start times). C06.6: on the export path the only assignment to self.headerbytes and the only element stores into a copy of it are the BinField.Format fallback under `code not in [1, 5]`: the 3600 stored bytes are written back verbatim.'
)
EXPLANATION += (
    ' C06.7: the exporter takes every trace from get_trace(i); its addresses, decodes and crops (rules of C02) hold in every layout mode, including non-square blockshapes.'
)
ASSUMPTIONS = ['segyio/binfield.py enumerates the SEG-Y binary header fields by 1-based byte position; SEG-Y is big-endian']
NOT_DECIDED = ('Everything that is segyio\'s behaviour: what it writes for a spec, IBM rounding, the geometry it infers on '
               're-open, irregular sorting, and equality of samples. These are the bulk of the statement.')


def binfields():
    for base in ('/venv/lib/python3.12/site-packages', '/venv/lib/python3.11/site-packages'):
        p = os.path.join(base, 'segyio', 'binfield.py')
        if os.path.exists(p):
            t = ast.parse(open(p).read())
            out = {}
            for c in ast.walk(t):
                if isinstance(c, ast.ClassDef) and c.name == 'BinField':
                    for s in c.body:
                        if isinstance(s, ast.Assign) and isinstance(s.value, ast.Constant) and isinstance(s.value.value, int):
                            out[U(s.targets[0])] = s.value.value
            if len(out) > 20:
                return out
    raise AnalysisError('segyio/binfield.py not found or not parseable')


def run(ctx):
    P, G = ctx.P, ctx.G
    ctx.rule('C06.1', 'binary-header field offsets = BinField.X - 1, big-endian, field width')
    ctx.rule('C06.2', 'the stored file header is written at offset 0 after the segyio.create context closed')
    ctx.rule('C06.3', 'segyio.spec receives the reader axes of the same axis; 2D takes the tracecount branch')
    ctx.rule('C06.4', 'traces and headers are written in the same ordinal order, index unchanged')
    ctx.rule('C06.5', 'DelayRecordingTime is regenerated from the first sample coordinate')
    ctx.rule('C06.6', 'the stored SEG-Y file header is written back verbatim: only the format-code fallback may patch it')
    ht = HR.HeaderTable(P, G)
    bf = binfields()
    by_off = {v - 1: k for k, v in bf.items()}
    offs = sorted(by_off)
    rows = {TB.role_of_row(r): r for r in ht.rows if TB.role_of_row(r) in (('SEGY_TEXT', None), ('SEGY_BIN', None))}
    text_lo = rows[('SEGY_TEXT', None)].lo
    bin_lo, bin_hi = rows[('SEGY_BIN', None)].lo, rows[('SEGY_BIN', None)].hi
    n = 0
    for s in ht.stores + ht.loads:
        if not (bin_lo <= s.lo and s.hi <= bin_hi and s.width < 400):
            continue
        n += 1
        file_off = s.lo - text_lo
        kind = 'store' if s.kind != 'load' else 'read'
        if file_off not in by_off:
            near = min(offs, key=lambda o: abs(o - file_off))
            ctx.fail('C06.1', s.func, s.stmt, 'the SEG-Y binary header is %s at file offset %d, which is no field of it (the '
                     'nearest is %s at offset %d = BinField.%s - 1)' % (
                         'patched' if kind == 'store' else 'decoded', file_off, by_off[near], near, by_off[near]),
                     line=s.node.lineno, key_extra=str(s.lo))
            continue
        name = by_off[file_off]
        nxt = [o for o in offs if o > file_off]
        width = (nxt[0] - file_off) if nxt else 2
        ft = TB.fmt_type(s.fmt) if s.fmt else None
        probs = []
        lit = None
        if s.kind != 'load' and ft is None and isinstance(s.value, ast.Constant) and isinstance(s.value.value, bytes):
            # the field written as a bytes literal: a big-endian integer of the width of the slice by construction
            lit = int.from_bytes(s.value.value, 'big')
            if len(s.value.value) == s.width:
                ft = ('big', 'uint', s.width)
        if s.width != width:
            probs.append('%d bytes are accessed, BinField.%s is %d bytes wide' % (s.width, name, width))
        if ft is None:
            probs.append('no integer codec')
        else:
            if ft[0] != 'big':
                probs.append('codec %s (%s) is %s-endian, SEG-Y is big-endian' % (s.codec, s.fmt, ft[0]))
            if ft[2] != s.width:
                probs.append('codec %s encodes %d bytes into a %d-byte slice' % (s.codec, ft[2], s.width))
        # role of what is stored / decoded vs the meaning of the field
        from ..axes import role_of
        BINROLE = {'Samples': ('COUNT', 'Z'), 'SamplesOriginal': ('COUNT', 'Z'), 'ExtSamples': ('COUNT', 'Z'),
                   'Interval': ('STEP', 'Z'), 'IntervalOriginal': ('STEP', 'Z'), 'ExtInterval': ('STEP', 'Z')}
        if s.kind != 'load':
            got = role_of(s.value, ht.resolver(s))
            if got is not None and got[0] in ('COUNT', 'STEP', 'ORIGIN') and BINROLE.get(name) != got:
                probs.append('`%s` is a %s of %s but BinField.%s holds %s' % (
                    U(s.value)[:30], got[0].lower(), got[1], name,
                    'the %s of %s' % (BINROLE[name][0].lower(), BINROLE[name][1]) if name in BINROLE else 'something else'))
            if name == 'Format' and lit is not None:
                if lit not in (1, 5):
                    probs.append('the format code %d is stored (only 1 and 5 are written by the exporter)' % lit)
            elif name == 'Format' and not (isinstance(s.value, ast.Constant) and s.value.value in (1, 5)) and \
                    'format' not in U(s.value).lower():
                probs.append('`%s` is stored into the format-code field' % U(s.value)[:30])
        else:
            par = parent(s.value)
            while par is not None and not isinstance(par, ast.Assign):
                par = parent(par)
            if par is not None:
                tname = U(par.targets[0]).lower()
                if name == 'Format' and 'format' not in tname:
                    probs.append('the format code is decoded into `%s`' % U(par.targets[0]))
                if name != 'Format' and 'format' in tname:
                    probs.append('`%s` is decoded from BinField.%s, not from BinField.Format' % (U(par.targets[0]), name))
        if probs:
            ctx.fail('C06.1', s.func, s.stmt, 'BinField.%s (file offset %d): %s' % (name, file_off, '; '.join(probs)),
                     line=s.node.lineno, key_extra=str(s.lo))
        else:
            ctx.ok('C06.1', s.func, '%s BinField.%s' % (kind, name), 'offset %d = BinField.%s - 1, %s, %d bytes' % (
                file_off, name, s.fmt, width))
    ctx.floor('C06.1', 3)
    header_last(ctx, ht, text_lo, bin_hi)
    spec_handover_c06(ctx)
    trace_order(ctx)
    delay(ctx)
    verbatim(ctx, text_lo, by_off)
    # the exporter takes every trace from get_trace(i): its addresses, decodes and crops (rules of C02) in every layout
    ctx.rule('C06.7', 'exported samples are the decoded ones: get_trace addresses, decodes and crops canonically in every layout mode')
    from .. import layoutrules as LR
    recs = [r for r in LR.collect(ctx.shared) if r.entry.name == 'get_trace']
    LR.report(ctx, recs, {'L1': 'C06.7', 'DEC': 'C06.7', 'L3': 'C06.7', 'L4': 'C06.7'})
    ctx.floor('C06.7', 6, 'reads / decodes / crops on the get_trace path')


def header_last(ctx, ht, lo, hi):
    P, G = ctx.P, ctx.G
    f = P.func('conversion.SgzConverter.write_segy')
    fm = FactMap(f.node)
    writes = [c for c in ast.walk(f.node) if isinstance(c, ast.Call) and isinstance(c.func, ast.Attribute) and
              c.func.attr == 'write' and c.args and 'headerbytes' in U(c.args[0])]
    if len(writes) != 1:
        raise AnalysisError('write_segy: expected one raw write of the stored file header, found %d' % len(writes))
    w = writes[0]
    facts = fm.facts_at(w) or frozenset()
    exited = [a for a in facts if a[0] == 'exited' and 'segyio.create' in a[1]]
    sl = w.args[0].slice if isinstance(w.args[0], ast.Subscript) else None
    rng = (TB.const_eval(P, f.module, sl.lower), TB.const_eval(P, f.module, sl.upper)) if isinstance(sl, ast.Slice) else None
    opened = [a for a in facts if a[0] == 'entered' and a[1].startswith('open(') and 'r+b' in a[1]]
    seeks = [c for c in ast.walk(f.node) if isinstance(c, ast.Call) and isinstance(c.func, ast.Attribute) and c.func.attr == 'seek']
    probs = []
    if not exited:
        probs.append('it is not dominated by the exit of the segyio.create context: segyio would overwrite it on close')
    if rng != (lo, hi):
        probs.append('it writes headerbytes[%s], the stored SEG-Y file header is [%d:%d)' % (U(sl), lo, hi))
    if not opened:
        probs.append('the handle is not opened r+b (in-place)')
    if seeks:
        probs.append('the handle is repositioned before the write (must be offset 0)')
    if probs:
        ctx.fail('C06.2', f, enclosing_stmt(w), 'raw file-header write: ' + '; '.join(probs), line=w.lineno)
    else:
        ctx.ok('C06.2', f, w, 'stored 3600 bytes written at offset 0 of an r+b handle after segyio.create closed')


def spec_handover_c06(ctx):
    before = dict(ctx.rule_counts.get('C05.1', [0, 0]).__class__ and {})
    n0 = len(ctx.findings)
    spec_handover(ctx)
    # re-label
    for fnd in ctx.findings[n0:]:
        fnd.rule = 'C06.3'
    if 'C05.1' in ctx.rule_counts:
        c = ctx.rule_counts.pop('C05.1')
        ctx.rule_counts.setdefault('C06.3', [0, 0])
        ctx.rule_counts['C06.3'][0] += c[0]
        ctx.rule_counts['C06.3'][1] += c[1]
    for s in ctx.samples:
        if s.get('rule') == 'C05.1':
            s['rule'] = 'C06.3'
    f = ctx.P.func('conversion.SgzConverter.convert_to_segy')
    fm = FactMap(f.node)
    for a in ast.walk(f.node):
        if isinstance(a, ast.Assign) and U(a.targets[0]) == 'spec.tracecount':
            facts = fm.facts_at(a) or frozenset()
            if ('F', 'self.is_3d') in facts or ('T', 'self.is_2d') in facts:
                ctx.ok('C06.3', f, a, '2D files take the tracecount branch')
            else:
                ctx.fail('C06.3', f, a, 'spec.tracecount is not confined to the 2D branch')
        if isinstance(a, ast.Assign) and U(a.targets[0]) in ('spec.ilines', 'spec.xlines'):
            facts = fm.facts_at(a) or frozenset()
            if ('T', 'self.is_3d') not in facts and ('F', 'self.is_2d') not in facts:
                ctx.fail('C06.3', f, a, '%s is set outside the 3D branch' % U(a.targets[0]))


def trace_order(ctx):
    P = ctx.P
    f = P.func('conversion.SgzConverter.write_segy')
    comps = {}
    for a in ast.walk(f.node):
        if isinstance(a, ast.Assign) and U(a.targets[0]) in ('segyfile.trace', 'segyfile.header') and \
                isinstance(a.value, ast.ListComp):
            comps[U(a.targets[0])] = (a, a.value)
    if len(comps) != 2:
        raise AnalysisError('write_segy: trace / header comprehensions not found')
    iters = set()
    for name, (a, c) in comps.items():
        g = c.generators[0]
        iters.add(U(g.iter))
        var = U(g.target)
        call = c.elt
        ok = isinstance(call, ast.Call) and len(call.args) == 1 and U(call.args[0]) == var and not g.ifs and \
            len(c.generators) == 1
        want = 'get_trace' if name.endswith('trace') else 'trace_header'
        if ok and want in U(call.func):
            ctx.ok('C06.4', f, a, '%s[i] = %s(i) for i in %s' % (name, U(call.func), U(g.iter)))
        else:
            ctx.fail('C06.4', f, a, '%s is not produced by applying the running index unchanged: `%s`' % (name, U(c)[:70]))
    if iters == {'range(self.tracecount)'}:
        ctx.ok('C06.4', f, 'range(self.tracecount)', 'traces and headers iterate the same ordinal range')
    else:
        ctx.fail('C06.4', f, comps['segyfile.header'][0], 'traces and headers iterate different ranges: %s' % sorted(iters))


def _strip_int(e):
    """peel int(..) / round(..) / np.round(..) / np.rint(..) wrappers -> (inner expression, wrappers)"""
    wr = []
    while isinstance(e, ast.Call) and len(e.args) >= 1 and U(e.func).split('.')[-1] in ('int', 'round', 'rint', 'round_', 'around', 'int32', 'int64'):
        wr.append(U(e.func).split('.')[-1])
        e = e.args[0]
    return e, wr


def delay(ctx):
    P = ctx.P
    f = P.func('conversion.SgzConverter.regenerate_trace_header')
    st = [a for a in ast.walk(f.node) if isinstance(a, ast.Assign) and 'DelayRecordingTime' in U(a.targets[0])]
    if not st:
        ctx.fail('C06.5', f, f.name, 'DelayRecordingTime is not regenerated from the first sample coordinate')
    else:
        inner, wr = _strip_int(st[0].value)
        if U(inner) == 'self.zslices[0]':
            ctx.ok('C06.5', f, st[0], 'DelayRecordingTime <- zslices[0] (whole milliseconds; %s)' % ('/'.join(wr) or 'as is'))
        elif isinstance(inner, ast.BinOp) and isinstance(inner.op, (ast.Add, ast.Sub)) and 'int' in wr and \
                'round' not in wr and 'rint' not in wr and \
                any(U(x) == 'self.zslices[0]' for x in (inner.left, inner.right)) and \
                any(isinstance(x, ast.Constant) for x in (inner.left, inner.right)):
            ctx.fail('C06.5', f, st[0], 'DelayRecordingTime is int(`%s`): int() truncates toward zero, so shifting the value before '
                     'truncation is not rounding - a negative first-sample time comes out 1 ms late in every exported trace '
                     'header (and the re-opened sample axis shifts with it)' % U(inner))
        elif 'self.zslices[0]' in U(st[0].value):
            raise AnalysisError('regenerate_trace_header: DelayRecordingTime expression `%s` follows no recognised idiom' % U(st[0].value)[:60])
        else:
            ctx.fail('C06.5', f, st[0], 'DelayRecordingTime is not regenerated from the first sample coordinate')
    base = [a for a in ast.walk(f.node) if isinstance(a, ast.Assign) and isinstance(a.value, ast.Call) and
            'gen_trace_header' in U(a.value.func)]
    if base and U(base[0].value.args[0]) == f.params[1]:
        ctx.ok('C06.5', f, base[0], 'header i is regenerated from stored header i')
    else:
        ctx.fail('C06.5', f, f.name, 'regenerate_trace_header does not start from gen_trace_header(i)')


def _in_fallback_branch(node, stop):
    """control dependence on the format-code test: the statement lies in the branch of an `if` that is taken only
    when a value is not one of the literal codes {1, 5}."""
    p, child = parent(node), node
    while p is not None and p is not stop:
        if isinstance(p, ast.If):
            t, neg = p.test, False
            while isinstance(t, ast.UnaryOp) and isinstance(t.op, ast.Not):
                t, neg = t.operand, not neg
            if isinstance(t, ast.Compare) and len(t.ops) == 1 and isinstance(t.ops[0], (ast.In, ast.NotIn)) and \
                    isinstance(t.comparators[0], (ast.Tuple, ast.List, ast.Set)):
                vals = {e.value for e in t.comparators[0].elts if isinstance(e, ast.Constant)}
                if vals == {1, 5} and len(t.comparators[0].elts) == 2:
                    member = isinstance(t.ops[0], ast.In) != neg     # branch body taken when value IS in {1,5}
                    in_body = any(child is x for x in p.body)
                    if in_body != member:
                        return True
        child, p = p, parent(p)
    return False


def verbatim(ctx, text_lo, by_off):
    """C06.6: on the export path the bytes written at offset 0 are self.headerbytes[4096:7696]; the only assignment to
    self.headerbytes outside the constructor and the only element stores into a copy of it are the format-code
    fallback, confined to the branch where the stored code is neither 1 nor 5."""
    P, G = ctx.P, ctx.G
    entry = P.func('conversion.SgzConverter.convert_to_segy')
    funcs = [entry] + [P.functions[q] for q in G.reach(entry) if P.functions[q].module.name == 'conversion']
    n = 0
    for f in funcs:
        fm = FactMap(f.node)
        copies = set()
        for a in ast.walk(f.node):
            if isinstance(a, ast.Assign) and isinstance(a.value, ast.Call) and U(a.value.func) in ('bytearray', 'bytes') and \
                    a.value.args and 'headerbytes' in U(a.value.args[0]) and isinstance(a.targets[0], ast.Name):
                copies.add(a.targets[0].id)
        for a in ast.walk(f.node):
            if not isinstance(a, (ast.Assign, ast.AugAssign)):
                continue
            tgts = a.targets if isinstance(a, ast.Assign) else [a.target]
            for t in tgts:
                is_attr = U(t) == 'self.headerbytes'
                is_elem = isinstance(t, ast.Subscript) and (U(t.value) in copies or U(t.value) == 'self.headerbytes')
                if not (is_attr or is_elem):
                    continue
                n += 1
                facts = fm.facts_at(a) or frozenset()
                fallback = any(x[0] == 'F' and ('in [1, 5]' in x[1] or 'in (1, 5)' in x[1]) for x in facts) or \
                    any(x[0] == 'notin' and '[1, 5]' in str(x) for x in facts) or _in_fallback_branch(a, f.node)
                if is_elem:
                    sl = t.slice
                    if isinstance(sl, ast.Name):
                        ds = [x for x in ast.walk(f.node) if isinstance(x, ast.Assign) and len(x.targets) == 1 and U(x.targets[0]) == sl.id]
                        sl = ds[0].value if len(ds) == 1 else sl
                    if isinstance(sl, ast.Call) and U(sl.func) == 'slice' and len(sl.args) >= 2:
                        sl = ast.Slice(lower=sl.args[0], upper=sl.args[1])
                    lo = TB.const_eval(P, f.module, sl.lower) if isinstance(sl, ast.Slice) and sl.lower is not None else None
                    name = by_off.get(lo - text_lo) if lo is not None else None
                    if name == 'Format' and fallback:
                        ctx.ok('C06.6', f, a, 'only BinField.Format is patched, and only when the stored code is not 1 or 5')
                    else:
                        ctx.fail('C06.6', f, a, 'the export path patches %s of the stored file header%s: the exported binary header is '
                                 'no longer byte-identical to the source\'s' % (
                                     'BinField.%s' % name if name else '`%s`' % U(t)[:50],
                                     '' if fallback else ' outside the format-code fallback'), line=a.lineno)
                else:
                    if fallback:
                        ctx.ok('C06.6', f, a, 'self.headerbytes is replaced only inside the format-code fallback')
                    else:
                        ctx.fail('C06.6', f, a, 'self.headerbytes is replaced on the export path outside the format-code fallback: '
                                 'the bytes written back are not the stored file header', line=a.lineno)
    if n < 2:
        raise AnalysisError('export path: the format-code fallback (copy, patch, re-assign) was not found')
