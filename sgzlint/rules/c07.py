"""C07 - I/O proportionality: single choke point, preload short-circuit, lengths are exact extents,
open reads the header only, 4 bytes per stored array, trace reads through the chunk LRU."""
import ast
from ..core import U, AnalysisError, parent, enclosing_stmt
from ..facts import FactMap
from .. import iorules as IO
from .. import readerfacts as RF
from .. import layoutrules as LR
from ..tables import const_eval

PROP = 'C07'
TECHNIQUE = 'static analysis: who-may-call over the resolved call graph + index algebra (digit normal forms) of every range read'
EXPLANATION = (
    'C07.1 who-may-call: the byte-moving primitives (handle.read / seek / download_blob / readall) occur only inside '
    'the two range-read primitives bound to file.read_range; inside the loader hierarchy the primitives are called '
    'only from the one (offset, length) choke point and the preload loader. C07.2: in the choke point the file read '
    'is the else-branch of the "in-memory copy exists" test; the copy is loaded under its own `is None` guard from '
    'data_start_bytes with the data-section length, and only from the constructor, under `if preload`. C07.3: every '
    'range read issued by every read entry point (symbolic evaluation of read.py + loader.py in 8 3D and 4 2D layout '
    'modes) has a length that is an *extent* (invariant under shifting the request by whole blocks), every decode '
    'consumes exactly the bytes supplied (rate*prod(shape)/8), and pieces assembled into one buffer tile it without '
    'overlap (so no byte is fetched twice by one call and nothing beyond the decoded units is fetched). C07.4: from '
    'SgzReader.__init__ the only range reads have offset 0 and length DISK_BLOCK_BYTES[*n_header_blocks] unless '
    'preload. C07.5: the per-trace header read has literal length 4 at offset FileOffset + 4*index inside the loop '
    'over stored keys on the structured, not-load-all branch. C07.6: get_trace reaches the chunk read only through '
    'the per-reader lru_cache wrapper whose maxsize flows from chunk_cache_size.')
EXPLANATION += (
    ' ADDED: Block-wise assembled arrays of the general loaders take part in the hull rule (the decoded region is the minimal aligned hull of the request on every axis).'
)
EXPLANATION += (
    ' ADDED (session 4): C07.5 second half - every call of read_variant_headers (whole arrays) inside gen_trace_header '
    'lies, on every path of a 3D file, under load_all_headers or not structured (path facts, disjunctive knowledge '
    'included): on a regular file with default arguments no path fetches whole arrays, whatever the reader did before.'
)
ASSUMPTIONS = [
    'request bounds are non-negative integers (C14 decides that they are checked)',
    'a fixed-rate ZFP stream of shape s occupies rate*prod(s)/8 bytes',
    'the two primitives fetch exactly [offset, offset+length) (one seek+read / one ranged download)',
]
NOT_DECIDED = ('The exact number of blocks per request as a cardinality over runtime boxes, warm-cache counts, what the '
               'Azure client does with a range request, stepped requests.')


def run(ctx):
    P, G = ctx.P, ctx.G
    ctx.rule('C07.1', 'byte-moving calls only inside the range-read primitives; primitives called from the choke points')
    ctx.rule('C07.2', 'preload short-circuit: read only when no in-memory copy; copy loaded once, from the constructor')
    ctx.rule('C07.3', 'range-read lengths are exact extents; decode consumes exactly what was read; pieces tile the buffer')
    ctx.rule('C07.4', 'opening a reader reads the header blocks only (unless preload)')
    ctx.rule('C07.5', 'header regeneration of a regular file reads 4 bytes per stored array')
    ctx.rule('C07.6', 'trace reads go through the per-reader chunk LRU sized from chunk_cache_size')
    choke_point(ctx)
    preload(ctx)
    recs = LR.collect(ctx.shared)
    LR.report(ctx, recs, {'L2': 'C07.3', 'DEC': 'C07.3', 'L3': 'C07.3', 'HULL': 'C07.3'})
    ctx.floor('C07.3', 18, 'read / decode / assembly sites')
    open_reads(ctx)
    header_reads(ctx)
    chunk_lru(ctx)


def choke_point(ctx):
    P, G = ctx.P, ctx.G
    prims = IO.io_primitives(P, G)
    pq = {p.qualname for p in prims}
    # positive control: the primitives themselves must match the raw-I/O pattern
    for pr in prims:
        raws = IO.raw_io_calls(pr)
        if not raws:
            raise AnalysisError('positive control failed: no raw I/O call recognised in %s' % pr.qualname)
        ctx.ok('C07.1', pr, pr.name, 'primitive performs the raw I/O (%s)' % ', '.join(sorted({c.func.attr for c in raws})))
    # read-API reach set
    reader = P.cls(RF.READER)
    scope = {}
    for c in RF.reader_classes(P):
        if c.qualname in ('cropping.SgzCropper', 'conversion.SgzConverter'):
            continue
        for m in c.methods.values():
            scope[m.qualname] = m
    for q in list(scope):
        for r in G.reach(scope[q]):
            if r not in pq:
                scope.setdefault(r, P.functions[r])
    for f in scope.values():
        for c in IO.raw_io_calls(f):
            if f.name == '__init__' and c.func.attr == 'seek' and c.args and U(c.args[0]) == '0':
                ctx.ok('C07.1', f, c, 'rewind of a caller-supplied handle at open (moves no bytes)', nontrivial=False)
                continue
            ctx.fail('C07.1', f, enclosing_stmt(c), 'raw I/O `%s` outside the range-read primitives: bytes are fetched '
                     'behind the choke point (not counted, not length-checked, not served from preload)' % U(c)[:60],
                     line=c.lineno)
    # inside the loader hierarchy the primitives are called only from the choke point + the preload loader
    lcls = [P.cls('loader.SgzLoader')] + P.cls('loader.SgzLoader').all_subclasses()
    callers = {}
    for pr in prims:
        for e in G.callers(pr):
            if e.caller.cls in lcls:
                callers.setdefault(e.caller.qualname, e)
    # role: choke point = the loader function taking (offset, length) that returns the read
    choke = [e for q, e in callers.items() if len(e.caller.params) == 3]
    if len(choke) != 1:
        raise AnalysisError('expected exactly one (offset, length) choke point in the loader, found %s' % sorted(callers))
    ctx.choke = choke[0].caller
    for q, e in sorted(callers.items()):
        if e.caller is ctx.choke:
            ctx.ok('C07.1', e.caller, e.call, 'the data-section choke point')
        elif e.caller.name.startswith('load_') and len(e.caller.params) == 1:
            ctx.ok('C07.1', e.caller, e.call, 'the preload loader')
        else:
            ctx.fail('C07.1', e.caller, enclosing_stmt(e.call), 'loader method %s calls the range-read primitive directly, '
                     'bypassing %s' % (e.caller.name, ctx.choke.name), line=e.call.lineno)
    # every other loader method reaches storage only through the choke point
    for c in lcls:
        for m in c.methods.values():
            for e in G.callees(m):
                if e.target is not None and e.target.qualname in pq and m.qualname not in callers:
                    ctx.fail('C07.1', m, enclosing_stmt(e.call), 'direct primitive call', line=e.call.lineno)
    ctx.floor('C07.1', 4)


def preload(ctx):
    P, G = ctx.P, ctx.G
    ch = ctx.choke
    fm = FactMap(ch.node)
    prims = {p.qualname for p in IO.io_primitives(P, G)}
    for e in G.callees(ch):
        if e.target is not None and e.target.qualname in prims:
            facts = fm.facts_at(e.call) or frozenset()
            vol = [a for a in facts if a[0] == 'is' and a[2] == 'None' and a[1].startswith('self.')]
            if vol:
                ctx.ok('C07.2', ch, e.call, 'file read only when %s is None (no in-memory copy)' % vol[0][1])
                ctx.volattr = vol[0][1]
            else:
                ctx.fail('C07.2', ch, enclosing_stmt(e.call), 'the choke point reads the file without first testing for '
                         'the preloaded copy: with preload the data section is fetched again', line=e.call.lineno)
            break
    volattr = getattr(ctx, 'volattr', 'self.compressed_volume')
    # the other branch serves a slice [offset : offset+length] of the copy
    rets = [r for r in ast.walk(ch.node) if isinstance(r, ast.Return)]
    served = [r for r in rets if isinstance(r.value, ast.Subscript) and U(r.value.value) == volattr]
    if served:
        sl = served[0].value.slice
        off, ln = ch.params[1], ch.params[2]
        if isinstance(sl, ast.Slice) and U(sl.lower) == off and U(sl.upper) in ('%s + %s' % (off, ln), '%s + %s' % (ln, off)):
            ctx.ok('C07.2', ch, served[0], 'preloaded copy is sliced [offset : offset+length]')
        else:
            ctx.fail('C07.2', ch, served[0], 'the preloaded copy is sliced `%s`, not [%s : %s + %s]' % (U(sl), off, off, ln))
    # the loader of the copy
    stores = [(f, st, v) for (f, st, v) in P.attr_stores_mro(ch.cls, volattr.split('.')[1]) if v is not None and U(v) != 'None']
    for (f, st, v) in stores:
        ffm = FactMap(f.node)
        facts = ffm.facts_at(st) or frozenset()
        if ('is', volattr, 'None') in facts:
            ctx.ok('C07.2', f, st, 'copy is loaded only when absent')
        else:
            ctx.fail('C07.2', f, st, 'the in-memory copy is (re)loaded without an `is None` guard: the data section can '
                     'be fetched more than once')
        if isinstance(v, ast.Call) and len(v.args) >= 3:
            if U(v.args[1]) == 'self.data_start_bytes' and 'compressed_data_diskblocks' in U(v.args[2]):
                ctx.ok('C07.2', f, v, 'copy = [data_start, data_start + data-section length)')
            else:
                ctx.fail('C07.2', f, st, 'the preloaded range (%s, %s) is not the data section' % (U(v.args[1]), U(v.args[2])))
        # callers: only constructors, under `if preload`
        for e in G.callers(f):
            cfm = FactMap(e.caller.node)
            cf = cfm.facts_at(e.call) or frozenset()
            if e.caller.name == '__init__' and ('T', 'preload') in cf:
                ctx.ok('C07.2', e.caller, e.call, 'loaded from the constructor under `if preload`')
            else:
                ctx.fail('C07.2', e.caller, enclosing_stmt(e.call), '%s is called from %s%s: the data section may be fetched '
                         'outside construction / without preload' % (f.name, e.caller.name,
                                                                      '' if ('T', 'preload') in cf else ' unconditionally'),
                         line=e.call.lineno)
    ctx.floor('C07.2', 4)


def open_reads(ctx):
    P, G = ctx.P, ctx.G
    init = P.func(RF.READER + '.__init__')
    prims = {p.qualname for p in IO.io_primitives(P, G)}
    n = 0
    for e in G.callees(init):
        if e.target is not None and e.target.qualname in prims:
            c = e.call
            key = (c.lineno, c.col_offset)
            if getattr(ctx, '_seen_open', None) is None:
                ctx._seen_open = set()
            if key in ctx._seen_open:
                continue
            ctx._seen_open.add(key)
            n += 1
            off = const_eval(P, init.module, c.args[1]) if len(c.args) > 1 else None
            ln = U(c.args[2]) if len(c.args) > 2 else ''
            if off == 0 and ln.replace(' ', '') in ('DISK_BLOCK_BYTES', 'DISK_BLOCK_BYTES*self.n_header_blocks',
                                                   'self.n_header_blocks*DISK_BLOCK_BYTES'):
                ctx.ok('C07.4', init, c, 'open reads [0, %s)' % ln)
            else:
                ctx.fail('C07.4', init, enclosing_stmt(c), 'opening a reader reads (%s, %s): more than the header blocks' % (
                    U(c.args[1]) if len(c.args) > 1 else '?', ln), line=c.lineno)
    if n < 2:
        raise AnalysisError('expected the two header reads of SgzReader.__init__, found %d' % n)
    # nothing else reachable from __init__ reads, except the preload loader (C07.2) and lazily-bound methods
    reach = G.reach(init)
    for q in sorted(reach):
        f = P.functions[q]
        for e in G.callees(f):
            if e.target is not None and e.target.qualname in prims and f is not init:
                if f.name.startswith('load_') or f is ctx.choke:
                    continue
                ctx.fail('C07.4', f, enclosing_stmt(e.call), '%s, reachable from SgzReader.__init__, performs a range read: '
                         'opening touches more than the header' % f.qualname, line=e.call.lineno)
    # the choke point must not be reachable from __init__ at all (other than via preload loader, which has its own read)
    if ctx.choke.qualname in reach:
        ctx.fail('C07.4', init, init.name, 'the data-section choke point is reachable from the constructor')
    else:
        ctx.ok('C07.4', init, 'reach(__init__)', 'no data-section read is reachable from the constructor except the preload loader '
               '(%d functions reachable)' % len(reach))


def header_reads(ctx):
    P, G = ctx.P, ctx.G
    f = P.func(RF.READER + '.gen_trace_header')
    prims = {p.qualname for p in IO.io_primitives(P, G)}
    fm3 = RF.factmap(P, f, '3d')
    found = False
    for e in G.callees(f):
        if e.target is not None and e.target.qualname in prims:
            if found:
                continue
            found = True
            c = e.call
            ln = const_eval(P, f.module, c.args[2]) if len(c.args) > 2 else None
            off = c.args[1] if len(c.args) > 1 else None
            facts = fm3.facts_at(c) or frozenset()
            loop = [a for a in facts if a[0] == 'in' and 'items()' in a[2]]
            probs = []
            if ln != 4:
                probs.append('length is %s, not 4' % (U(c.args[2]) if len(c.args) > 2 else '?'))
            okoff = False
            if isinstance(off, ast.BinOp) and isinstance(off.op, ast.Add):
                from .c04 import _from_template
                sides = [off.left, off.right]
                idx = [p for p in sides if U(p).replace(' ', '') in ('4*index', 'index*4')]
                base = [p for p in sides if p not in idx]
                # the base is a value of the header-word template (a FileOffset, tested on this path)
                if idx and base and ((loop and U(base[0]) in loop[0][1]) or _from_template(f, base[0])):
                    okoff = True
            if not okoff:
                probs.append('offset `%s` is not <stored array offset> + 4*index' % U(off))
            if ('T', 'self.structured') not in facts or ('F', 'load_all_headers') not in facts:
                probs.append('not confined to the structured, not-load-all branch')
            if not any(a[0] == 'T' and 'FileOffset' in a[1] for a in facts):
                probs.append('not restricted to stored (FileOffset) fields')
            if probs:
                ctx.fail('C07.5', f, enclosing_stmt(c), 'per-trace header read: ' + '; '.join(probs), line=c.lineno)
            else:
                ctx.ok('C07.5', f, c, '4 bytes at <array offset> + 4*index, once per stored key, structured files only')
    if not found:
        raise AnalysisError('gen_trace_header no longer performs a range read')
    # the other half: whole header arrays are fetched only when the caller asked for them (load_all_headers) or the file
    # is not a regular grid - on no path of a regular file with the default arguments, whatever the reader did before
    rv = P.func(RF.READER + '.read_variant_headers')
    for e in G.callees(f):
        if e.target is rv:
            paths = fm3.paths_at(e.call) or []
            def allowed(p):
                if ('T', 'load_all_headers') in p or ('F', 'self.structured') in p:
                    return True
                for a in p:
                    # disjunctive knowledge kept as a compound atom: every disjunct is one of the two allowed reasons
                    if a[0] == 'T' and isinstance(a[1], str) and ' or ' in a[1]:
                        try:
                            t = ast.parse(a[1], mode='eval').body
                        except SyntaxError:
                            continue
                        if isinstance(t, ast.BoolOp) and isinstance(t.op, ast.Or) and \
                                all(U(v) in ('load_all_headers', 'not self.structured') for v in t.values):
                            return True
                    # .. or as a falsified conjunction: not (structured and not load_all_headers)
                    if a[0] == 'F' and isinstance(a[1], str) and ' and ' in a[1]:
                        try:
                            t = ast.parse(a[1], mode='eval').body
                        except SyntaxError:
                            continue
                        if isinstance(t, ast.BoolOp) and isinstance(t.op, ast.And) and \
                                all(U(v) in ('self.structured', 'not load_all_headers') for v in t.values):
                            return True
                return False
            bad = [p for p in paths if not allowed(p)]
            if bad:
                extra = sorted({a[1] for p in bad for a in p if a[0] in ('T', 'F', '>', '<', '!=', '==', '>=', '<=') and
                                isinstance(a[1], str) and 'variant_headers' in ' '.join(str(x) for x in a)})
                ctx.fail('C07.5', f, enclosing_stmt(e.call), 'whole header arrays are fetched on a path of a regular file without '
                         'load_all_headers%s: regenerating one header then costs the full arrays instead of 4 bytes per stored '
                         'array' % (' (taken depending on %s - the state left by earlier calls)' % extra[0] if extra else ''),
                         line=e.call.lineno, key_extra='whole-arrays')
            else:
                ctx.ok('C07.5', f, e.call, 'whole-array load only under load_all_headers or for irregular files')


def chunk_lru(ctx):
    P, G = ctx.P, ctx.G
    init = P.func(RF.READER + '.__init__')
    wr = [n for n in ast.walk(init.node) if isinstance(n, ast.Assign) and isinstance(n.value, ast.Call) and
          isinstance(n.value.func, ast.Call) and U(n.value.func.func).split('.')[-1] == 'lru_cache']
    if len(wr) != 1:
        raise AnalysisError('expected one per-reader lru_cache wrapper in SgzReader.__init__, found %d' % len(wr))
    w = wr[0]
    attr = U(w.targets[0])
    wrapped = U(w.value.args[0]) if w.value.args else ''
    ms = [k.value for k in w.value.func.keywords if k.arg == 'maxsize'] or list(w.value.func.args)
    if ms and U(ms[0]) == 'chunk_cache_size':
        ctx.ok('C07.6', init, w, 'LRU size is chunk_cache_size')
    else:
        ctx.fail('C07.6', init, w, 'the chunk LRU is sized by `%s`, not chunk_cache_size' % (U(ms[0]) if ms else 'default'))
    # default size from the IL / XL block counts, in that order
    dflt = [n for n in ast.walk(init.node) if isinstance(n, ast.Assign) and U(n.targets[0]) == 'chunk_cache_size'
            and isinstance(n.value, ast.Call)]
    for d in dflt:
        args = [U(a).replace(' ', '') for a in d.value.args]
        want = ['self.shape_pad[0]//self.blockshape[0]', 'self.shape_pad[1]//self.blockshape[1]']
        if args == want:
            ctx.ok('C07.6', init, d, 'default size computed from the IL and XL chunk counts')
        else:
            ctx.fail('C07.6', init, d, 'default chunk-cache size is computed from %s, not from the IL and XL chunk counts' % args)
    # get_trace goes through the wrapper, never the raw method
    raw_name = wrapped.split('.')[-1]
    for f in P.cls(RF.READER).methods.values():
        for n in ast.walk(f.node):
            if isinstance(n, ast.Call) and U(n.func) == wrapped and f is not init:
                ctx.fail('C07.6', f, enclosing_stmt(n), '%s calls %s directly, bypassing the chunk LRU' % (f.name, raw_name),
                         line=n.lineno)
            elif isinstance(n, ast.Call) and U(n.func) == attr:
                ctx.ok('C07.6', f, n, 'chunk read goes through the LRU wrapper')
    ctx.floor('C07.6', 3)
