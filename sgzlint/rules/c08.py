"""C08 - irregular 3D surveys: slot roles, key order, zero fill, line-number arithmetic, mask plumbing."""
import ast
from ..core import U, AnalysisError, parent, enclosing_stmt
from ..facts import FactMap
from .. import facts as FX
from .. import headerrules as HR
from .. import tables as TB
from .. import producers as PR
from .. import readerfacts as RF
from ..axes import axis_of_text, role_of
from .c01 import fillers_of, edge_rules

PROP = 'C08'
EXPLANATION = (
    'C08.1: on the `unstructured` branch of the fresh-header writer the origin and step of each axis go to the field '
    'of that axis (name-seeded axis tags vs the role parsed from the specification row). C08.2: the (inline, '
    'crossline) tuple built for the lookup in the irregular plane filler has the component order of the dictionary '
    'key built from the trace headers (fields 189, 193) and InferredGeometry3d takes k[0] as IL, k[1] as XL. C08.3 '
    'zero fill: the plane-set buffer is allocated by np.zeros inside the plane-set loop, the irregular filler stores '
    'only under the membership test, and the header arrays are re-allocated zero-filled with the grid size on the '
    'InferredGeometry3d branch. C08.4: inline ordinal -> line number uses step and origin of the same axis. C08.5 '
    'reader: the population mask is decoded from the array of field 189 with the unpadded array length; get_trace '
    'applies the ordinal -> grid-position map unless called with the override, and exactly the diagonal readers pass '
    'the override; header reads of an unstructured file go through the masked arrays. C08.6: the trace-count field '
    'carries the source trace count on this branch.')
EXPLANATION += (
    ' ADDED: The irregular filler is checked on polynomials over (plane_set_id, blockshape[k], i, il_step, min_il, len(geom.xlines), crossline ordinal / number): key order, inline number = (set*bs0 + i)*il_step + min_il, header position = xl ordinal + (set*bs0 + i)*grid width, stores only under the membership test (`key in traces_ref` or `traces_ref.get(key) is not None`). C08.5: the trace ordinal becomes a grid position by selecting the i-th populated mask entry (arange[mask][i], flatnonzero(mask)[i], nonzero/where(mask)[0][i]); a trace ordinal that subscripts the mask itself is a frame error. C08.6 has a floor and also covers an unconditional store.'
)
EXPLANATION += (
    ' ADDED (round 4): C08.7 - thorough detection turns a stored array into a table constant only under np.all(A == A[k]) with A the WHOLE array headers_dict[word] (or the value variable of the loop over its items): a test on a subset (zeros / unpopulated positions dropped) makes a word that is 0 on some real traces constant. C08.2 reads which key component an id collection holds from how it was built (comprehension or .add(key[k]) loop), not from its name.'
)
EXPLANATION += (
    ' C08.2 also: each Geometry3d argument of the inferred geometry is built only from quantities of its own axis (a crossline bound must not contain the inline step).'
)
ASSUMPTIONS = ['header codes 189 / 193 are INLINE_3D / CROSSLINE_3D', 'names denote what they say']
NOT_DECIDED = ('Correctness of the inferred grid for arbitrary subsets ((max-min)//(len-1) is data dependent); the values '
               'read; bitwise equality with the zero-filled ZFP image.')


def constancy_test(ctx, rule):
    """A stored header array is turned into a table constant (update_table + removal from headers_dict) only when every
    entry of the array - holes included: a hole reads back as zero, and so must a header word that is zero on a real
    trace - equals one value: the guard is np.all(A == A[k]) over the WHOLE array A = headers_dict[word].  A test on a
    subset (zeros dropped, a stride, the populated traces only) makes words with values {0, c} constant c."""
    P, G = ctx.P, ctx.G
    n = 0
    for f in P.functions.values():
        for d in ast.walk(f.node):
            if not (isinstance(d, ast.Delete) and any('headers_dict[' in U(t) for t in d.targets)):
                continue
            n += 1
            # the guarding test
            g = parent(d)
            while g is not None and g is not f.node and not isinstance(g, ast.If):
                g = parent(g)
            if not isinstance(g, ast.If):
                ctx.fail(rule, f, d, 'a header array is removed unconditionally')
                continue
            t = g.test
            key = U(d.targets[0])       # <dict>[word]
            ok = False
            why = 'the removal is not guarded by np.all(<array> == <array>[k])'
            if isinstance(t, ast.Call) and U(t.func).split('.')[-1] == 'all' and len(t.args) == 1 and \
                    isinstance(t.args[0], ast.Compare) and len(t.args[0].ops) == 1 and isinstance(t.args[0].ops[0], ast.Eq):
                l, r = t.args[0].left, t.args[0].comparators[0]

                def whole(e, depth=0):
                    # the array itself: <dict>[word], or a local bound exactly once to it
                    if U(e) == key:
                        return True
                    if isinstance(e, ast.Name) and depth < 3:
                        # the value variable of a loop over <dict>.items() whose key variable is the removed word
                        tnode = d.targets[0]
                        for lp in ast.walk(f.node):
                            if isinstance(lp, ast.For) and isinstance(lp.target, ast.Tuple) and len(lp.target.elts) == 2 and \
                                    U(lp.target.elts[1]) == e.id and U(lp.target.elts[0]) == U(tnode.slice) and \
                                    (U(tnode.value) + '.items()') in U(lp.iter) and any(d is x for x in ast.walk(lp)) and \
                                    not any(isinstance(a, (ast.Assign, ast.AugAssign)) and any(
                                        isinstance(y, ast.Name) and y.id == e.id and isinstance(y.ctx, ast.Store) for y in ast.walk(a))
                                        for b in lp.body for a in ast.walk(b)):
                                return True
                        defs = [a for a in ast.walk(f.node) if isinstance(a, ast.Assign) and len(a.targets) == 1 and U(a.targets[0]) == e.id]
                        others = [a for a in ast.walk(f.node) if isinstance(a, (ast.AugAssign,)) and U(a.target) == e.id]
                        return len(defs) == 1 and not others and whole(defs[0].value, depth + 1)
                    return False
                elem = r if whole(l) else l if whole(r) else None
                arr = l if whole(l) else r if whole(r) else None
                if arr is None:
                    why = 'the constancy test `%s` is evaluated on `%s`, not on the whole array %s: entries left out (zeros, ' \
                          'unpopulated positions, a stride) can differ from the constant that is stored' % (
                              U(t)[:60], U(l if not whole(l) else r)[:30], key)
                elif isinstance(elem, ast.Subscript) and whole(elem.value) and not isinstance(elem.slice, (ast.Slice, ast.Tuple)):
                    ok = True
                else:
                    why = 'the array is compared with `%s`, not with one of its own entries' % U(elem)[:40]
            if ok:
                ctx.ok(rule, f, g.test, 'array dropped only when every entry (holes included) equals one of its entries')
            else:
                ctx.fail(rule, f, g, why, line=g.lineno)
    if n < 1:
        raise AnalysisError('no removal from headers_dict found (the thorough re-classification)')


def run(ctx):
    P, G = ctx.P, ctx.G
    ctx.rule('C08.7', 'thorough detection drops a stored header array only when every entry of the whole array equals one value')
    constancy_test(ctx, 'C08.7')
    ctx.rule('C08.1', 'unstructured branch: origin/step of each axis go to the field of that axis')
    ctx.rule('C08.2', 'lookup key order (IL, XL) = dictionary key order (189, 193)')
    ctx.rule('C08.3', 'holes are zero: fresh zero buffer per plane set, membership-guarded stores, zero header arrays of grid size')
    ctx.rule('C08.4', 'ordinal -> line number uses step and origin of the same axis')
    ctx.rule('C08.5', 'reader: mask from field 189, ordinal map in get_trace, override only from the diagonals')
    ctx.rule('C08.6', 'trace-count field carries the source trace count')
    ht = HR.HeaderTable(P, G)
    HR.check_roles(ctx, ht, 'C08.1', select=lambda s: ht.branch_of(s) == 'unstructured' or
                   (TB.role_of_row(ht.row_of(s)[0]) or ('',))[0] == 'ORIGIN' and 'unstructured' in U(
                       ht.resolver(s)(U(s.value)) if isinstance(s.value, ast.Name) and ht.resolver(s)(U(s.value)) is not None
                       else s.value))
    ctx.floor('C08.1', 3)
    key_order(ctx)
    zero_fill(ctx)
    mask_plumbing(ctx)
    # C08.6
    from .c05 import structured
    n0 = len(ctx.findings)
    class _Proxy:
        pass
    # reuse the trace-count slot rule
    from .c03 import size_slots
    for s in size_slots(ht, 'TRACECOUNT'):
        if TB.header_buffers(P, s.func).get(s.buf) != 'fresh':
            continue
        e = s.value
        if isinstance(e, ast.IfExp) and 'unstructured' in U(e.test):
            if role_of(e.body, ht.resolver(s)) == ('COUNT', 'TRACE'):
                ctx.ok('C08.6', s.func, s.stmt, 'unstructured -> source trace count')
            else:
                ctx.fail('C08.6', s.func, s.stmt, 'on the unstructured branch the trace-count field receives `%s`' % U(e.body))
        elif ht.branch_of(s) == 'unstructured':
            if role_of(e, ht.resolver(s)) == ('COUNT', 'TRACE'):
                ctx.ok('C08.6', s.func, s.stmt, 'unstructured -> source trace count')
            else:
                ctx.fail('C08.6', s.func, s.stmt, 'on the unstructured branch the trace-count field receives `%s`' % U(e))
        elif ht.branch_of(s) in ('any',):
            r = role_of(e, ht.resolver(s))
            if r == ('COUNT', 'TRACE'):
                ctx.ok('C08.6', s.func, s.stmt, 'the trace-count field receives the source trace count')
            else:
                ctx.fail('C08.6', s.func, s.stmt, 'the trace-count field receives `%s` whatever the geometry: for an irregular survey '
                         'this is the grid size, so the file reports structured = True and a trace count that includes the '
                         'holes' % U(e)[:60])
    ctx.floor('C08.6', 1, 'trace-count store of the fresh header')


def bool_equiv(e, atoms, ref):
    """propositional equivalence of a boolean expression over the given attribute atoms with a reference function
    (truth table over the expression's own atoms - a finite boolean domain, not an enumeration of inputs)."""
    import itertools

    def ev(x, env):
        if isinstance(x, ast.BoolOp):
            vals = [ev(v, env) for v in x.values]
            if any(v is None for v in vals):
                return None
            return all(vals) if isinstance(x.op, ast.And) else any(vals)
        if isinstance(x, ast.UnaryOp) and isinstance(x.op, ast.Not):
            v = ev(x.operand, env)
            return None if v is None else (not v)
        t = U(x)
        if t in env:
            return env[t]
        return None
    for vals in itertools.product([False, True], repeat=len(atoms)):
        env = dict(zip(atoms, vals))
        r = ev(e, env)
        if r is None or bool(r) != bool(ref(*vals)):
            return False
    return True


def _key_component(v):
    """'0' / '1' when v collects component 0 / 1 of every key of the trace dictionary: a comprehension (possibly inside
    set(..)) over <dict>.keys() or <dict> whose element is <loop variable>[0|1]."""
    for c in ast.walk(v):
        if isinstance(c, (ast.ListComp, ast.SetComp, ast.GeneratorExp)) and len(c.generators) == 1 and \
                isinstance(c.generators[0].target, ast.Name) and 'traces_ref' in U(c.generators[0].iter) and \
                isinstance(c.elt, ast.Subscript) and isinstance(c.elt.value, ast.Name) and \
                c.elt.value.id == c.generators[0].target.id and isinstance(c.elt.slice, ast.Constant) and c.elt.slice.value in (0, 1):
            return str(c.elt.slice.value)
    return None


def _collection_component(f, e):
    """'0' / '1' when the expression (a name) is a collection of component 0 / 1 of the trace-dictionary keys: bound to a
    comprehension of them, or filled by `.add(key[k])` / `.append(key[k])` in a loop over the dictionary."""
    c = _key_component(e)
    if c is not None:
        return c
    if not isinstance(e, ast.Name):
        return None
    found = set()
    for a in ast.walk(f.node):
        if isinstance(a, ast.Assign) and len(a.targets) == 1 and U(a.targets[0]) == e.id:
            c = _key_component(a.value)
            if c is not None:
                found.add(c)
        if isinstance(a, ast.For) and 'traces_ref' in U(a.iter) and isinstance(a.target, ast.Name):
            for x in ast.walk(a):
                if isinstance(x, ast.Call) and isinstance(x.func, ast.Attribute) and x.func.attr in ('add', 'append') and \
                        U(x.func.value) == e.id and len(x.args) == 1 and isinstance(x.args[0], ast.Subscript) and \
                        U(x.args[0].value) == a.target.id and isinstance(x.args[0].slice, ast.Constant) and x.args[0].slice.value in (0, 1):
                    found.add(str(x.args[0].slice.value))
    return found.pop() if len(found) == 1 else None


def key_order(ctx):
    P, G = ctx.P, ctx.G
    # dictionary key built from the headers
    ig = P.func('conversion.SeismicFileConverter.infer_geometry')
    keys = [n for n in ast.walk(ig.node) if isinstance(n, ast.DictComp)]
    if not keys or not isinstance(keys[0].key, ast.Tuple):
        raise AnalysisError('infer_geometry: dictionary comprehension keyed by a tuple not found')
    codes = []
    for e in keys[0].key.elts:
        if isinstance(e, ast.Subscript):
            c = TB.tracefield_code(P, ig, e.slice)
            codes.append(str(c) if c is not None else U(e.slice))
    if codes == ['189', '193']:
        ctx.ok('C08.2', ig, keys[0], 'key = (h[189], h[193]) = (inline, crossline)')
    else:
        ctx.fail('C08.2', ig, keys[0], 'trace lookup key is built from header fields %s, expected (189, 193)' % codes)
    geo = P.cls('utils.InferredGeometry3d').methods['__init__']
    for a in ast.walk(geo.node):
        comp = _key_component(a.value) if isinstance(a, ast.Assign) and isinstance(a.targets[0], ast.Name) else None
        if comp is not None:
            ax = axis_of_text(U(a.targets[0]))
            want = {'IL': '0', 'XL': '1'}.get(ax)
            if want == comp:
                ctx.ok('C08.2', geo, a, '%s ids from key component %s' % (ax, comp))
            else:
                ctx.fail('C08.2', geo, a, '%s is taken from key component %s' % (U(a.targets[0]), comp))
    # range assignment: min/max/step of each axis from its own id set
    for a in ast.walk(geo.node):
        if isinstance(a, ast.Assign) and isinstance(a.targets[0], ast.Tuple) and isinstance(a.value, ast.Call) and \
                'get_range' in U(a.value.func):
            tg = {axis_of_text(U(t)) for t in a.targets[0].elts}
            src = axis_of_text(U(a.value.args[0])) if a.value.args else None
            # the id collection is what it was built from: component 0 / 1 of the keys, whatever it is called
            comp_src = _collection_component(geo, a.value.args[0]) if a.value.args else None
            if comp_src is not None:
                src = {'0': 'IL', '1': 'XL'}[comp_src]
            elif src is None:
                raise AnalysisError('InferredGeometry3d.__init__: cannot tell which key component `%s` collects' % U(a.value.args[0]))
            if tg == {src} and src in ('IL', 'XL'):
                ctx.ok('C08.2', geo, a, '%s range from %s ids' % (src, src))
            else:
                ctx.fail('C08.2', geo, a, 'the %s range is computed from the %s ids' % ('/'.join(sorted(x for x in tg if x)), src))
    # super().__init__(min_il, max_il + 1, min_xl, max_xl + 1, il_step=, xl_step=)
    for c in ast.walk(geo.node):
        if isinstance(c, ast.Call) and isinstance(c.func, ast.Attribute) and c.func.attr == '__init__' and 'super' in U(c.func):
            base = P.cls('utils.Geometry3d').methods['__init__']
            params = base.params[1:]
            bound = dict(zip(params, c.args))
            for k in c.keywords:
                bound[k.arg] = k.value
            bad = []
            for p_, v in bound.items():
                pa = axis_of_text(p_)
                if pa not in ('IL', 'XL'):
                    continue
                leaf_axes = {axis_of_text(U(x)) for x in ast.walk(v) if isinstance(x, (ast.Name, ast.Attribute))} - {None, 'MIXED'}
                if leaf_axes - {pa}:
                    bad.append('%s <- `%s`' % (p_, U(v)))
            if bad:
                ctx.fail('C08.2', geo, enclosing_stmt(c), 'Geometry3d parameters receive quantities of the other axis: %s - the '
                         'inferred grid of that axis gets the wrong extent' % '; '.join(bad))
            else:
                ctx.ok('C08.2', geo, c, 'ranges are handed to Geometry3d axis by axis')
    # the lookup tuple in the filler, the inline number, the header store position - on polynomials
    irregular_filler(ctx)
    ctx.floor('C08.2', 5)
    ctx.floor('C08.4', 2)


IRR_ATOMS = {'plane_set_id': 'SET', 'blockshape[0]': 'BS0', 'blockshape[1]': 'BS1', 'blockshape[2]': 'BS2', 'i': 'i',
             'geom.il_step': 'IL_STEP', 'geom.xl_step': 'XL_STEP', 'geom.min_il': 'MIN_IL', 'geom.min_xl': 'MIN_XL',
             'len(geom.xlines)': 'WXL', 'len(geom.ilines)': 'WIL'}


def _membership(t):
    """the construct that decides whether a grid position carries a trace: (key expression, guarding If, id name)
    Accepted idioms: `if key in <x>.traces_ref:`  and  `v = <x>.traces_ref.get(key)` ... `if v is not None:`."""
    for n in ast.walk(t.node):
        if isinstance(n, ast.If) and isinstance(n.test, ast.Compare) and len(n.test.ops) == 1:
            op = n.test.ops[0]
            if isinstance(op, ast.In) and 'traces_ref' in U(n.test.comparators[0]):
                return n.test.left, n, None
            if isinstance(op, ast.IsNot) and U(n.test.comparators[0]) == 'None' and isinstance(n.test.left, ast.Name):
                v = n.test.left.id
                for a in ast.walk(t.node):
                    if isinstance(a, ast.Assign) and U(a.targets[0]) == v and isinstance(a.value, ast.Call) and \
                            isinstance(a.value.func, ast.Attribute) and a.value.func.attr == 'get' and \
                            'traces_ref' in U(a.value.func.value) and len(a.value.args) == 1:
                        return a.value.args[0], n, v
    return None, None, None


def irregular_filler(ctx):
    from ..capture import Frame
    from ..algebra import A as At
    P, G = ctx.P, ctx.G
    pl, prods = PR.producers(P, G)
    found = 0
    for pr in prods:
        fl, bufs = fillers_of(P, G, pr)
        for (t, bp, e) in fl:
            if 'traces_ref' not in U(t.node):
                continue
            found += 1
            key, guard, idname = _membership(t)
            if key is None:
                unguarded = [st_ for st_ in ast.walk(t.node) if isinstance(st_, ast.Assign) and
                             isinstance(st_.targets[0], ast.Subscript) and U(st_.targets[0].value) == bp]
                tries = [x for x in ast.walk(t.node) if isinstance(x, ast.Try)]
                if unguarded and not tries:
                    ctx.fail('C08.3', t, unguarded[0], 'the irregular filler stores into the zero-filled plane buffer without testing '
                             'whether the grid position carries a trace: holes receive samples (and headers) of another trace')
                    continue
                raise AnalysisError('%s: the test whether a grid position carries a trace was not recognised' % t.qualname)
            # resolve a key held in a local
            if isinstance(key, ast.Name):
                ds = [a for a in ast.walk(t.node) if isinstance(a, ast.Assign) and U(a.targets[0]) == key.id]
                if len(ds) == 1:
                    key = ds[0].value
            if not (isinstance(key, ast.Tuple) and len(key.elts) == 2):
                raise AnalysisError('%s: lookup key `%s` is not a pair' % (t.qualname, U(key)[:40]))
            # loop variables: ordinal / number of the crossline loop
            xl_ord = xl_num = None
            for lp in ast.walk(t.node):
                if isinstance(lp, ast.For) and isinstance(lp.iter, ast.Call) and U(lp.iter.func) == 'enumerate' and \
                        'xlines' in U(lp.iter.args[0]) and isinstance(lp.target, ast.Tuple):
                    xl_ord, xl_num = U(lp.target.elts[0]), U(lp.target.elts[1])
                elif isinstance(lp, ast.For) and 'geom.xlines' in U(lp.iter) and isinstance(lp.target, ast.Name):
                    xl_num = lp.target.id
            atoms = dict(IRR_ATOMS)
            if xl_ord:
                atoms[xl_ord] = 'XL_ORD'
            if xl_num:
                atoms[xl_num] = 'XL_NUM'
            fr = Frame(t, atoms)
            il_ord = At('SET') * At('BS0') + At('i')
            k0, k1 = fr.ev(key.elts[0]), fr.ev(key.elts[1])
            if k0 is None or k1 is None:
                raise AnalysisError('%s: lookup key `%s` does not normalise' % (t.qualname, U(key)[:60]))
            # C08.2 key order
            if 'XL_NUM' in k0.atoms() or ('IL_STEP' in k1.atoms() or 'MIN_IL' in k1.atoms()):
                ctx.fail('C08.2', t, enclosing_stmt(key), 'lookup key components are (crossline, inline); the dictionary built in '
                         'infer_geometry is keyed (inline number, crossline number)', line=key.lineno)
            else:
                ctx.ok('C08.2', t, key, 'lookup key = (inline number, crossline number)')
            # C08.4 inline number = ordinal * own step + own origin
            want = il_ord * At('IL_STEP') + At('MIN_IL')
            if k0 == want:
                ctx.ok('C08.4', t, key.elts[0], 'inline number = (set*bs0 + i) * il_step + min_il')
            else:
                ctx.fail('C08.4', t, enclosing_stmt(key), 'inline number of the lookup key is %r, not (plane_set_id*blockshape[0] + i) * '
                         'geom.il_step + geom.min_il: traces are placed on the wrong inline of the inferred grid' % (k0,), line=key.lineno)
            if k1 == At('XL_NUM') or k1 == At('XL_ORD') * At('XL_STEP') + At('MIN_XL'):
                ctx.ok('C08.4', t, key.elts[1], 'crossline number of the grid column being filled')
            else:
                ctx.fail('C08.4', t, enclosing_stmt(key), 'crossline component of the lookup key is %r, not the crossline number of the '
                         'column being filled' % (k1,), line=key.lineno)
            # header store position: every subscript store into a header array inside the guard
            n_store = 0
            for st in ast.walk(guard):
                if isinstance(st, ast.Assign) and isinstance(st.targets[0], ast.Subscript) and \
                        U(st.targets[0].value) not in (bp,) and isinstance(st.targets[0].slice, (ast.Name, ast.BinOp)):
                    pos = fr.ev(st.targets[0].slice)
                    if pos is None:
                        raise AnalysisError('%s: header store position `%s` does not normalise' % (t.qualname, U(st.targets[0].slice)))
                    n_store += 1
                    want_pos = At('XL_ORD') + il_ord * At('WXL')
                    if pos == want_pos:
                        ctx.ok('C08.4', t, st, 'header position = crossline ordinal + inline ordinal * grid width')
                    else:
                        hint = ''
                        if 'BS1' in pos.atoms():
                            hint = ' (it uses the crossline component of the blockshape for the inline group size)'
                        elif 'WIL' in pos.atoms():
                            hint = ' (it uses the inline count as the row width)'
                        ctx.fail('C08.4', t, st, 'header store position is %r, not xl_ordinal + (plane_set_id*blockshape[0] + i) * '
                                 'len(geom.xlines)%s: headers of the inferred grid land on the wrong traces' % (pos, hint))
            if n_store < 1:
                raise AnalysisError('%s: no header store found under the membership test' % t.qualname)
    if found < 1:
        raise AnalysisError('irregular plane filler not found')


def zero_fill(ctx):
    P, G = ctx.P, ctx.G
    pl, prods = PR.producers(P, G)
    n = 0
    for pr in prods:
        fl, bufs = fillers_of(P, G, pr)
        irr = [(t, bp, e) for (t, bp, e) in fl if 'traces_ref' in U(t.node)]
        if not irr:
            continue
        f = pr.func
        fm = FactMap(f.node)
        for (t, bp, e) in irr:
            n += 1
            facts = fm.facts_at(e.call) or frozenset()
            if ('T', 'isinstance(geom, InferredGeometry3d)') in facts:
                ctx.ok('C08.3', f, e.call, 'irregular filler is selected by isinstance(geom, InferredGeometry3d)')
            else:
                ctx.fail('C08.3', f, enclosing_stmt(e.call), 'the irregular filler is not confined to the InferredGeometry3d branch')
            # the buffer handed over is allocated by np.zeros inside the group loop
            bname = U(e.binding[bp])
            allocs = [a for a in ast.walk(f.node) if isinstance(a, ast.Assign) and U(a.targets[0]) == bname]
            ok = len(allocs) == 1 and U(allocs[0].value.func).split('.')[-1] == 'zeros' and pr.group_loop is not None and \
                any(allocs[0] is x for x in ast.walk(pr.group_loop))
            if ok:
                ctx.ok('C08.3', f, allocs[0], 'fresh np.zeros buffer for every plane set')
            else:
                ctx.fail('C08.3', f, allocs[0] if allocs else f.name, 'the plane-set buffer is not a fresh np.zeros allocation inside '
                         'the plane-set loop: holes would carry samples of an earlier set')
            stores = [s for s in ast.walk(t.node) if isinstance(s, ast.Assign) and isinstance(s.targets[0], ast.Subscript)
                      and U(s.targets[0].value) in (bp, 'array')]
            _k, guard_if, _v = _membership(t)
            for s in stores:
                guarded = False
                p = parent(s)
                while p is not None and p is not t.node:
                    if p is guard_if and any(s is x for b_ in p.body for x in ast.walk(b_)):
                        guarded = True
                    p = parent(p)
                if guarded:
                    ctx.ok('C08.3', t, s, 'store only for grid positions that have a trace')
                else:
                    ctx.fail('C08.3', t, s, 'store into the buffer / header array outside the membership test')
        # header arrays re-allocated with the grid size
        re_alloc = [a for a in ast.walk(f.node) if isinstance(a, ast.Assign) and isinstance(a.targets[0], ast.Subscript) and
                    'headers_dict' in U(a.targets[0].value)]
        good = False
        for a in re_alloc:
            facts = fm.facts_at(a) or frozenset()
            from .c11 import _factors
            zs = [c for c in ast.walk(a.value) if isinstance(c, ast.Call) and U(c.func).split('.')[-1] == 'zeros' and c.args]
            grid = bool(zs) and _factors(f, zs[0].args[0]) == ['len(geom.ilines)', 'len(geom.xlines)']
            irregular = ('T', 'isinstance(geom, InferredGeometry3d)') in facts or any(
                x[0] == 'T' and 'InferredGeometry3d' in FX.expand_defs(x[1], facts) for x in facts if len(x) == 2 and isinstance(x[1], str))
            if irregular and grid and \
                    pr.group_loop is not None and a.lineno < pr.group_loop.lineno:
                good = True
                ctx.ok('C08.3', f, a, 'header arrays are re-allocated zero-filled with the grid size before the plane loop')
        if not good:
            ctx.fail('C08.3', f, f.name, 'on the irregular branch the header arrays are not re-allocated zero-filled with the inferred '
                     'grid size before the plane loop')
    if n < 1:
        raise AnalysisError('irregular plane filler not found')


def mask_plumbing(ctx):
    P, G = ctx.P, ctx.G
    gm = P.func(RF.READER + '.get_unstructured_mask')
    reads = [c for c in ast.walk(gm.node) if isinstance(c, ast.Call) and U(c.func).endswith('read_range')]
    if not reads:
        raise AnalysisError('get_unstructured_mask: range read not found')
    c = reads[0]
    off = c.args[1] if len(c.args) >= 3 else None
    if isinstance(off, ast.Name):
        ds = [a for a in ast.walk(gm.node) if isinstance(a, ast.Assign) and len(a.targets) == 1 and U(a.targets[0]) == off.id]
        off = ds[0].value if len(ds) == 1 else off
    ok = isinstance(off, ast.Subscript) and U(off.value) == 'self.segy_traceheader_template' and \
        TB.tracefield_code(P, gm, off.slice) == 189 and U(c.args[2]) == 'self.header_entry_length_bytes'
    if ok:
        ctx.ok('C08.5', gm, c, 'mask = stored array of field 189, unpadded length')
    else:
        ctx.fail('C08.5', gm, enclosing_stmt(c), 'the population mask is read from (%s, %s), not from the array of field 189 with '
                 'the unpadded array length' % (U(c.args[1]) if len(c.args) > 1 else '?', U(c.args[2]) if len(c.args) > 2 else '?'))
    def _nonzero_test(v):
        """<int32 decode> != 0  in any spelling: the operator, np.not_equal(x, 0), x.astype(bool), np.nonzero-free forms"""
        if isinstance(v, ast.Compare) and len(v.ops) == 1 and isinstance(v.ops[0], ast.NotEq):
            sides = [v.left, v.comparators[0]]
            return any(U(x) == '0' for x in sides) and any('int32' in U(x) for x in sides)
        if isinstance(v, ast.Call) and U(v.func).split('.')[-1] == 'not_equal' and len(v.args) == 2:
            return any(U(x) == '0' for x in v.args) and any('int32' in U(x) for x in v.args)
        return False
    stores_m = [a for a in ast.walk(gm.node) if isinstance(a, ast.Assign) and U(a.targets[0]) == 'self.mask' and
                not (isinstance(a.value, ast.Constant) and a.value.value is None)]
    nz = [a for a in stores_m if _nonzero_test(a.value) or ('!= 0' in U(a.value) and 'int32' in U(a.value))]
    if not stores_m:
        raise AnalysisError('get_unstructured_mask does not assign self.mask')
    if nz and len(nz) == len(stores_m):
        ctx.ok('C08.5', gm, nz[0], 'populated = inline number != 0, decoded int32')
    else:
        ctx.fail('C08.5', gm, gm.name, 'the mask is not `frombuffer(int32) != 0`')
    gt = P.func(RF.READER + '.get_trace')
    fm = RF.factmap(P, gt, '3d')
    # the trace ordinal (ORDINAL frame: i-th stored trace) becomes a grid position (GRID frame: il*n_xl + xl) by
    # selecting the i-th populated entry of the mask.  Accepted: np.arange(n)[<mask>][index], np.flatnonzero(<mask>)[index],
    # np.nonzero / np.where(<mask>)[0][index]  (optionally inside int()).  A trace ordinal that subscripts the mask
    # itself is a frame error (the mask is indexed by grid position).
    maps = [a for a in ast.walk(gt.node) if isinstance(a, (ast.Assign, ast.AugAssign)) and
            U(a.targets[0] if isinstance(a, ast.Assign) else a.target) == 'index' and 'self.mask' in U(a.value)]
    if len(maps) == 1:
        facts = fm.facts_at(maps[0]) or frozenset()
        if ('F', 'self.structured') in facts and ('F', 'override_unstructured_mapping') in facts:
            ctx.ok('C08.5', gt, maps[0], 'ordinal -> grid position map applied for unstructured files unless overridden')
        else:
            ctx.fail('C08.5', gt, maps[0], 'the ordinal -> grid map is not guarded by (not structured and not override)')
        v = maps[0].value
        while isinstance(v, ast.Call) and U(v.func) == 'int' and v.args:
            v = v.args[0]
        raw_mask_sub = [x for x in ast.walk(maps[0].value) if isinstance(x, ast.Subscript) and U(x.value) in ('self.mask', '~self.mask')
                        and any(isinstance(y, ast.Name) and y.id == 'index' for y in ast.walk(x.slice))]
        selected = False
        if isinstance(maps[0], ast.Assign) and isinstance(v, ast.Subscript) and U(v.slice) == 'index':
            inner = v.value
            if isinstance(inner, ast.Subscript) and U(inner.slice) == '0' and isinstance(inner.value, ast.Call) and \
                    U(inner.value.func).split('.')[-1] in ('nonzero', 'where') and 'self.mask' in U(inner.value):
                selected = True
            elif isinstance(inner, ast.Call) and U(inner.func).split('.')[-1] == 'flatnonzero' and 'self.mask' in U(inner):
                selected = True
            elif isinstance(inner, ast.Subscript) and 'self.mask' in U(inner.slice) and isinstance(inner.value, ast.Call) and \
                    U(inner.value.func).split('.')[-1] == 'arange':
                selected = True
        if raw_mask_sub:
            ctx.fail('C08.5', gt, maps[0], 'the trace ordinal `index` subscripts the population mask itself (`%s`): the mask is '
                     'indexed by grid position, the ordinal counts stored traces - with more than one hole the i-th trace is '
                     'mapped to a hole or to a later trace' % U(raw_mask_sub[0])[:50])
        elif selected:
            ctx.ok('C08.5', gt, maps[0].value, 'the i-th populated grid position (selection by the mask, then subscript by the ordinal)')
        else:
            raise AnalysisError('get_trace: ordinal -> grid map `%s` follows no recognised idiom' % U(maps[0].value)[:70])
    else:
        ctx.fail('C08.5', gt, gt.name, 'get_trace no longer maps trace ordinals to grid positions for unstructured files')
    # override passed exactly by the diagonal readers
    passers = set()
    for f in P.functions.values():
        for e in G.callees(f):
            if e.target is gt and 'override_unstructured_mapping' in e.binding:
                v = e.binding['override_unstructured_mapping']
                if not (isinstance(v, ast.Constant) and v.value is False):
                    passers.add(f.name)
    diag = {f.name for f in P.cls(RF.READER).methods.values() if 'diagonal' in f.name}
    if passers == diag and len(diag) == 2:
        n_calls = sum(1 for f in P.functions.values() for e in G.callees(f) if e.target is gt and
                      'override_unstructured_mapping' in e.binding)
        ctx.ok('C08.5', gt, 'override call sites', 'grid-position addressing is requested by the %d diagonal loops only' % n_calls)
    else:
        ctx.fail('C08.5', gt, 'override call sites', 'override_unstructured_mapping is passed by %s; it must be passed by exactly the '
                 'diagonal readers %s' % (sorted(passers), sorted(diag)))
    # other get_trace callers inside the reader (write_segy, accessors) must not pass it
    gh = P.func(RF.READER + '.gen_trace_header')
    fm = RF.factmap(P, gh, '3d')
    for n in ast.walk(gh.node):
        if isinstance(n, ast.Subscript) and 'variant_headers' in U(n.value) and U(n.slice) == 'index':
            facts = fm.paths_at(n)
            if facts:
                ctx.ok('C08.5', gh, n, 'unstructured files read headers through the (masked) in-memory arrays')
    mask_use(ctx, 'C08.5')
    ctx.floor('C08.5', 6)


def mask_use(ctx, rule):
    """read_variant_headers compacts an array with the population mask iff the file is 3D, unstructured and padding was
    not requested - decided by propositional equivalence over (is_3d, structured, include_padding); the stored value
    is `values[mask]` under exactly that flag and `values` otherwise."""
    P = ctx.P
    rv = P.func(RF.READER + '.read_variant_headers')
    FLAGS = ['self.is_3d', 'self.structured', 'self.include_padding']
    stores = [a for a in ast.walk(rv.node) if isinstance(a, ast.Assign) and isinstance(a.targets[0], ast.Subscript) and
              U(a.targets[0].value) == 'self.variant_headers']

    def expand(e, depth=0):
        """boolean expression with single-definition local flags replaced by their definitions"""
        import copy
        if isinstance(e, ast.Name) and depth < 4:
            defs = [a for a in ast.walk(rv.node) if isinstance(a, ast.Assign) and len(a.targets) == 1 and U(a.targets[0]) == e.id]
            if len(defs) == 1:
                return expand(defs[0].value, depth + 1)
            return e
        if isinstance(e, ast.BoolOp):
            return ast.BoolOp(op=e.op, values=[expand(v, depth) for v in e.values])
        if isinstance(e, ast.UnaryOp) and isinstance(e.op, ast.Not):
            return ast.UnaryOp(op=ast.Not(), operand=expand(e.operand, depth))
        return e

    def mentions_flag(e):
        return any(U(x) in FLAGS for x in ast.walk(expand(e)))

    # condition under which each store keeps the masked / the full array: conditional expression on the value and the
    # enclosing `if` tests that involve the three flags
    masked, full = [], []
    um = []
    for a in stores:
        conds = []
        q, child = parent(a), a
        while q is not None and q is not rv.node:
            if isinstance(q, ast.If) and mentions_flag(q.test):
                t = expand(q.test)
                conds.append(t if child in q.body else ast.UnaryOp(op=ast.Not(), operand=t))
                um.append(q)
            child, q = q, parent(q)
        arms = [(a.value, [])]
        if isinstance(a.value, ast.IfExp):
            t = expand(a.value.test)
            arms = [(a.value.body, [t]), (a.value.orelse, [ast.UnaryOp(op=ast.Not(), operand=t)])]
        for (v, extra) in arms:
            c = conds + extra
            cond = ast.BoolOp(op=ast.And(), values=c) if c else None
            uses_mask = any(isinstance(x, ast.Attribute) and x.attr == 'mask' for x in ast.walk(v))
            (masked if uses_mask else full).append(cond)
    def disj(cs):
        if any(c is None for c in cs):
            return ast.BoolOp(op=ast.Or(), values=[ast.Name(id='__true__', ctx=ast.Load())])
        return ast.BoolOp(op=ast.Or(), values=list(cs))
    want = lambda a_, b_, c_: a_ and not b_ and not c_
    sel_ok = bool(stores) and bool(masked) and bool(full) and \
        bool_equiv(disj(masked), FLAGS, want) and bool_equiv(disj(full), FLAGS, lambda a_, b_, c_: not want(a_, b_, c_))
    if sel_ok:
        ctx.ok(rule, rv, stores[0], 'arrays are masked for unstructured 3D files unless padding is requested')
    else:
        ctx.fail(rule, rv, (stores or um or [rv.name])[0], 'read_variant_headers does not mask exactly when `is_3d and not '
                 '(structured or include_padding)`: a caller that asks for the padded grid arrays (the re-blocker, '
                 'get_tracefield_values) can receive the compacted ones')
