"""C08 - irregular 3D surveys: slot roles, key order, zero fill, line-number arithmetic, mask plumbing."""
import ast
from ..core import U, AnalysisError, parent, enclosing_stmt
from ..facts import FactMap
from .. import headerrules as HR
from .. import tables as TB
from .. import producers as PR
from .. import readerfacts as RF
from ..axes import axis_of_text, role_of
from .c01 import fillers_of, edge_rules

PROP = 'C08'
EXPLANATION = (
    'C08.1: on the `unstructured` branch of the fresh-header writer the origin and step of each axis go to the field '
    'of that axis (name-seeded axis tags vs the role parsed from the specification row). C08.2: the (inline, '
    'crossline) tuple built for the lookup in the irregular plane filler has the component order of the dictionary '
    'key built from the trace headers (fields 189, 193) and InferredGeometry3d takes k[0] as IL, k[1] as XL. C08.3 '
    'zero fill: the plane-set buffer is allocated by np.zeros inside the plane-set loop, the irregular filler stores '
    'only under the membership test, and the header arrays are re-allocated zero-filled with the grid size on the '
    'InferredGeometry3d branch. C08.4: inline ordinal -> line number uses step and origin of the same axis. C08.5 '
    'reader: the population mask is decoded from the array of field 189 with the unpadded array length; get_trace '
    'applies the ordinal -> grid-position map unless called with the override, and exactly the diagonal readers pass '
    'the override; header reads of an unstructured file go through the masked arrays. C08.6: the trace-count field '
    'carries the source trace count on this branch.')
ASSUMPTIONS = ['header codes 189 / 193 are INLINE_3D / CROSSLINE_3D', 'names denote what they say']
NOT_DECIDED = ('Correctness of the inferred grid for arbitrary subsets ((max-min)//(len-1) is data dependent); the values '
               'read; bitwise equality with the zero-filled ZFP image.')


def run(ctx):
    P, G = ctx.P, ctx.G
    ctx.rule('C08.1', 'unstructured branch: origin/step of each axis go to the field of that axis')
    ctx.rule('C08.2', 'lookup key order (IL, XL) = dictionary key order (189, 193)')
    ctx.rule('C08.3', 'holes are zero: fresh zero buffer per plane set, membership-guarded stores, zero header arrays of grid size')
    ctx.rule('C08.4', 'ordinal -> line number uses step and origin of the same axis')
    ctx.rule('C08.5', 'reader: mask from field 189, ordinal map in get_trace, override only from the diagonals')
    ctx.rule('C08.6', 'trace-count field carries the source trace count')
    ht = HR.HeaderTable(P, G)
    HR.check_roles(ctx, ht, 'C08.1', select=lambda s: ht.branch_of(s) == 'unstructured' or
                   (TB.role_of_row(ht.row_of(s)[0]) or ('',))[0] == 'ORIGIN' and 'unstructured' in U(
                       ht.resolver(s)(U(s.value)) if isinstance(s.value, ast.Name) and ht.resolver(s)(U(s.value)) is not None
                       else s.value))
    ctx.floor('C08.1', 3)
    key_order(ctx)
    zero_fill(ctx)
    mask_plumbing(ctx)
    # C08.6
    from .c05 import structured
    n0 = len(ctx.findings)
    class _Proxy:
        pass
    # reuse the trace-count slot rule
    from .c03 import size_slots
    for s in size_slots(ht, 'TRACECOUNT'):
        e = s.value
        if isinstance(e, ast.IfExp) and 'unstructured' in U(e.test):
            if role_of(e.body, ht.resolver(s)) == ('COUNT', 'TRACE'):
                ctx.ok('C08.6', s.func, s.stmt, 'unstructured -> source trace count')
            else:
                ctx.fail('C08.6', s.func, s.stmt, 'on the unstructured branch the trace-count field receives `%s`' % U(e.body))


def bool_equiv(e, atoms, ref):
    """propositional equivalence of a boolean expression over the given attribute atoms with a reference function
    (truth table over the expression's own atoms - a finite boolean domain, not an enumeration of inputs)."""
    import itertools

    def ev(x, env):
        if isinstance(x, ast.BoolOp):
            vals = [ev(v, env) for v in x.values]
            if any(v is None for v in vals):
                return None
            return all(vals) if isinstance(x.op, ast.And) else any(vals)
        if isinstance(x, ast.UnaryOp) and isinstance(x.op, ast.Not):
            v = ev(x.operand, env)
            return None if v is None else (not v)
        t = U(x)
        if t in env:
            return env[t]
        return None
    for vals in itertools.product([False, True], repeat=len(atoms)):
        env = dict(zip(atoms, vals))
        r = ev(e, env)
        if r is None or bool(r) != bool(ref(*vals)):
            return False
    return True


def key_order(ctx):
    P, G = ctx.P, ctx.G
    # dictionary key built from the headers
    ig = P.func('conversion.SeismicFileConverter.infer_geometry')
    keys = [n for n in ast.walk(ig.node) if isinstance(n, ast.DictComp)]
    if not keys or not isinstance(keys[0].key, ast.Tuple):
        raise AnalysisError('infer_geometry: dictionary comprehension keyed by a tuple not found')
    codes = [U(e.slice) for e in keys[0].key.elts if isinstance(e, ast.Subscript)]
    if codes == ['189', '193']:
        ctx.ok('C08.2', ig, keys[0], 'key = (h[189], h[193]) = (inline, crossline)')
    else:
        ctx.fail('C08.2', ig, keys[0], 'trace lookup key is built from header fields %s, expected (189, 193)' % codes)
    geo = P.cls('utils.InferredGeometry3d').methods['__init__']
    for a in ast.walk(geo.node):
        if isinstance(a, ast.Assign) and isinstance(a.targets[0], ast.Name) and 'k[' in U(a.value):
            ax = axis_of_text(U(a.targets[0]))
            comp = '0' if 'k[0]' in U(a.value) else '1'
            want = {'IL': '0', 'XL': '1'}.get(ax)
            if want == comp:
                ctx.ok('C08.2', geo, a, '%s ids from key component %s' % (ax, comp))
            else:
                ctx.fail('C08.2', geo, a, '%s is taken from key component %s' % (U(a.targets[0]), comp))
    # range assignment: min/max/step of each axis from its own id set
    for a in ast.walk(geo.node):
        if isinstance(a, ast.Assign) and isinstance(a.targets[0], ast.Tuple) and isinstance(a.value, ast.Call) and \
                'get_range' in U(a.value.func):
            tg = {axis_of_text(U(t)) for t in a.targets[0].elts}
            src = axis_of_text(U(a.value.args[0])) if a.value.args else None
            if tg == {src} and src in ('IL', 'XL'):
                ctx.ok('C08.2', geo, a, '%s range from %s ids' % (src, src))
            else:
                ctx.fail('C08.2', geo, a, 'the %s range is computed from the %s ids' % ('/'.join(sorted(x for x in tg if x)), src))
    # super().__init__(min_il, max_il + 1, min_xl, max_xl + 1, il_step=, xl_step=)
    for c in ast.walk(geo.node):
        if isinstance(c, ast.Call) and isinstance(c.func, ast.Attribute) and c.func.attr == '__init__' and 'super' in U(c.func):
            base = P.cls('utils.Geometry3d').methods['__init__']
            params = base.params[1:]
            bound = dict(zip(params, c.args))
            for k in c.keywords:
                bound[k.arg] = k.value
            bad = [p for p, v in bound.items() if axis_of_text(p) in ('IL', 'XL') and axis_of_text(U(v)) in ('IL', 'XL')
                   and axis_of_text(p) != axis_of_text(U(v))]
            if bad:
                ctx.fail('C08.2', geo, enclosing_stmt(c), 'Geometry3d parameters %s receive values of the other axis' % bad)
            else:
                ctx.ok('C08.2', geo, c, 'ranges are handed to Geometry3d axis by axis')
    # the lookup tuple in the filler
    pl, prods = PR.producers(P, G)
    for pr in prods:
        fl, bufs = fillers_of(P, G, pr)
        for (t, bp, e) in fl:
            if 'traces_ref' not in U(t.node):
                continue
            for a in ast.walk(t.node):
                if isinstance(a, ast.Assign) and isinstance(a.value, ast.Tuple) and len(a.value.elts) == 2 and \
                        any(isinstance(n, ast.Compare) and U(n.left) == U(a.targets[0]) and isinstance(n.ops[0], ast.In)
                            for n in ast.walk(t.node)):
                    e0, e1 = a.value.elts
                    # xl component: loop variable over geom.xlines
                    ax1 = axis_of_text(U(e1))
                    if ax1 is None and isinstance(e1, ast.Name):
                        for lp in ast.walk(t.node):
                            if isinstance(lp, ast.For) and e1.id in U(lp.target):
                                ax1 = axis_of_text(U(lp.iter))
                    ax0 = {axis_of_text(U(n)) for n in ast.walk(e0) if isinstance(n, ast.Attribute)} - {None}
                    if ax0 == {'IL'} and ax1 == 'XL':
                        ctx.ok('C08.2', t, a, 'lookup tuple = (inline number, crossline number)')
                    else:
                        ctx.fail('C08.2', t, a, 'lookup tuple components are (%s, %s), the dictionary is keyed (inline, crossline)' % (
                            '/'.join(sorted(ax0)) or '?', ax1))
                    # C08.4: ordinal * step + origin of the same axis
                    p = e0
                    ok = isinstance(p, ast.BinOp) and isinstance(p.op, ast.Add) and 'il_step' in U(p.left) and \
                        U(p.right) == 'geom.min_il' and 'plane_set_id * blockshape[0] + i' in U(p.left)
                    if ok:
                        ctx.ok('C08.4', t, a, 'inline number = (set*bs0 + i) * il_step + min_il')
                    else:
                        ctx.fail('C08.4', t, a, 'inline number `%s` is not (plane_set_id*blockshape[0] + i) * geom.il_step + geom.min_il' % U(e0)[:70])
                    # header store position in the zero-filled grid arrays
                    for b in ast.walk(t.node):
                        if isinstance(b, ast.Assign) and U(b.targets[0]) == 't_store':
                            txt = U(b.value).replace(' ', '')
                            if txt in ('xl_id+(plane_set_id*blockshape[0]+i)*len(geom.xlines)',):
                                ctx.ok('C08.4', t, b, 'header position = xl ordinal + inline ordinal * grid width')
                            else:
                                ctx.fail('C08.4', t, b, 'header position `%s` is not xl_id + (inline ordinal) * len(geom.xlines)' % U(b.value))
    ctx.floor('C08.2', 6)
    ctx.floor('C08.4', 2)


def zero_fill(ctx):
    P, G = ctx.P, ctx.G
    pl, prods = PR.producers(P, G)
    n = 0
    for pr in prods:
        fl, bufs = fillers_of(P, G, pr)
        irr = [(t, bp, e) for (t, bp, e) in fl if 'traces_ref' in U(t.node)]
        if not irr:
            continue
        f = pr.func
        fm = FactMap(f.node)
        for (t, bp, e) in irr:
            n += 1
            facts = fm.facts_at(e.call) or frozenset()
            if ('T', 'isinstance(geom, InferredGeometry3d)') in facts:
                ctx.ok('C08.3', f, e.call, 'irregular filler is selected by isinstance(geom, InferredGeometry3d)')
            else:
                ctx.fail('C08.3', f, enclosing_stmt(e.call), 'the irregular filler is not confined to the InferredGeometry3d branch')
            # the buffer handed over is allocated by np.zeros inside the group loop
            bname = U(e.binding[bp])
            allocs = [a for a in ast.walk(f.node) if isinstance(a, ast.Assign) and U(a.targets[0]) == bname]
            ok = len(allocs) == 1 and U(allocs[0].value.func).split('.')[-1] == 'zeros' and pr.group_loop is not None and \
                any(allocs[0] is x for x in ast.walk(pr.group_loop))
            if ok:
                ctx.ok('C08.3', f, allocs[0], 'fresh np.zeros buffer for every plane set')
            else:
                ctx.fail('C08.3', f, allocs[0] if allocs else f.name, 'the plane-set buffer is not a fresh np.zeros allocation inside '
                         'the plane-set loop: holes would carry samples of an earlier set')
            stores = [s for s in ast.walk(t.node) if isinstance(s, ast.Assign) and isinstance(s.targets[0], ast.Subscript)
                      and U(s.targets[0].value) in (bp, 'array')]
            for s in stores:
                guarded = False
                p = parent(s)
                while p is not None and p is not t.node:
                    if isinstance(p, ast.If) and isinstance(p.test, ast.Compare) and isinstance(p.test.ops[0], ast.In) and \
                            'traces_ref' in U(p.test.comparators[0]):
                        guarded = True
                    p = parent(p)
                if guarded:
                    ctx.ok('C08.3', t, s, 'store only for grid positions that have a trace')
                else:
                    ctx.fail('C08.3', t, s, 'store into the buffer / header array outside the membership test')
        # header arrays re-allocated with the grid size
        re_alloc = [a for a in ast.walk(f.node) if isinstance(a, ast.Assign) and isinstance(a.targets[0], ast.Subscript) and
                    'headers_dict' in U(a.targets[0].value)]
        good = False
        for a in re_alloc:
            facts = fm.facts_at(a) or frozenset()
            txt = U(a.value).replace(' ', '')
            if ('T', 'isinstance(geom, InferredGeometry3d)') in facts and 'zeros(len(geom.ilines)*len(geom.xlines)' in txt and \
                    pr.group_loop is not None and a.lineno < pr.group_loop.lineno:
                good = True
                ctx.ok('C08.3', f, a, 'header arrays are re-allocated zero-filled with the grid size before the plane loop')
        if not good:
            ctx.fail('C08.3', f, f.name, 'on the irregular branch the header arrays are not re-allocated zero-filled with the inferred '
                     'grid size before the plane loop')
    if n < 1:
        raise AnalysisError('irregular plane filler not found')


def mask_plumbing(ctx):
    P, G = ctx.P, ctx.G
    gm = P.func(RF.READER + '.get_unstructured_mask')
    reads = [c for c in ast.walk(gm.node) if isinstance(c, ast.Call) and U(c.func).endswith('read_range')]
    if not reads:
        raise AnalysisError('get_unstructured_mask: range read not found')
    c = reads[0]
    ok = len(c.args) >= 3 and U(c.args[1]) == 'self.segy_traceheader_template[189]' and \
        U(c.args[2]) == 'self.header_entry_length_bytes'
    if ok:
        ctx.ok('C08.5', gm, c, 'mask = stored array of field 189, unpadded length')
    else:
        ctx.fail('C08.5', gm, enclosing_stmt(c), 'the population mask is read from (%s, %s), not from the array of field 189 with '
                 'the unpadded array length' % (U(c.args[1]) if len(c.args) > 1 else '?', U(c.args[2]) if len(c.args) > 2 else '?'))
    nz = [a for a in ast.walk(gm.node) if isinstance(a, ast.Assign) and U(a.targets[0]) == 'self.mask' and '!= 0' in U(a.value)
          and 'int32' in U(a.value)]
    if nz:
        ctx.ok('C08.5', gm, nz[0], 'populated = inline number != 0, decoded int32')
    else:
        ctx.fail('C08.5', gm, gm.name, 'the mask is not `frombuffer(int32) != 0`')
    gt = P.func(RF.READER + '.get_trace')
    fm = RF.factmap(P, gt, '3d')
    maps = [a for a in ast.walk(gt.node) if isinstance(a, ast.Assign) and U(a.targets[0]) == 'index' and 'self.mask' in U(a.value)]
    if len(maps) == 1:
        facts = fm.facts_at(maps[0]) or frozenset()
        if ('F', 'self.structured') in facts and ('F', 'override_unstructured_mapping') in facts:
            ctx.ok('C08.5', gt, maps[0], 'ordinal -> grid position map applied for unstructured files unless overridden')
        else:
            ctx.fail('C08.5', gt, maps[0], 'the ordinal -> grid map is not guarded by (not structured and not override)')
        if '[self.mask != 0][index]' in U(maps[0].value).replace('(', '').replace(')', '') or 'self.mask != 0' in U(maps[0].value):
            ctx.ok('C08.5', gt, maps[0].value, 'the i-th populated grid position')
    else:
        ctx.fail('C08.5', gt, gt.name, 'get_trace no longer maps trace ordinals to grid positions for unstructured files')
    # override passed exactly by the diagonal readers
    passers = set()
    for f in P.functions.values():
        for e in G.callees(f):
            if e.target is gt and 'override_unstructured_mapping' in e.binding:
                v = e.binding['override_unstructured_mapping']
                if not (isinstance(v, ast.Constant) and v.value is False):
                    passers.add(f.name)
    diag = {f.name for f in P.cls(RF.READER).methods.values() if 'diagonal' in f.name}
    if passers == diag and len(diag) == 2:
        n_calls = sum(1 for f in P.functions.values() for e in G.callees(f) if e.target is gt and
                      'override_unstructured_mapping' in e.binding)
        ctx.ok('C08.5', gt, 'override call sites', 'grid-position addressing is requested by the %d diagonal loops only' % n_calls)
    else:
        ctx.fail('C08.5', gt, 'override call sites', 'override_unstructured_mapping is passed by %s; it must be passed by exactly the '
                 'diagonal readers %s' % (sorted(passers), sorted(diag)))
    # other get_trace callers inside the reader (write_segy, accessors) must not pass it
    gh = P.func(RF.READER + '.gen_trace_header')
    fm = RF.factmap(P, gh, '3d')
    for n in ast.walk(gh.node):
        if isinstance(n, ast.Subscript) and 'variant_headers' in U(n.value) and U(n.slice) == 'index':
            facts = fm.paths_at(n)
            if facts:
                ctx.ok('C08.5', gh, n, 'unstructured files read headers through the (masked) in-memory arrays')
    rv = P.func(RF.READER + '.read_variant_headers')
    um = [a for a in ast.walk(rv.node) if isinstance(a, ast.Assign) and U(a.targets[0]) == 'use_mask']
    if um and bool_equiv(um[0].value, ['self.is_3d', 'self.structured', 'self.include_padding'],
                         lambda a, b, c: a and not b and not c):
        ctx.ok('C08.5', rv, um[0], 'arrays are masked for unstructured 3D files unless padding is requested')
    else:
        ctx.fail('C08.5', rv, um[0] if um else rv.name, 'mask use is not `is_3d and not (structured or include_padding)`')
    ctx.floor('C08.5', 6)
