"""C09 - 2D lines: producer, header branch, addresses, refusals, hash and bounds."""
import ast
from ..core import U, AnalysisError, parent, enclosing_stmt
from ..facts import FactMap
from .. import headerrules as HR
from .. import tables as TB
from .. import producers as PR
from .. import readerfacts as RF
from .. import layoutrules as LR
from ..dimguard import DimGuard
from ..bounds import BoundsAnalysis
from .c01 import edge_rules
from .c19 import layout_predicate
from .c20 import hash_region
from .c03 import check_sizes, BRANCHES

PROP = 'C09'
TECHNIQUE = 'static analysis: idiom rules on the 2D producer, header-table branch facts, 2D layout algebra, dimensionality-guard reachability'
EXPLANATION = (
    'C09.1: edge replication in the 2D trace-group producer (same rule as C01.1). C09.2: the 2D layout predicate '
    '(whole-group stream iff blockshape[1] == 4) matches the reader\'s. C09.3 2D header branch: on the Geometry2d '
    'branch of the fresh-header writer no inline/crossline field is written, the array length and trace count come '
    'from the trace list, the size formula is rate*pad(samples)*pad(traces)/(8*4096), the 2D resolver requires '
    'blockshape[0] == 1 and the reader\'s 2D flag is blockshape[0] == 1. C09.4: the 2D loaders\' addresses, decode '
    'sizes and the crops of read_subplane / get_trace are canonical in all four 2D layout modes (index algebra). '
    'C09.5 refusals: every 3D-only public method of SgzReader (it reads a 3D-only attribute - an attribute that '
    '__init__ assigns only on statements unreachable for a 2D file - or calls a SgzLoader3d method, or delegates to '
    'such a method) has, for a 2D file, no such event reachable and only dimensionality-error exits; symmetrically '
    'for 2D-only methods; the emulator binds iline/xline/depth_slice to a refusing object on the 2D branch. C09.6: '
    'the 2D hash region (C20.1) and the 2D bounds obligations (C14).')
EXPLANATION += (
    ' ADDED: C09.1 also decides the per-group trace count semantically (rule of C01.9). C09.2: a specialised 2D loader called without a blockshape test is a violation (not a vanished anchor).'
)
ASSUMPTIONS = ['ZFP 2D fixed-rate streams are 4x4 cells in C order', 'names denote what they say']
NOT_DECIDED = 'Bitwise equality with two-dimensional ZFP coding; header values.'


def run(ctx):
    P, G = ctx.P, ctx.G
    ctx.rule('C09.1', 'edge replication in the 2D producer')
    ctx.rule('C09.2', '2D layout predicate agrees between writer and reader')
    ctx.rule('C09.3', '2D header branch: no IL/XL fields, sizes from the trace list, blockshape[0] == 1 both sides')
    ctx.rule('C09.4', '2D addresses, decode sizes and crops are canonical in every 2D layout mode')
    ctx.rule('C09.5', 'dimensionality refusals before any mode-specific state; emulator wiring')
    ctx.rule('C09.6', '2D hash region and 2D bounds obligations')
    pl, prods = PR.producers(P, G)
    edge_rules(ctx, 'C09.1', pl, prods, only_2d=True)
    from .. import groupcount
    for pr in prods:
        if pr.is_2d:
            groupcount.check_producer(ctx, 'C09.1', pr.func)
    ctx.floor('C09.1', 2)
    layout_predicate(ctx, 'C09.2')
    header_branch(ctx)
    recs = [r for r in LR.collect(ctx.shared) if r.mode.startswith('2d')]
    LR.report(ctx, recs, {'L1': 'C09.4', 'L2': 'C09.4', 'DEC': 'C09.4', 'L4': 'C09.4', 'HULL': 'C09.4'})
    ctx.floor('C09.4', 8)
    D = DimGuard(P, G)
    D.check(ctx, 'C09.5')
    ctx.floor('C09.5', 10)
    emulator(ctx)
    for pr in prods:
        if pr.is_2d:
            n0 = len(ctx.findings)
            hash_region(ctx, pr)
            for f in ctx.findings[n0:]:
                f.rule = 'C09.6'
    _relabel(ctx, ('C20.1', 'C20.3'), 'C09.6')
    B = BoundsAnalysis(P, G)
    reader = P.cls(RF.READER)
    for name in ('get_trace', 'read_subplane', 'gen_trace_header'):
        m = reader.methods[name]
        res = B.analyse(m, '2d') or {}
        for p_, (status, info) in sorted(res.items()):
            if status == 'NOSINK':
                continue
            label = '%s(%s) [2D]' % (name, p_)
            if status in ('REAL', 'INHERITED'):
                ctx.ok('C09.6', m, label, 'bounded by the real extent at every sink')
            else:
                node, skind, why, relaxing = info[0]
                ctx.fail('C09.6', m, B.fm(m, '2d').stmt_of(node) or node, 'parameter %s of %s reaches %s unchecked on a 2D file: %s' % (
                    p_, name, skind, why), key_extra=p_, line=node.lineno)
    ctx.floor('C09.6', 4)


def _relabel(ctx, olds, new):
    for o in olds:
        if o in ctx.rule_counts:
            c = ctx.rule_counts.pop(o)
            ctx.rule_counts.setdefault(new, [0, 0])
            ctx.rule_counts[new][0] += c[0]
            ctx.rule_counts[new][1] += c[1]
    for s in ctx.samples:
        if s.get('rule') in olds:
            s['rule'] = new
    ctx.nontrivial = {(new if r in olds else r, f, c) for (r, f, c) in ctx.nontrivial}


def header_branch(ctx):
    P, G = ctx.P, ctx.G
    ht = HR.HeaderTable(P, G)
    ctx.ht = ht
    from .c03 import fresh_writers
    for w in fresh_writers(ht):
        fm = FactMap(w.node, assume=BRANCHES['2d'])
        wrote = []
        for s in ht.stores:
            if s.func is not w or not fm.is_reachable(s.stmt):
                continue
            row, prob = ht.row_of(s)
            role = TB.role_of_row(row) if row is not None else None
            wrote.append((s, role))
            if role is not None and role[1] in ('IL', 'XL') and role[0] in ('COUNT', 'ORIGIN', 'STEP'):
                ctx.fail('C09.3', w, s.stmt, 'the 2D branch writes the 3D geometry field `%s` (bytes %d:%d): a 2D file must leave '
                         'bytes 8:16 and 20:28, 32:40 zero' % (row.text[:30], s.lo, s.hi), key_extra='%d' % s.lo)
        roles = {r for (s, r) in wrote if r}
        for need in (('HEADER_ARRAY_BYTES', None), ('TRACECOUNT', None), ('DATA_BLOCKS', None), ('COUNT', 'Z'),
                     ('BLOCKSHAPE', 'IL'), ('RATE', None)):
            if need in roles:
                ctx.ok('C09.3', w, '2D branch writes %s' % (need,), 'field is filled on the Geometry2d branch')
            else:
                ctx.fail('C09.3', w, w.name, 'the Geometry2d branch never fills the %s field' % (need,), key_extra=str(need))
        # sizes from the trace list
        for (s, r) in wrote:
            if r == ('HEADER_ARRAY_BYTES', None):
                defs = [n.value for n in ast.walk(w.node) if isinstance(n, ast.Assign) and U(n.targets[0]) == U(s.value)
                        and fm.is_reachable(n)]
                if not defs and not isinstance(s.value, ast.Name):
                    from ..sizerules import expand_variants
                    defs = expand_variants(w, s.value, reachable=fm.is_reachable)
                if defs and all('len(geom.traces)' in U(d) for d in defs):
                    ctx.ok('C09.3', w, s.stmt, 'array length from len(geom.traces)')
                else:
                    ctx.fail('C09.3', w, s.stmt, 'on the 2D branch the array length is `%s`, not 4*len(geom.traces)' % (
                        [U(d) for d in defs],))
    check_sizes(ctx, ht, 'C09.3', select=lambda f: f.module.name == 'conversion_utils')
    # reader flag and resolver
    facts, al, flag = RF.mode_facts(P, '2d')
    ctx.ok('C09.3', P.func(RF.READER + '.__init__'), flag, 'reader 2D flag is `%s = blockshape[0] == 1`' % flag)
    from .c19 import resolver
    entry, cores = resolver(P, G)
    two = [f for f in entry if '2d' in f.name]
    if not two:
        ctx.fail('C09.3', None, 'define_blockshape_2d', 'no 2D entry of the blockshape resolver is called by the converters')
    for f in two:
        fm = FactMap(f.node)
        rets = [(k, s, fa) for (k, s, fa) in fm.exits if k == 'return']
        if rets and all(('==', 'blockshape[0]', '1') in fa for (k, s, fa) in rets):
            ctx.ok('C09.3', f, f.name, 'the 2D resolver requires blockshape[0] == 1')
        else:
            ctx.fail('C09.3', f, f.name, 'the 2D resolver does not require blockshape[0] == 1')
    # the converter calls the 2D resolver exactly on the 2D path
    run_ = P.func('conversion.SeismicFileConverter.run')
    fm = FactMap(run_.node)
    for e in G.callees(run_):
        if e.target in two:
            fa = fm.facts_at(e.call) or frozenset()
            via_local = isinstance(e.call.func, ast.Name) and e.call.func.id != e.target.name
            if via_local:
                # the resolver is chosen into a local first: on every path where the local denotes the 2D resolver the
                # file is 2D
                paths = fm.paths_at(e.call) or []
                sel = [p_ for p_ in paths if any(a[0] == 'def' and a[1] == e.call.func.id and a[2].split('.')[-1] == e.target.name
                                                 for a in p_)]
                ok2d = bool(sel) and all(('T', 'self.is_2d') in p_ for p_ in sel)
            else:
                ok2d = ('T', 'self.is_2d') in fa
            if ok2d:
                ctx.ok('C09.3', run_, e.call, '2D geometry -> 2D resolver')
            else:
                ctx.fail('C09.3', run_, enclosing_stmt(e.call), 'the 2D resolver is not confined to the is_2d branch')
    ctx.floor('C09.3', 10)


def emulator(ctx):
    P, G = ctx.P, ctx.G
    em = P.func('segyio_emulator.SegyioEmulator.__init__')
    fm = FactMap(em.node)
    need = {'self.iline', 'self.xline', 'self.depth_slice'}
    got = {}
    for a in ast.walk(em.node):
        if isinstance(a, ast.Assign) and U(a.targets[0]) in need:
            fa = fm.facts_at(a) or frozenset()
            if ('F', 'self.is_3d') in fa or ('T', 'self.is_2d') in fa:
                got[U(a.targets[0])] = a
    for nm in sorted(need):
        a = got.get(nm)
        if a is None:
            ctx.fail('C09.5', em, nm, '%s is not bound on the 2D branch of the emulator: the attribute is missing for 2D files' % nm)
            continue
        cls = None
        if isinstance(a.value, ast.Call):
            r = P.resolve_name(em.module, U(a.value.func))
            cls = r if hasattr(r, 'methods') else None
        gi = cls.find_method('__getitem__') if cls is not None else None
        raises = gi is not None and any(isinstance(r, ast.Raise) and 'WrongDimensionalityError' in U(r.exc)
                                        for r in ast.walk(gi.node)) and not any(isinstance(r, ast.Return) for r in ast.walk(gi.node))
        if raises:
            ctx.ok('C09.5', em, a, '%s[...] refuses with the dimensionality error on 2D files' % nm.split('.')[1])
        else:
            ctx.fail('C09.5', em, a, 'on the 2D branch %s is bound to `%s`, whose __getitem__ does not raise '
                     'WrongDimensionalityError' % (nm, U(a.value)))
