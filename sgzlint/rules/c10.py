"""C10 - cropping: header completeness and codecs, footer, layout, validation, alignment, bytes copied."""
import ast
from ..core import U, AnalysisError, parent, enclosing_stmt
from ..facts import FactMap
from ..algebra import Poly, C, A
from .. import headerrules as HR
from .. import footer as FT
from .. import tables as TB
from .. import readerfacts as RF
from ..layout import Layout
from ..model import Model, MODES_3D
from ..symeval import Packed, Tup, SliceV, Opaque
from ..axes import axis_of_text
from .c03 import check_footer, check_sizes

PROP = 'C10'
TECHNIQUE = 'static analysis: header-table sibling check, must-facts of the validator, symbolic evaluation of the cropper in 8 layout modes'
EXPLANATION = (
    'C10.1: regenerate_header is checked as a sibling of the fresh-header writer: every field whose fresh-header '
    'expression depends on counts, origins or the trace count (roles COUNT / ORIGIN / DATA_BLOCKS / '
    'HEADER_ARRAY_BYTES / TRACECOUNT) is rewritten; STEP, BLOCKSHAPE, RATE and the table are crop invariant. C10.2: '
    'its codecs agree with the specification and with make_header. C10.3: footer stride under the copied version; the '
    'footer crop uses the inline range on array axis 0 and the crossline range on axis 1. C10.4 + C10.8: the '
    'cropper is evaluated symbolically (ranges in digits, both outcomes of the clip to the axis length) in all 8 3D '
    'layout modes: every range read it issues is a canonical address of the source layout, and the bytes copied equal '
    'rate/8 * prod(pad(new count_k, blockshape_k)) of the counts it writes into the new header - on every residue '
    'class of the bounds. C10.5 validation template: on every path reaching the first arithmetic on the ranges the '
    'facts 0 <= lo, hi <= len(axis of that range), lo < hi hold for all three ranges, and the failing paths end in '
    'IndexError. C10.6: the output is opened only after validation and header regeneration. C10.7 alignment: lower '
    'bounds are rounded down and upper bounds up to the blockshape component of the range\'s own axis, then clipped '
    'to [0, axis length].')
EXPLANATION += (
    ' ADDED: C10.1 includes the size formulas of the cropper (data blocks, array bytes). C10.2: each origin field receives <axis of the field>[<range of the same axis>[0]]; the interval field is not decoded ungated. C10.3 includes the order / one-key-per-array / full-grid-array clauses of C03.5 and sums companion writes. C10.7 decides the clip semantically: on every path the aligned upper bound is the axis length, or the block ceiling under an ordering fact that bounds it by the axis length (min(), or an equality test of a conditional expression).'
)
EXPLANATION += (
    ' ADDED (session 4): C10.9 - the cropper patches a copy of the source header, which is DISK_BLOCK_BYTES * n_header_blocks long, and the reader accepts files with one header block: a slice store whose range ends after the first block must be dominated by a test on the number of header blocks / the length of the copy (or by a completed fixed-width decode of source bytes at that position); otherwise the bytearray grows, the written header is longer than n_header_blocks * 4096 and the data section of the output is read shifted.'
)
ASSUMPTIONS = ['request bounds are integers', 'names denote what they say']
NOT_DECIDED = 'Bitwise equality of decoded volumes; header values; cropping of irregular or 2D sources.'

MOVING = {('COUNT', 'IL'), ('COUNT', 'XL'), ('COUNT', 'Z'), ('ORIGIN', 'IL'), ('ORIGIN', 'XL'), ('ORIGIN', 'Z'),
          ('DATA_BLOCKS', None), ('HEADER_ARRAY_BYTES', None), ('TRACECOUNT', None)}


def run(ctx):
    P, G = ctx.P, ctx.G
    ctx.rule('C10.1', 'regenerated header rewrites every field that depends on counts, origins or the trace count')
    ctx.rule('C10.2', 'cropper codecs agree with the specification and with the fresh-header writer')
    ctx.rule('C10.3', 'footer stride under the copied version; footer crop uses the ranges of its axes')
    ctx.rule('C10.4', 'every range read of the cropper is a canonical address of the source layout (8 layout modes)')
    ctx.rule('C10.5', 'validation template: 0 <= lo, hi <= extent(axis), lo < hi for the three ranges, else IndexError')
    ctx.rule('C10.6', 'no output on refusal: open(.., "wb") after validation and header regeneration')
    ctx.rule('C10.7', 'outward alignment to the blockshape of the own axis, then clip to [0, extent]')
    ctx.rule('C10.8', 'bytes copied = bytes declared by the new header (symbolic, all residue classes)')
    ht = HR.HeaderTable(P, G)
    ctx.ht = ht
    crop = lambda s: s.func.module.name == 'cropping'
    completeness(ctx, ht)
    HR.check_ranges_and_codecs(ctx, ht, 'C10.2', 'C10.2', select=lambda s: crop(s) and s.lo < 4096)
    HR.check_sibling_codecs(ctx, ht, 'C10.2', select=crop)
    HR.check_roles(ctx, ht, 'C10.2', select=crop)
    ctx.floor('C10.2', 12)
    from .c03 import version_gated_fields
    version_gated_fields(ctx, ht, 'C10.2', select=lambda f: f.module.name == 'cropping')
    check_footer(ctx, ht, 'C10.3', select=lambda f: f.module.name == 'cropping')
    origin_axes(ctx, ht)
    footer_crop(ctx)
    validation(ctx)
    symbolic(ctx, ht)
    ctx.rule('C10.9', 'patches of the copied source header stay inside it: a store beyond the first header block is guarded '
             'by the number of header blocks (files with one header block are accepted by the reader)')
    if HR.check_copy_bounds(ctx, ht, 'C10.9', select=lambda f: f.module.name == 'cropping') < 5:
        raise AnalysisError('cropper: stores into the copied header: fewer than 5 found')


def completeness(ctx, ht):
    P = ctx.P
    f = P.func('cropping.SgzCropper.regenerate_header')
    written = {}
    for s in ht.stores:
        if s.func is f:
            row, prob = ht.row_of(s)
            if row is not None:
                written[TB.role_of_row(row)] = s
    for role in sorted(MOVING, key=str):
        if role in written:
            ctx.ok('C10.1', f, 'field %s/%s' % role, 'rewritten for the sub-cube')
        else:
            row = [r for r in ht.rows if TB.role_of_row(r) == role]
            ctx.fail('C10.1', f, f.name, 'regenerate_header never rewrites `%s` (bytes %d:%d): the cropped file keeps the source\'s '
                     'value' % (row[0].text[:30] if row else role, row[0].lo if row else -1, row[0].hi if row else -1),
                     key_extra=str(role))
    check_sizes(ctx, ht, 'C10.1', select=lambda g: g.module.name == 'cropping')
    ctx.floor('C10.1', 9)


def origin_axes(ctx, ht):
    """C10.2: each origin field of the regenerated header receives <axis of the field>[<index range of the same axis>[0]]."""
    f = ctx.P.func('cropping.SgzCropper.regenerate_header')
    n = 0
    for s in ht.stores:
        if s.func is not f:
            continue
        row, prob = ht.row_of(s)
        role = TB.role_of_row(row) if row is not None else None
        if role is None or role[0] != 'ORIGIN':
            continue
        subs = [x for e2 in FT._def_chain(f, s.value) for x in ast.walk(e2) if isinstance(x, ast.Subscript) and
                isinstance(x.value, ast.Attribute) and axis_of_text(U(x.value)) in ('IL', 'XL', 'Z') and
                isinstance(x.slice, ast.Subscript)]
        if not subs:
            raise AnalysisError('regenerate_header: origin field %d:%d is not <axis>[<range>[0]]' % (s.lo, s.hi))
        x = subs[0]
        n += 1
        a_arr, a_idx = axis_of_text(U(x.value)), axis_of_text(U(x.slice.value))
        first = U(x.slice.slice) == '0'
        if a_arr == role[1] and a_idx == role[1] and first:
            ctx.ok('C10.2', f, s.stmt, '%s origin = %s axis at the lower bound of the %s range' % (role[1], a_arr, a_idx))
        else:
            ctx.fail('C10.2', f, s.stmt, 'the %s origin field receives `%s`: the %s axis indexed with %s of the %s range' % (
                role[1], U(x)[:50], a_arr, 'the lower bound' if first else 'element ' + U(x.slice.slice), a_idx), key_extra=role[1])
    if n < 3:
        raise AnalysisError('regenerate_header: fewer than 3 origin fields found')


def _range_component(f, e, depth=0):
    """(range text, 0|1) when e is the lower / upper component of a two-element crop range: R[0] / R[1], or a name
    unpacked from R (`lo, hi = R`), or a name bound to one of those."""
    if e is None or depth > 3:
        return None
    if isinstance(e, ast.Subscript) and isinstance(e.slice, ast.Constant) and e.slice.value in (0, 1):
        return (U(e.value), e.slice.value)
    if isinstance(e, ast.Name):
        defs = []
        for a in ast.walk(f.node):
            if isinstance(a, ast.Assign) and len(a.targets) == 1:
                t = a.targets[0]
                if isinstance(t, ast.Name) and t.id == e.id:
                    defs.append(('whole', a.value))
                elif isinstance(t, ast.Tuple) and any(isinstance(x, ast.Name) and x.id == e.id for x in t.elts):
                    k = [isinstance(x, ast.Name) and x.id == e.id for x in t.elts].index(True)
                    defs.append((k, a.value, len(t.elts)))
        if len(defs) != 1:
            return None
        d = defs[0]
        if d[0] == 'whole':
            return _range_component(f, d[1], depth + 1)
        k, v, n_ = d
        if isinstance(v, ast.Tuple) and len(v.elts) == n_:
            return _range_component(f, v.elts[k], depth + 1)
        if n_ == 2 and isinstance(v, (ast.Name, ast.Attribute)):
            return (U(v), k)
    return None


def footer_crop(ctx):
    P = ctx.P
    f = P.func('cropping.SgzCropper.write_cropped_file_by_indexes')
    n = 0
    for s in ast.walk(f.node):
        if isinstance(s, ast.Subscript) and isinstance(s.slice, ast.Tuple) and len(s.slice.elts) == 2 and \
                all(isinstance(e, ast.Slice) for e in s.slice.elts) and 'header' in U(s.value):
            n += 1
            comps = [[_range_component(f, x) for x in (el.lower, el.upper)] for el in s.slice.elts]
            if any(c is None for cs in comps for c in cs):
                raise AnalysisError('footer crop `%s`: a bound is not a component of a crop range' % U(s)[:70])
            a0 = {axis_of_text(c[0]) for c in comps[0]}
            a1 = {axis_of_text(c[0]) for c in comps[1]}
            same0 = comps[0][0][0] == comps[0][1][0] and (comps[0][0][1], comps[0][1][1]) == (0, 1)
            same1 = comps[1][0][0] == comps[1][1][0] and (comps[1][0][1], comps[1][1][1]) == (0, 1)
            # the array was reshaped (n_ilines, n_xlines)
            shp = [c for c in ast.walk(f.node) if isinstance(c, ast.Call) and isinstance(c.func, ast.Attribute) and
                   c.func.attr == 'reshape']
            shape_ok = shp and U(shp[0].args[0]).replace(' ', '') == '(self.n_ilines,self.n_xlines)'
            if a0 == {'IL'} and a1 == {'XL'} and same0 and same1 and shape_ok:
                ctx.ok('C10.3', f, s, 'footer arrays reshaped (n_il, n_xl) and cut [il range, xl range]')
            else:
                ctx.fail('C10.3', f, enclosing_stmt(s), 'footer crop `%s` does not cut axis 0 with the inline range and axis 1 with '
                         'the crossline range of a (n_ilines, n_xlines) array' % U(s)[:80], line=s.lineno)
    if n < 1:
        raise AnalysisError('footer crop subscript not found in the cropper')


def validation(ctx):
    P, G = ctx.P, ctx.G
    v = P.func('cropping.SgzCropper.check_and_correct_bounds')
    fm = FactMap(v.node)
    # first arithmetic on the ranges: the calls that align them
    aligns = [e for e in G.callees(v) if e.target is not None and e.target.name == 'correct_bounds']
    if len(aligns) < 3:
        raise AnalysisError('check_and_correct_bounds: expected three alignment calls, found %d' % len(aligns))
    ext = {'IL': 'len(self.ilines)', 'XL': 'len(self.xlines)', 'Z': 'len(self.zslices)'}
    for e in aligns:
        rng = U(e.binding['range_'])
        ax = axis_of_text(rng)
        paths = fm.paths_at(e.call)
        missing = set()
        for facts in paths:
            from ..facts import holds
            need = {'0 <= lo': holds(facts, '<=', '0', rng + '[0]'),
                    'hi <= %s' % ext.get(ax, '?'): holds(facts, '<=', rng + '[1]', ext.get(ax, '?')),
                    'lo < hi': holds(facts, '<', rng + '[0]', rng + '[1]')}
            missing |= {k for k, ok in need.items() if not ok}
        if not paths:
            ctx.fail('C10.5', v, e.call, 'alignment of %s is unreachable' % rng)
        elif missing:
            ctx.fail('C10.5', v, enclosing_stmt(e.call), 'the %s range `%s` reaches its first arithmetic without %s being established: '
                     '%s' % (ax, rng, ' / '.join(sorted(missing)),
                             'an empty or inverted range is cropped' if 'lo < hi' in missing else 'a range outside the cube is cropped'),
                     line=e.call.lineno, key_extra=rng)
        else:
            ctx.ok('C10.5', v, e.call, '0 <= lo, hi <= %s, lo < hi hold on all %d path(s)' % (ext[ax], len(paths)))
        # C10.7 axis agreement of the alignment call: (range, name, len(axis), axis_num)
        an = e.binding.get('axis_num')
        al = e.binding.get('axis_len')
        k = {'IL': 0, 'XL': 1, 'Z': 2}.get(ax)
        ok = isinstance(an, ast.Constant) and an.value == k and axis_of_text(U(al)) == ax
        if ok:
            ctx.ok('C10.7', v, '%s aligned on axis %d' % (rng, k), 'range, axis length and blockshape component belong to one axis')
        else:
            ctx.fail('C10.7', v, enclosing_stmt(e.call), 'the %s range is aligned with blockshape[%s] and clipped to %s' % (
                ax, U(an), U(al)), line=e.call.lineno, key_extra=rng)
    # failing paths raise IndexError; "nothing given" is refused too
    raises = [s for (k, s, f) in fm.exits if k == 'raise']
    if raises and all('IndexError' in U(r.exc) for r in raises):
        ctx.ok('C10.5', v, raises[0], 'invalid bounds end in IndexError')
    else:
        ctx.fail('C10.5', v, v.name, 'invalid bounds do not (all) end in IndexError')
    none_test = [n for n in ast.walk(v.node) if isinstance(n, ast.If) and U(n.test).count('is None') == 3 and
                 isinstance(n.test, ast.BoolOp) and isinstance(n.test.op, ast.And)]
    if none_test and any(isinstance(s, ast.Assign) and U(s.value) == 'False' for s in none_test[0].body):
        ctx.ok('C10.5', v, none_test[0].test, 'a request with no range at all is invalid')
    else:
        ctx.fail('C10.5', v, v.name, 'a request without any range is not refused')
    # every normal return is reached only with all checks passed (valid flag true)
    # C10.6
    w = P.func('cropping.SgzCropper.write_cropped_file_by_indexes')
    wfm = FactMap(w.node)
    opens = [c for c in ast.walk(w.node) if isinstance(c, ast.Call) and U(c.func) == 'open' and len(c.args) > 1 and
             'w' in U(c.args[1])]
    if not opens:
        raise AnalysisError('cropper: output open() not found')
    for c in opens:
        facts = wfm.facts_at(c) or frozenset()
        called = {a[1].split('.')[-1] for a in facts if a[0] == 'called'}
        if {'check_and_correct_bounds', 'regenerate_header'} <= called:
            ctx.ok('C10.6', w, c, 'output opened after validation and header regeneration')
        else:
            ctx.fail('C10.6', w, enclosing_stmt(c), 'the output is created before %s: a refused request leaves a file behind' % (
                sorted({'check_and_correct_bounds', 'regenerate_header'} - called)), line=c.lineno)
    # the by-coordinate entry goes through the same validator
    bc = P.func('cropping.SgzCropper.write_cropped_file_by_coords')
    if any(e.target is w for e in G.callees(bc)):
        ctx.ok('C10.6', bc, bc.name, 'coordinate entry delegates to the index entry (same validation)')
    else:
        ctx.fail('C10.6', bc, bc.name, 'the coordinate entry does not go through write_cropped_file_by_indexes')
    ctx.floor('C10.5', 5)
    ctx.floor('C10.7', 3)


def alignment(ctx):
    """C10.7 by symbolic evaluation of the aligner: lower bound = bs*floor(lo/bs), upper bound = bs*ceil(hi/bs) or the
    axis length (clip), for the blockshape component of the axis number it is given."""
    P, G = ctx.P, ctx.G
    f = P.func('cropping.SgzCropper.correct_bounds')
    for flags in ((False, False, False), (True, True, False)):
        m = Model(P, G, '3d', flags, reader_cls='cropping.SgzCropper')
        T = m.T
        for k in range(3):
            lo = m.interp.digit_var('lo%d' % k, k)
            hi = m.interp.digit_var('hi%d' % k, k)
            params = {f.params[1]: Tup([lo, hi]), f.params[2]: Opaque('name'), f.params[3]: m.N[k], f.params[4]: C(k)}
            outs = [o for o in m.run(f.qualname, params=params) if o.kind == 'return']
            if not outs:
                raise AnalysisError('correct_bounds: no returning path (mode %s axis %d)' % (m.name, k))
            bs = m.bs[k]
            want_lo = bs * T.floordiv(lo, bs)
            want_hi = bs * T.ceildiv(hi, bs)
            bad = None
            his = set()
            for o in outs:
                v = o.value
                if not (isinstance(v, Tup) and len(v.elts) == 2 and all(isinstance(x, Poly) for x in v.elts)):
                    raise AnalysisError('correct_bounds: result does not normalise (mode %s axis %d): %r' % (m.name, k, v))
                if v.elts[0] != want_lo:
                    bad = 'the lower bound becomes %r, rounding down to the block gives %r' % (v.elts[0], want_lo)
                vh = v.elts[1]
                cps = getattr(m.interp, 'cond_polys', {})
                known = [(cps[c[0]], c[1]) for c in o.state.conds if c[0] in cps]
                # equalities / orderings established on this path
                eq_N = any(kind == 'Eq' and val and ((a_ == vh and b_ == m.N[k]) or (b_ == vh and a_ == m.N[k]))
                           for (kind, a_, b_), val in known)
                le_N = any((kind == 'min' and ((val and a_ == vh and b_ == m.N[k]) or (not val and b_ == vh and a_ == m.N[k])))
                           or (kind in ('LtE', 'Lt') and val and a_ == vh and b_ == m.N[k])
                           or (kind in ('GtE', 'Gt') and val and b_ == vh and a_ == m.N[k])
                           or (kind in ('Gt',) and not val and a_ == vh and b_ == m.N[k])
                           for (kind, a_, b_), val in known)
                if vh == m.N[k] or eq_N:
                    his.add('N')
                elif vh == want_hi and le_N:
                    his.add('ceil')
                elif vh == want_hi:
                    bad = ('the upper bound becomes %r (rounded up to the block) on a path that does not establish that this is '
                           'within the axis length %r: a bound inside the last, partly filled block is rounded past the end of '
                           'the axis' % (vh, m.N[k]))
                else:
                    bad = 'the upper bound becomes %r, rounding up to the block gives %r (or the axis length %r)' % (
                        vh, want_hi, m.N[k])
            label = 'axis %d [%s]' % (k, m.name)
            if bad:
                ctx.fail('C10.7', f, f.name, 'alignment on axis %d (%s): %s: the cropped box is not the requested box widened to '
                         'block boundaries' % (k, m.name, bad), key_extra='axis%d' % k)
            elif len(his) < 2:
                ctx.fail('C10.7', f, f.name, 'alignment on axis %d: the upper bound is never clipped to the axis length' % k,
                         key_extra='clip%d' % k)
            else:
                ctx.ok('C10.7', f, label, 'lo -> bs*floor(lo/bs), hi -> min(bs*ceil(hi/bs), axis length)')


def symbolic(ctx, ht):
    P, G = ctx.P, ctx.G
    alignment(ctx)
    count_rows = {}
    for r in ht.rows:
        role = TB.role_of_row(r)
        if role and role[0] == 'COUNT' and role[1] in ('IL', 'XL', 'Z'):
            count_rows[(r.lo, r.hi)] = {'IL': 0, 'XL': 1, 'Z': 2}[role[1]]
    entry = 'cropping.SgzCropper.write_cropped_file_by_indexes'
    seen_l1, seen_sz = set(), set()
    n_modes = 0
    for flags in MODES_3D:
        m = Model(P, G, '3d', flags, reader_cls='cropping.SgzCropper')
        lay = Layout(m)
        T = m.T
        outs = [o for o in m.run(entry) if o.kind in ('fall', 'return')]
        if not outs:
            raise AnalysisError('cropper: no completing path in mode %s' % m.name)
        n_modes += 1
        # distinct paths by the clip decisions only
        done = set()
        for o in outs:
            sig = tuple(c for c in o.state.conds if 'picks' in c[0])
            if sig in done:
                continue
            done.add(sig)
            reads = [e for e in o.state.events if e.kind == 'read']
            if not reads:
                raise AnalysisError('cropper: no range read on a completing path in mode %s' % m.name)
            total = Poly()
            for ev in reads:
                probs = lay.check_offset(ev.offset)
                key = (ev.node.lineno, m.name)
                label = 'read at line %d [%s]' % (ev.node.lineno, m.name)
                if probs:
                    ctx.fail('C10.4', ev.func, ev.node, 'the cropper copies from offset %r, which is not a canonical address of a '
                             '%s source: %s' % (ev.offset, m.name, '; '.join(probs)), key_extra=m.name if False else None,
                             line=ev.node.lineno, detail={'mode': m.name})
                elif key not in seen_l1:
                    seen_l1.add(key)
                    ctx.ok('C10.4', ev.func, label, 'offset %r is canonical' % (ev.offset,), sample={'mode': m.name})
                n = ev.length
                if not isinstance(n, Poly):
                    raise AnalysisError('cropper: read length does not normalise in mode %s' % m.name)
                for lp in ev.loops:
                    if lp.count is None:
                        raise AnalysisError('cropper: loop %s has no symbolic trip count' % lp.name)
                    n = n * lp.count
                total = total + n
            # declared: counts written into the new header
            counts = {}
            for ev in o.state.events:
                if ev.kind == 'opstore' and isinstance(ev.index, SliceV) and isinstance(ev.index.lo, Poly) and \
                        isinstance(ev.index.hi, Poly) and ev.index.lo.is_const() and ev.index.hi.is_const():
                    rng = (int(ev.index.lo.const_value()), int(ev.index.hi.const_value()))
                    if rng in count_rows and isinstance(ev.value, Packed) and isinstance(ev.value.value, Poly):
                        counts[count_rows[rng]] = ev.value.value
            if len(counts) != 3:
                raise AnalysisError('cropper: the three count fields of the new header were not found on a path (%s)' % sorted(counts))
            declared = lay.bytes_per_voxel
            for k in range(3):
                declared = declared * (lay.bvec[k] * 4) * T.ceildiv(counts[k], lay.bvec[k] * 4)
            key = (m.name, sig)
            label = 'bytes copied [%s, clip %s]' % (m.name, ''.join('Y' if c[1] else 'N' for c in sig))
            if T.canon(total) == T.canon(declared):
                ctx.ok('C10.8', P.func(entry), label, 'copied %r = declared rate/8*prod(pad(count, bs))' % (total,),
                       sample={'mode': m.name})
            else:
                ctx.fail('C10.8', P.func(entry), 'unit counts', 'in layout %s the cropper copies %r bytes but the header it writes '
                         'declares %r (counts %s): the file is shorter/longer than stated and decodes wrongly' % (
                             m.name, total, declared, {k: repr(v) for k, v in counts.items()}), detail={'mode': m.name})
    ctx.floor('C10.4', 8)
    ctx.floor('C10.8', 16)
    ctx.notes.append('cropper evaluated symbolically in %d layout modes' % n_modes)
