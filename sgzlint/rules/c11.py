"""C11 - converting with an inline/crossline window."""
import ast
from ..core import U, AnalysisError, parent, enclosing_stmt
from ..facts import FactMap
from .. import producers as PR
from .. import capture as CAP
from .. import headerrules as HR
from .. import tables as TB
from .c01 import fallback, fillers_of

PROP = 'C11'
EXPLANATION = (
    'C11.1: optional numeric parameters (default None) of the public API are tested with `is None`, never for '
    'truth (if p / not p / p and .. / all([p, ..]) / bool(p)) - a window bound of 0 is a legitimate value. '
    'C11.2 window frames: the origin slots of the header receive the source axis indexed by the window origin '
    '(FILE -> WINDOW frame), the header arrays are allocated for the output grid unless the geometry is not a plain '
    'regular 3D grid, every index into the source inside the plane reader carries the window origin of each axis it '
    'addresses while window-local indices are origin free (polynomial normal forms over geom.ilines[0], '
    'geom.xlines[0], plane_set_id, blockshape[0], i), the reduced-I/O reader is dropped when its self-test (which '
    'includes shape equality with the window) fails, and the trace-count slot is the window grid. C11.3: plane '
    'ordinal = IL origin + set*bs0 + i and the crossline cut is [first : last+1]. C11.4: the CLI forwards the four '
    'window options to the converter parameters of the same name.')
EXPLANATION += (
    ' ADDED: C11.2 also requires the count / size fields of the fresh header to come from the output geometry and the self-test oracle of C01.4; C11.3 includes the whole-file precondition of the reduced-I/O reader and the branch-sensitive plane ordinal.'
)
ASSUMPTIONS = ['segyio addresses inlines by line number through f.ilines[ordinal] and headers by trace ordinal in file order']
NOT_DECIDED = 'Equality of the windowed file with the file made from a pre-cut SEG-Y (needs execution).'


def truth_tested(f, pname):
    """Load sites where parameter pname is used for its truth value."""
    out = []
    for n in ast.walk(f.node):
        if not (isinstance(n, ast.Name) and n.id == pname and isinstance(n.ctx, ast.Load)):
            continue
        p = parent(n)
        if isinstance(p, (ast.If, ast.While, ast.IfExp, ast.Assert)) and p.test is n:
            out.append((n, 'used as a condition'))
        elif isinstance(p, ast.UnaryOp) and isinstance(p.op, ast.Not):
            out.append((n, '`not %s`' % pname))
        elif isinstance(p, ast.BoolOp):
            out.append((n, 'operand of and/or'))
        elif isinstance(p, ast.Call) and U(p.func) == 'bool':
            out.append((n, 'bool(%s)' % pname))
        elif isinstance(p, (ast.List, ast.Tuple, ast.Set)) and isinstance(parent(p), ast.Call) and \
                U(parent(p).func) in ('all', 'any'):
            out.append((n, 'element of %s([...])' % U(parent(p).func)))
        elif isinstance(p, (ast.GeneratorExp, ast.ListComp)) and p.elt is n and isinstance(parent(p), ast.Call) and \
                U(parent(p).func) in ('all', 'any'):
            out.append((n, 'element of %s(...)' % U(parent(p).func)))
    return out


def run(ctx):
    P, G = ctx.P, ctx.G
    ctx.rule('C11.1', 'optional numeric parameters are compared with None, never tested for truth')
    ctx.rule('C11.2', 'window frames: origin slots, header allocation, header capture, fallback, trace count')
    ctx.rule('C11.3', 'window selection: plane ordinal and crossline cut')
    ctx.rule('C11.4', 'the CLI forwards the window options to the parameters of the same name')
    # ---- C11.1
    mods = ('conversion', 'cropping', 'read', 'accessors', 'cli', 'open', 'segyio_emulator')
    n = 0
    for f in P.functions.values():
        if f.module.name not in mods:
            continue
        for p_, d in f.defaults.items():
            if not (isinstance(d, ast.Constant) and d.value is None):
                continue
            n += 1
            sites = truth_tested(f, p_)
            # a comprehension variable iterating a literal list of parameters: all(v for v in [a, b])
            for c in ast.walk(f.node):
                if isinstance(c, (ast.GeneratorExp, ast.ListComp)) and isinstance(parent(c), ast.Call) and \
                        U(parent(c).func) in ('all', 'any') and isinstance(c.elt, ast.Name) and \
                        c.elt.id == U(c.generators[0].target) and isinstance(c.generators[0].iter, (ast.List, ast.Tuple)) and \
                        any(isinstance(x, ast.Name) and x.id == p_ for x in c.generators[0].iter.elts):
                    sites.append((c, 'element of %s(v for v in [...])' % U(parent(c).func)))
            if sites:
                node, how = sites[0]
                ctx.fail('C11.1', f, enclosing_stmt(node), 'optional parameter %s (default None) is tested for truth (%s): the '
                         'legitimate value 0 is treated as "not given"' % (p_, how), line=node.lineno, key_extra=p_)
            else:
                ctx.ok('C11.1', f, '%s(%s=None)' % (f.name, p_), 'only compared with None / passed on', nontrivial=False)
    ctx.floor('C11.1', 25, 'optional parameters')
    # ---- C11.2
    ht = HR.HeaderTable(P, G)
    origin_slots(ctx, ht, 'C11.2')
    from .c03 import output_frame_counts
    output_frame_counts(ctx, ht, 'C11.2')
    allocation(ctx, 'C11.2')
    pl, prods = PR.producers(P, G)
    for pr in prods:
        fl, bufs = fillers_of(P, G, pr)
        for (t, bp, e) in fl:
            if 'planes_to_read' in t.params and 'geom' in t.params:
                CAP.check_plane_reader(ctx, 'C11.3', t)
                CAP.check_reduced_reader(ctx, 'C11.3', pr.func, t, e)
    fallback_rule(ctx, prods)
    ctx.floor('C11.2', 5)
    ctx.floor('C11.3', 8)
    # ---- C11.4
    cli(ctx)


def fallback_rule(ctx, prods):
    # same rule as C01.4, reported here as part of the window obligations
    class Proxy:
        pass
    before = len(ctx.findings)
    fallback(ctx, prods)
    for fnd in ctx.findings[before:]:
        fnd.rule = 'C11.2'
    if 'C01.4' in ctx.rule_counts:
        c = ctx.rule_counts.pop('C01.4')
        ctx.rule_counts.setdefault('C11.2', [0, 0])
        ctx.rule_counts['C11.2'][0] += c[0]
        ctx.rule_counts['C11.2'][1] += c[1]
    for s in ctx.samples:
        if s.get('rule') == 'C01.4':
            s['rule'] = 'C11.2'


def origin_slots(ctx, ht, rule):
    """C05.4: ORIGIN IL/XL slots of the fresh header receive <source axis>[geom.<axis>[0]] on the regular branch."""
    n = 0
    for s in ht.stores:
        row, prob = ht.row_of(s)
        if row is None:
            continue
        role = TB.role_of_row(row)
        if role is None or role[0] != 'ORIGIN' or role[1] not in ('IL', 'XL'):
            continue
        if TB.header_buffers(ht.P, s.func).get(s.buf) != 'fresh':
            continue
        # a store that lies on the irregular branch only (every path to it has `unstructured` true) is not the
        # regular-window origin: C08.1 checks what it receives
        paths_ = ht.fm(s.func).paths_at(s.stmt) or []
        if paths_ and all(('T', 'unstructured') in p_ for p_ in paths_):
            continue
        res = ht.resolver(s)
        e = s.value
        d = res(U(e)) if isinstance(e, ast.Name) else e
        if d is None and isinstance(e, ast.Name):
            # defined differently per branch: take the definition in force on the regular (not unstructured) paths
            fm_ = ht.fm(s.func)
            cands = set()
            for facts in fm_.paths_at(s.stmt):
                if ('T', 'unstructured') in facts:
                    continue
                dd = fm_.resolve_def(e.id, facts)
                if dd is not None:
                    cands.add(dd)
            if len(cands) == 1:
                d = ast.parse(cands.pop(), mode='eval').body
        if d is None:
            raise AnalysisError('%s: cannot find what `%s` is bound to on the regular branch' % (s.func.qualname, U(e)))
        # regular branch of `A if unstructured else B`
        reg = d.orelse if isinstance(d, ast.IfExp) and 'unstructured' in U(d.test) else d
        n += 1
        ax = 'ilines' if role[1] == 'IL' else 'xlines'
        want = '%s[geom.%s[0]]' % (ax, ax)
        # an index held in a single-assignment local
        if isinstance(reg, ast.Subscript) and isinstance(reg.slice, ast.Name):
            dd = res(reg.slice.id)
            if dd is not None:
                reg = ast.Subscript(value=reg.value, slice=dd, ctx=ast.Load())
        if U(reg).replace(' ', '') == want:
            ctx.ok(rule, s.func, s.stmt, 'origin of %s = source axis at the window origin (%s)' % (role[1], want))
        elif isinstance(reg, ast.Subscript) and U(reg.value) == ax and isinstance(reg.slice, ast.Constant):
            ctx.fail(rule, s.func, enclosing_stmt(reg) if parent(reg) is not None else s.stmt,
                     'the %s origin field receives `%s`, the first line of the SOURCE: with an inline/crossline window the '
                     'file reports the wrong line numbers (must be %s)' % (role[1], U(reg), want), key_extra=role[1])
        else:
            ctx.fail(rule, s.func, s.stmt, 'the %s origin field receives `%s`; expected %s' % (role[1], U(reg)[:50], want),
                     key_extra=role[1])
    if n < 2:
        raise AnalysisError('origin slots of the fresh header not found')


def _factors(f, e, depth=0):
    """sorted factor texts of a product, with locals that are assigned once (also by tuple unpacking) resolved."""
    if isinstance(e, ast.BinOp) and isinstance(e.op, ast.Mult):
        return sorted(_factors(f, e.left, depth) + _factors(f, e.right, depth))
    if isinstance(e, ast.Name) and depth < 4:
        defs = []
        for a in ast.walk(f.node):
            if isinstance(a, ast.Assign) and len(a.targets) == 1:
                t = a.targets[0]
                if isinstance(t, ast.Name) and t.id == e.id:
                    defs.append(a.value)
                elif isinstance(t, ast.Tuple) and isinstance(a.value, ast.Tuple) and len(t.elts) == len(a.value.elts):
                    for t_, v_ in zip(t.elts, a.value.elts):
                        if isinstance(t_, ast.Name) and t_.id == e.id:
                            defs.append(v_)
        if len(defs) == 1 and e.id not in f.params:
            return _factors(f, defs[0], depth + 1)
    return [U(e).replace(' ', '')]


def allocation(ctx, rule):
    """C04.3: header arrays are allocated for the output grid on every path on which the geometry can be a plain
    regular 3D grid."""
    P, G = ctx.P, ctx.G
    hw = P.cls('headers.HeaderwordInfo')
    n = 0
    for f in P.functions.values():
        if f.module.name != 'conversion':
            continue
        calls = [e for e in G.callees(f) if e.kind == 'ctor' and e.target.cls is hw and 'n_traces' in e.binding]
        if not calls:
            continue
        fm = FactMap(f.node)
        for e in calls:
            v = e.binding['n_traces']
            n += 1
            if not isinstance(v, ast.Name):
                fs = _factors(f, v)
                if fs in (['len(self.ilines)', 'len(self.xlines)'], ['len(self.geom.ilines)', 'len(self.geom.xlines)']):
                    ctx.ok(rule, f, e.call, 'arrays allocated for the output grid')
                else:
                    ctx.fail(rule, f, enclosing_stmt(e.call), 'header arrays are allocated with `%s`, not the output grid' % U(v),
                             line=e.call.lineno)
                continue
            bad = None
            for facts in fm.paths_at(e.call):
                d = fm.resolve_def(v.id, facts)
                if d is None:
                    bad = ('unknown', facts)
                    break
                try:
                    grid = _factors(f, ast.parse(d, mode='eval').body) == ['len(self.geom.ilines)', 'len(self.geom.xlines)']
                except SyntaxError:
                    grid = False
                if grid:
                    continue
                # a source-frame count is acceptable only where the geometry cannot be a plain regular 3D grid
                excl = any((a[0] == 'F' and ('Geometry3d' in a[1] or 'structured' in a[1])) or
                           (a[0] in ('isnot', '!=') and 'Geometry3d' in str(a)) or
                           (a[0] == 'T' and ('Geometry2d' in a[1] or 'is_2d' in a[1] or 'InferredGeometry3d' in a[1]))
                           for a in facts)
                if not excl:
                    bad = (d, facts)
                    break
            if bad:
                ctx.fail(rule, f, enclosing_stmt(e.call), 'on a path where the geometry can be a regular 3D window the header arrays '
                         'are allocated with `%s` (source frame), while the header states 4 bytes per trace of the window grid' % (
                             bad[0][:60],), line=e.call.lineno, key_extra=U(e.call)[:40])
            else:
                ctx.ok(rule, f, e.call, 'allocated with len(geom.ilines)*len(geom.xlines) wherever the geometry is a regular 3D grid')
    if n < 3:
        raise AnalysisError('HeaderwordInfo constructions in conversion.py: found %d, floor 3' % n)


def cli(ctx):
    P, G = ctx.P, ctx.G
    n = 0
    for f in P.functions.values():
        if f.module.name != 'cli':
            continue
        for e in G.callees(f):
            if e.kind == 'ctor' and e.target is not None and 'Converter' in e.target.cls.name:
                for p_ in ('min_il', 'max_il', 'min_xl', 'max_xl'):
                    if p_ in e.target.params and p_ in f.params:
                        n += 1
                        v = e.binding.get(p_)
                        if v is not None and U(v) == p_:
                            ctx.ok('C11.4', f, '%s=%s' % (p_, U(v)), 'option forwarded to the parameter of the same name')
                        else:
                            ctx.fail('C11.4', f, enclosing_stmt(e.call), 'CLI option %s is %s' % (
                                p_, 'not forwarded to the converter' if v is None else 'forwarded as `%s`' % U(v)),
                                line=e.call.lineno, key_extra=p_)
    ctx.floor('C11.4', 4)
