"""C12 - re-blocking to the z-slice layout changes layout only."""
import ast
from ..core import U, AnalysisError, parent, enclosing_stmt
from ..facts import FactMap
from ..algebra import Poly, C, A, Atoms
from .. import headerrules as HR
from .. import tables as TB
from .. import iorules as IO
from ..layout import Layout
from ..model import Model
from ..symeval import Buf, BufSlice, Bytes, SliceV
from .c03 import check_footer, check_sizes

PROP = 'C12'
TECHNIQUE = 'static analysis: must-facts (entry guards), header-table diff against a copy, digit algebra of the ceiling idiom, symbolic evaluation of the regrouping loops'
EXPLANATION = (
    'C12.1: the entry guards on rate and blockshape are must-facts at the open of the output (an unsupported input '
    'leaves no file). C12.2 layout-only header edit: the new header is a copy of the source header and the only '
    'constant-range stores into it are the three blockshape fields and the data-size field (plus the version field if '
    'restamped), so hash, SEG-Y headers, header-word table, axes and trace count are carried; the new size obeys the '
    'common size formula. C12.3: footer stride under the copied version. C12.4 regrouping: (a) the unit counts of '
    'partial 64x64 blocks are ceil(rem/4) on both residue classes of rem % 4 (rem = 4q + r digit algebra); (b) every '
    'source range read of the regrouping loops, evaluated symbolically, is a canonical address of the default layout '
    'up to an integer group factor of the loop stride; (c) the row read lands at row n of the 16x16 assembly and the '
    'z-th unit of column u goes to unit u of the new block (strides chunk_bytes / unit_bytes). C12.5: the source bytes '
    'come through the length-checked range-read primitive.')
EXPLANATION += (
    ' ADDED: C12.3 follows footer helpers of the same class and includes the order, one-key-per-array and full-grid-array (include_padding=True) clauses of C03.5. The unit-count idiom -(-a // b) is accepted as a ceiling.'
)
ASSUMPTIONS = ['a 64x64x4 block at 2 bits is 16x16x1 compression units of 16 bytes in C order', 'the source is a default-layout file (guarded)']
NOT_DECIDED = 'Bitwise equality of the volumes; re-blocking of irregular sources (masked footer arrays) is not examined.'


def run(ctx):
    P, G = ctx.P, ctx.G
    ctx.rule('C12.1', 'entry guards on rate and blockshape dominate the creation of the output')
    ctx.rule('C12.2', 'layout-only header edit of a copy of the source header; size formula')
    ctx.rule('C12.3', 'footer stride under the copied version')
    ctx.rule('C12.4', 'regrouping: ceiling unit counts, canonical source addresses, consistent strides')
    ctx.rule('C12.5', 'source bytes come through the checked range read')
    f = P.func('conversion.SgzConverter.convert_to_adv_sgz')
    ht = HR.HeaderTable(P, G)
    ctx.ht = ht
    guards(ctx, f)
    header_edit(ctx, ht, f)
    helpers = {f.qualname} | {q for q in G.reach(f) if P.functions[q].cls is f.cls}
    check_footer(ctx, ht, 'C12.3', select=lambda g: g.qualname in helpers)
    from .c08 import mask_use
    mask_use(ctx, 'C12.3')
    ceilings(ctx, f)
    checked_reads(ctx, f)
    symbolic(ctx, f)


def guards(ctx, f):
    fm = FactMap(f.node)
    opens = [c for c in ast.walk(f.node) if isinstance(c, ast.Call) and U(c.func) == 'open' and len(c.args) > 1 and
             'w' in U(c.args[1])]
    if not opens:
        raise AnalysisError('re-blocker: output open() not found')
    for c in opens:
        facts = fm.facts_at(c) or frozenset()
        r = [a for a in facts if a[0] == '==' and 'self.rate' in (a[1], a[2])]
        b = [a for a in facts if a[0] == '==' and 'self.blockshape' in (a[1], a[2])]
        if r and b:
            ctx.ok('C12.1', f, c, 'rate and blockshape are checked before the output exists (%s, %s)' % (r[0][1:], b[0][1:]))
        else:
            ctx.fail('C12.1', f, enclosing_stmt(c), 'the output is created without a preceding check of %s: an unsupported input is '
                     're-blocked wrongly or leaves a partial file' % ('/'.join(n for n, x in (('rate', r), ('blockshape', b)) if not x)),
                     line=c.lineno)


def header_edit(ctx, ht, f):
    P = ctx.P
    bufs = TB.header_buffers(P, f)
    copies = [n for n, k in bufs.items() if k == 'copy']
    if not copies:
        ctx.fail('C12.2', f, f.name, 'the new header is not a copy of the source header: hash, file headers, table and axes are not carried')
        return
    ctx.ok('C12.2', f, 'new header = bytearray(self.headerbytes)', 'starts from a copy of the source header')
    allowed = {('BLOCKSHAPE', 'IL'), ('BLOCKSHAPE', 'XL'), ('BLOCKSHAPE', 'Z'), ('DATA_BLOCKS', None), ('VERSION', None)}
    seen = set()
    for s in ht.stores:
        if s.func is not f:
            continue
        row, prob = ht.row_of(s)
        role = TB.role_of_row(row) if row is not None else None
        seen.add(role)
        if role in allowed and not prob:
            ctx.ok('C12.2', f, s.stmt, 'layout field %s/%s rewritten' % role)
        else:
            ctx.fail('C12.2', f, s.stmt, 'the re-blocker overwrites bytes %d:%d (%s), which is not a layout field: the re-blocked file '
                     'no longer carries the source\'s value' % (s.lo, s.hi, row.text[:30] if row is not None else 'no field'),
                     key_extra='%d' % s.lo)
    for need in [r for r in allowed if r[0] != 'VERSION']:
        if need not in seen:
            ctx.fail('C12.2', f, f.name, 'layout field %s/%s is not rewritten' % need, key_extra=str(need))
    # non-constant stores into the copy
    for n in ast.walk(f.node):
        if isinstance(n, ast.Assign) and isinstance(n.targets[0], ast.Subscript) and U(n.targets[0].value) in copies:
            sl = n.targets[0].slice
            if not (isinstance(sl, ast.Slice) and TB.const_eval(P, f.module, sl.lower) is not None):
                ctx.fail('C12.2', f, n, 'store into the header copy at a non-constant range `%s`' % U(sl))
    # the copy is what gets written first
    writes = [c for c in ast.walk(f.node) if isinstance(c, ast.Call) and isinstance(c.func, ast.Attribute) and
              c.func.attr == 'write' and c.args and U(c.args[0]) in copies]
    if writes:
        ctx.ok('C12.2', f, writes[0], 'the edited copy is written as the new header')
    else:
        ctx.fail('C12.2', f, f.name, 'the edited header copy is never written')
    check_sizes(ctx, ht, 'C12.2', select=lambda g: g.name == 'convert_to_adv_sgz')
    ctx.floor('C12.2', 7)


def ceilings(ctx, f):
    """unit counts of partial blocks: (rem + 3) // 4 style expressions must be ceil(rem/4)."""
    T = Atoms()
    q = T.declare('q', 0, None, kind='digitb')
    r = T.declare('r', 0, 4, kind='digit')
    rem = 4 * q + r
    want = T.ceildiv(rem, 4)
    n = 0
    for st in ast.walk(f.node):
        if not (isinstance(st, ast.If) and isinstance(st.test, ast.Compare) and len(st.test.ops) == 1 and
                isinstance(st.test.ops[0], (ast.Gt, ast.Lt))):
            continue
        body = [s for s in st.body if isinstance(s, ast.Assign)]
        other = [s for s in st.orelse if isinstance(s, ast.Assign)]
        if len(body) != 1 or len(other) != 1 or U(body[0].targets[0]) != U(other[0].targets[0]):
            continue
        e = body[0].value
        mods = [m for m in ast.walk(e) if isinstance(m, ast.BinOp) and isinstance(m.op, ast.Mod)]
        if not mods:
            continue
        from ..groupcount import _arith
        if not (_arith(e) and _arith(other[0].value)):
            continue   # bytes / arrays chosen by a version test etc.: not a unit count
        n += 1
        remtxt = U(mods[0])

        def ev(x):
            if U(x) == remtxt:
                return rem
            if isinstance(x, ast.Constant) and isinstance(x.value, int):
                return C(x.value)
            if isinstance(x, ast.BinOp):
                l, rr = ev(x.left), ev(x.right)
                if l is None or rr is None:
                    return None
                if isinstance(x.op, ast.Add):
                    return l + rr
                if isinstance(x.op, ast.Sub):
                    return l - rr
                if isinstance(x.op, ast.Mult):
                    return l * rr
                if isinstance(x.op, ast.FloorDiv):
                    return T.floordiv(l, rr)
            if isinstance(x, ast.UnaryOp) and isinstance(x.op, ast.USub):
                # -(-a // b) is ceil(a / b)
                o = x.operand
                if isinstance(o, ast.BinOp) and isinstance(o.op, ast.FloorDiv) and isinstance(o.left, ast.UnaryOp) and \
                        isinstance(o.left.op, ast.USub):
                    a_, b_ = ev(o.left.operand), ev(o.right)
                    if a_ is not None and b_ is not None:
                        return T.ceildiv(a_, b_)
                v_ = ev(o)
                return None if v_ is None else -v_
            return None
        v = ev(e)
        name = U(body[0].targets[0])
        # full blocks: 16 = new block side / 4
        full = U(other[0].value)
        if v is None:
            raise AnalysisError('re-blocker: unit count `%s` does not normalise' % U(e))
        if v == want:
            ctx.ok('C12.4', f, body[0], '%s = ceil(rem/4) for rem = %s (rem = 4q + r: %r)' % (name, remtxt, v))
        else:
            ctx.fail('C12.4', f, body[0], 'the number of 4-line units of a partial block is `%s` = %r for rem = 4q + r, but ceil(rem/4) = '
                     '%r: %s' % (U(e), v, want, 'one unit too many when rem is a multiple of 4 (a row is read from the next set / '
                                 'beyond the data)' if v == q + 1 else 'units are dropped or added'))
        from .. import tables as TB_
        fv = TB_.const_eval(ctx.P, f.module, other[0].value, f)
        if fv is not None:
            full = str(fv)
        if full != '16':
            ctx.fail('C12.4', f, other[0], 'a full 64-line block is %s units, not 16' % full)
    if n < 2:
        raise AnalysisError('re-blocker: partial-block unit counts not found (%d)' % n)


def symbolic(ctx, f):
    P, G = ctx.P, ctx.G
    m = Model(P, G, '3d', (True, True, False), reader_cls='conversion.SgzConverter')
    lay = Layout(m)
    T = m.T
    outs = [o for o in m.run(f.qualname) if o.kind in ('fall', 'return')]
    if not outs:
        raise AnalysisError('re-blocker: no completing symbolic path')
    seen = set()
    n_read = n_store = 0
    for o in outs:
        for ev in o.state.events:
            if ev.kind == 'rawread' and ev.func is f:
                key = ('r', ev.node.lineno)
                off = ev.offset
                if not isinstance(off, Poly):
                    raise AnalysisError('re-blocker: source offset `%s` does not normalise' % U(ev.node)[:60])
                rel = off - A('DATA0')
                probs = check_grouped_offset(lay, T, rel)
                if key in seen and not probs:
                    continue
                seen.add(key)
                n_read += 1
                if probs:
                    ctx.fail('C12.4', f, ev.node, 'source range read at data offset %r is not a canonical address of the default '
                             'layout: %s' % (rel, '; '.join(probs)), line=ev.node.lineno)
                else:
                    ctx.ok('C12.4', f, ev.node, 'source offset %r: each loop variable steps by a whole multiple of the stride of its axis' % (rel,))
            if ev.kind == 'bufstore' and ev.func is f:
                key = ('s', ev.node.lineno)
                first = key not in seen
                seen.add(key)
                idx = ev.index
                if not (isinstance(idx, SliceV) and isinstance(idx.lo, Poly) and isinstance(idx.hi, Poly)):
                    raise AnalysisError('re-blocker: buffer store `%s` does not normalise' % U(ev.node)[:60])
                n_store += 1 if first else 0
                ln = idx.hi - idx.lo
                v = ev.value
                vlen = v.length if isinstance(v, (Bytes, BufSlice, Buf)) else None
                probs = []
                if isinstance(vlen, Poly) and vlen != ln:
                    probs.append('%r bytes are stored into a %r-byte slice (the bytearray would change size)' % (vlen, ln))
                chunk = m.interp.get_attr(m.reader, 'chunk_bytes', o.state, f, None)
                unit = lay.U
                if isinstance(v, Bytes):
                    # row n of the 16x16 assembly: position n * 16 * chunk_bytes
                    loops = [lp for lp in ev.loops if lp.name in idx.lo.atoms()]
                    for lp in loops:
                        coef = T.exact_div(Poly({k: c for k, c in idx.lo.t.items() if any(a == lp.name for a, e in k)}), A(lp.name))
                        if coef != 16 * chunk:
                            probs.append('row index %s advances the assembly position by %r, a row of 16 units is %r' % (
                                lp.name.split('@')[0], coef, 16 * chunk))
                elif isinstance(v, BufSlice):
                    # unit u of the new block <- z-th unit of column u of the assembly
                    dst_u = [lp for lp in ev.loops if lp.name in idx.lo.atoms()]
                    for lp in dst_u:
                        cd = T.exact_div(Poly({k: c for k, c in idx.lo.t.items() if any(a == lp.name for a, e in k)}), A(lp.name))
                        cs = T.exact_div(Poly({k: c for k, c in v.lo.t.items() if any(a == lp.name for a, e in k)}), A(lp.name))
                        if cd != unit or cs != chunk:
                            probs.append('unit index %s steps the new block by %r (unit = %r) and the assembly by %r (column = %r)' % (
                                lp.name.split('@')[0], cd, unit, cs, chunk))
                    zl = [lp for lp in ev.loops if lp.name in v.lo.atoms() and lp.name not in idx.lo.atoms()]
                    for lp in zl:
                        cs = T.exact_div(Poly({k: c for k, c in v.lo.t.items() if any(a == lp.name for a, e in k)}), A(lp.name))
                        if cs != unit:
                            probs.append('z index %s steps the assembly by %r, one unit is %r' % (lp.name.split('@')[0], cs, unit))
                    if ln != unit:
                        probs.append('the piece is %r bytes, one unit is %r' % (ln, unit))
                if probs:
                    ctx.fail('C12.4', f, ev.node, 'regrouping store `%s`: %s' % (U(ev.node)[:50], '; '.join(probs)), line=ev.node.lineno)
                elif first:
                    ctx.ok('C12.4', f, ev.node, 'piece of %r bytes placed with consistent strides' % (ln,))
    if n_read < 1 or n_store < 2:
        raise AnalysisError('re-blocker: symbolic evaluation found %d source reads and %d stores (floors 1 / 2)' % (n_read, n_store))


def check_grouped_offset(lay, T, off):
    """like Layout.check_offset, but a loop variable may advance by an integer multiple of a layout stride (groups of
    16 units = one new block side)."""
    probs = []
    off = T.canon(off)
    rest = Poly(dict(off.t))
    for a in lay.coord_atoms(off):
        terms = Poly({k: v for k, v in off.t.items() if any(x == a for x, e in k)})
        rest = rest - terms
        coef = T.exact_div(terms, A(a))
        kind = T.kind(a)
        if coef is None or kind != 'loop':
            probs.append('%s occurs in the offset (%s)' % (a.split('@')[0], kind))
            continue
        ok = False
        axes = lay.axis_of_atom(a)[1] or (0, 1, 2)
        for k in axes:
            for S in (lay.S_blk[k], lay.S_unit[k] if lay.bvec[k] != C(1) else None):
                if S is None:
                    continue
                q = T.exact_div(coef, S)
                if q is not None and q.is_const() and q.const_value() >= 1:
                    ok = True
        if not ok:
            probs.append('loop %s advances the offset by %r, no whole multiple of a layout stride' % (a.split('@')[0], coef))
    if not rest.is_zero():
        probs.append('constant displacement %r' % (rest,))
    return probs


def checked_reads(ctx, f):
    P, G = ctx.P, ctx.G
    prims = {p.qualname for p in IO.io_primitives(P, G)}
    via = [e for e in G.callees(f) if e.target is not None and e.target.qualname in prims]
    raw = [c for c in IO.raw_io_calls(f) if c.func.attr in ('read', 'readall')]
    if raw:
        ctx.fail('C12.5', f, enclosing_stmt(raw[0]), 'the re-blocker reads the source with a raw `%s` (no length check, file handles only)' % U(raw[0])[:50],
                 line=raw[0].lineno)
    elif via:
        ctx.ok('C12.5', f, via[0].call, 'source bytes come through the range-read primitive')
    else:
        ctx.fail('C12.5', f, f.name, 'the re-blocker no longer reads the source through the range-read primitive')
