"""C13 - segyio emulation (narrow): accessor wiring, sign consistency of open slices, 2D wiring, delegation."""
import ast
from ..core import U, AnalysisError, parent, enclosing_stmt
from ..facts import FactMap
from .. import readerfacts as RF
from ..axes import axis_of_text
from ..bounds import BoundsAnalysis
from .c09 import emulator

PROP = 'C13'
TECHNIQUE = ('static analysis: ast + resolved call graph + path-sensitive must-facts; abstract execution of the slice branch; '
             'symbolic evaluation of the reader entries behind the accessors over the polynomial index algebra (C13.11); '
             'codec / error-handler table for the text header')
EXPLANATION = (
    'Four structural necessary conditions; parity with segyio itself (a C extension) is not modelled. C13.1 accessor '
    'wiring: in every accessor class the triple (len_object, keys_object, values_function) carries one axis '
    '(n_ilines / ilines / read_inline_number, ...; tracecount / range(tracecount) / get_trace | gen_trace_header), '
    'and the emulator binds each accessor, and samples / attributes / bin / text, to the segyio attribute of that '
    'axis / role. C13.2 sign consistency: where range(start, stop, step) over line numbers takes its default step from '
    'a difference of adjacent keys (sign unknown - descending axes are in scope), the default stop lies beyond the last '
    'key in the direction of step: the offset added to keys[-1] is evaluated in the sign domain {step>0, step<0} and '
    'must be positive resp. negative. C13.3: 2D wiring (refusing objects). C13.4 delegation: every accessor reaches data '
    'only through public reader methods whose parameters C14 discharges, and negative ordinals are normalised by '
    'len + i (or slice.indices(len)) before the call.')
EXPLANATION += (
    ' ADDED: C13.2 now follows segyio.line.sanitize_slice: an absent or positive step runs towards larger line numbers (default start min(keys), stop max(keys)+1), a negative step the other way (max(keys), min(keys)-1), and the default step is |increment|; first / last key are extremes only on an ascending axis. C13.5: slice components are compared with None, never tested for truth. C13.6: per concrete accessor class, every value handed to values_function is in the index space (ordinal vs line number / coordinate) that the bound reader method takes, including iteration over keys_object.'
)
EXPLANATION += (
    ' ADDED (round 4): C13.7 - header[] and attributes() read stored array j where the converters wrote it: bytes per array of both write_headers = reader stride for the stamped version, and offset of array j = DISK*(header blocks + data blocks) + j*stride (rules C03.5 / C03.11 restricted to converters and reader). C13.2 is decided by abstract execution of the slice branch over 12 scenarios; C13.4 / C13.6 follow setter helpers and decide negative-ordinal normalisation from path facts.'
)
EXPLANATION += (
    ' C13.4 also: the number -> ordinal translation is exact (rule of C14.4), so line numbers segyio rejects are rejected.'
)
EXPLANATION += (
    ' C13.8 - attributes(field): every lookup in the store of variant header arrays by a key that comes from the caller holds, on every path, a fact that the key is stored there (membership test, or the FileOffset test of the template entry); otherwise a field that is constant through the file raises KeyError. C13.9 - text[0]: every character conversion between the stored textual header and the caller is total and gives one unit per stored byte (single-byte code pages; ascii only with errors=replace; no ignore / expanding handler; no multi-byte codec), so the 40 x 80 card layout survives.'
)
EXPLANATION += (
    ' C13.10 - attributes(field) must return an object that indexes like segyio\'s (an int selects a length-1 array): decided from what the callable bound to `attributes` returns (bare array expression vs. package class with __getitem__). On the current tree this is the known finding D49.'
)
EXPLANATION += (
    ' C13.11 - samples handed out by the accessors are the decoded volume: the reader entries the accessors, the emulator and tools reach (read_inline / read_crossline / read_zslice / get_trace / read_subvolume / read_volume ...) satisfy the addressing, decode and crop rules of C02 in every layout mode.'
)
ASSUMPTIONS = ['segyio yields all lines for f.iline[:] whatever the sign of the line increment', 'names denote what they say']
NOT_DECIDED = ('Kind/shape/key equality with segyio, which line numbers a stepped slice selects, the values of '
               'attributes(field)[...] and the characters of text[0] (segyio uses its own EBCDIC table), bin, tools.dt values, '
               'parity of rejections.')

WIRING = {'iline': 'IL', 'xline': 'XL', 'depth_slice': 'Z'}


def header_location(ctx):
    """C13.7: f.header[i] and f.attributes(word) read stored header array j at the offset the reader derives; they are the
    segyio values only if that is where the writers put array j: bytes per array written by both converters = the
    reader's stride for the stamped version (both residues of the array length mod 512), and array j is looked up at
    DISK*(header blocks + data blocks) + j*stride (rules C03.5 / C03.11 restricted to the converters and the reader)."""
    from .. import headerrules as HR
    from .. import wiring as WR
    from .c03 import check_footer
    P, G = ctx.P, ctx.G
    ctx.rule('C13.7', 'header[] / attributes(): stored header array j is read where the converters wrote it (stride and base offset)')
    ht = HR.HeaderTable(P, G)
    check_footer(ctx, ht, 'C13.7', select=lambda f: f.module.name == 'conversion' and f.name == 'write_headers')
    WR.footer_location(ctx, ht, 'C13.7')
    ctx.floor('C13.7', 4, 'footer writers and location facts')


def run(ctx):
    P, G = ctx.P, ctx.G
    header_location(ctx)
    from .. import fieldrules as FR
    FR.constant_fields(ctx, 'C13.8')
    FR.text_codec(ctx, 'C13.9')
    FR.attributes_kind(ctx, 'C13.10')
    # "samples equal to the SGZ's decoded volume": every reader entry the accessors, the emulator and tools hand out
    # addresses, decodes and crops canonically in every layout mode (the records of C02, restricted to those entries)
    ctx.rule('C13.11', 'reader entries behind iline / xline / depth_slice / trace / subvolume / tools.cube address, decode and crop canonically (rules of C02)')
    from .. import layoutrules as LR
    named = set()
    for mn in ('accessors', 'segyio_emulator', 'tools'):
        if mn in P.modules:
            for x in ast.walk(P.modules[mn].tree):
                if isinstance(x, ast.Attribute):
                    named.add(x.attr)
    allrecs = LR.collect(ctx.shared)
    entries = {r.entry.name for r in allrecs}
    # a *_number / *_coord entry reaches its ordinal sibling: follow one delegation step inside the reader
    chosen = set(entries & named)
    for f_ in RF.reader_classes(P)[0].methods.values():
        if f_.name in named:
            for e_ in G.callees(f_):
                if e_.target is not None and e_.target.name in entries:
                    chosen.add(e_.target.name)
    if len(chosen) < 4:
        raise AnalysisError('only %d reader entries are reachable from the accessors / emulator / tools: %s' % (len(chosen), sorted(chosen)))
    recs = [r for r in allrecs if r.entry.name in chosen]
    LR.report(ctx, recs, {'L1': 'C13.11', 'DEC': 'C13.11', 'L3': 'C13.11', 'L4': 'C13.11'})
    ctx.floor('C13.11', 20, 'reads / decodes / crops behind the accessors')
    ctx.notes.append('C13.11 entries: %s' % ', '.join(sorted(chosen)))
    ctx.rule('C13.1', 'accessor triples carry one axis; emulator binds accessors to the attribute of that axis')
    ctx.rule('C13.2', 'default stop of an open-ended line slice lies beyond the last key in the direction of step')
    ctx.rule('C13.3', '2D files: iline / xline / depth_slice refuse with the dimensionality error')
    ctx.rule('C13.4', 'accessors delegate to discharged reader methods; negative ordinals normalised first')
    acc = P.cls('accessors.Accessor')
    classes = [c for c in acc.all_subclasses() if '__init__' in c.methods]
    if len(classes) < 5:
        raise AnalysisError('accessor classes with a constructor: found %d, floor 5' % len(classes))
    cls_axis = {}
    trips = {}
    for c in sorted(classes, key=lambda c: c.name):
        init = c.methods['__init__']
        trip = {}
        trips[c.name] = trip
        for a in ast.walk(init.node):
            if isinstance(a, ast.Assign) and U(a.targets[0]) in ('self.len_object', 'self.keys_object', 'self.values_function'):
                trip[U(a.targets[0]).split('.')[1]] = a.value
        if len(trip) != 3:
            # set through a helper of the class: self.configure(n, keys, fn) with  self.len_object = <param> ..  inside
            for e in G.callees(init):
                if e.target is None or e.target.cls is None or e.kind != 'direct':
                    continue
                for st_ in ast.walk(e.target.node):
                    if isinstance(st_, ast.Assign) and U(st_.targets[0]) in ('self.len_object', 'self.keys_object', 'self.values_function') \
                            and isinstance(st_.value, ast.Name) and st_.value.id in e.binding:
                        trip.setdefault(U(st_.targets[0]).split('.')[1], e.binding[st_.value.id])
        if len(trip) != 3:
            ctx.fail('C13.1', init, c.name, 'accessor %s does not set len_object, keys_object and values_function' % c.name)
            continue
        axes = {}
        for k, v in trip.items():
            t = U(v)
            ax = axis_of_text(t)
            if ax is None and ('tracecount' in t or 'trace' in t or 'header' in t):
                ax = 'TRACE'
            axes[k] = ax
        if len(set(axes.values())) == 1 and None not in axes.values():
            ax = next(iter(axes.values()))
            cls_axis[c.name] = ax
            ctx.ok('C13.1', init, '%s: (%s)' % (c.name, ', '.join(U(v) for v in trip.values())), 'all three are %s quantities' % ax)
        else:
            ctx.fail('C13.1', init, c.name, 'accessor %s mixes axes: %s' % (c.name, {k: (U(trip[k]), axes[k]) for k in trip}))
    em = P.func('segyio_emulator.SegyioEmulator.__init__')
    fm = FactMap(em.node)
    for a in ast.walk(em.node):
        if not (isinstance(a, ast.Assign) and isinstance(a.targets[0], ast.Attribute) and U(a.targets[0].value) == 'self'):
            continue
        name = a.targets[0].attr
        facts = fm.facts_at(a) or frozenset()
        on3d = ('T', 'self.is_3d') in facts
        if name in WIRING and on3d:
            cn = _ctor_name(a.value)
            if cls_axis.get(cn) == WIRING[name]:
                ctx.ok('C13.1', em, a, 'f.%s is the %s accessor' % (name, WIRING[name]))
            else:
                ctx.fail('C13.1', em, a, 'f.%s is bound to %s, an accessor of the %s axis' % (name, cn, cls_axis.get(cn)))
        elif name in ('trace', 'header'):
            cn = _ctor_name(a.value)
            want = 'get_trace' if name == 'trace' else 'gen_trace_header'
            vf = trips.get(cn or '', {}).get('values_function')
            vf = U(vf) if vf is not None else None
            if vf == 'self.' + want:
                ctx.ok('C13.1', em, a, 'f.%s values come from %s' % (name, want))
            else:
                ctx.fail('C13.1', em, a, 'f.%s is bound to %s whose values come from %s (expected %s)' % (name, cn, vf, want))
        elif name == 'samples':
            if U(a.value) == 'self.zslices':
                ctx.ok('C13.1', em, a, 'f.samples is the sample axis')
            else:
                ctx.fail('C13.1', em, a, 'f.samples is bound to `%s`' % U(a.value))
        elif name == 'attributes':
            # the method itself, or a callable that passes its field argument to it (possibly wrapping the result)
            v = a.value
            reaches = U(v) == 'self.get_tracefield_1d'
            if isinstance(v, ast.Lambda) and len(v.args.args) == 1:
                p0 = v.args.args[0].arg
                reaches = any(isinstance(c, ast.Call) and U(c.func) == 'self.get_tracefield_1d' and len(c.args) == 1 and
                              U(c.args[0]) == p0 and not c.keywords for c in ast.walk(v.body))
            if reaches:
                ctx.ok('C13.1', em, a, 'f.attributes(field) reads the 1D tracefield array')
            else:
                ctx.fail('C13.1', em, a, 'f.attributes is bound to `%s`' % U(a.value))
        elif name in ('bin', 'text'):
            want = 'binary' if name == 'bin' else 'text'
            if want in U(a.value):
                ctx.ok('C13.1', em, a, 'f.%s from the stored %s header' % (name, want))
            else:
                ctx.fail('C13.1', em, a, 'f.%s is bound to `%s`' % (name, U(a.value)))
    ctx.floor('C13.1', 12)
    slice_none(ctx)
    index_space(ctx)
    # line numbers segyio rejects are rejected: the one number -> ordinal translation is exact (rule of C14.4)
    from .. import sanitiser
    sanitiser.check(ctx, 'C13.4')
    slices(ctx)
    n0 = len(ctx.findings)
    emulator(ctx)
    for f in ctx.findings[n0:]:
        f.rule = 'C13.3'
    from .c09 import _relabel
    _relabel(ctx, ('C09.5',), 'C13.3')
    delegation(ctx)


def index_space(ctx):
    """C13.6: every value handed to an accessor's values_function lives in the index space that function takes.
    Spaces: ORDINAL (position: range(..), slice.indices, len + i) and VALUE (line number / sample coordinate: the
    entries of an axis array).  The domain of values_function is read off the parameter name of the bound reader method
    (*_no / *_coord / *_number -> VALUE, *_id / index / i -> ORDINAL); the space of keys_object off what it is bound
    to (axis array -> VALUE, range(..) -> ORDINAL).  Checked per concrete accessor class through its MRO."""
    P = ctx.P
    ctx.rule('C13.6', 'values handed to values_function are in its index space (ordinal vs line number / coordinate), per accessor class')
    base = P.cls('accessors.Accessor')
    reader = P.cls(RF.READER)
    n = 0
    for c in base.all_subclasses():
        init = c.methods.get('__init__')
        if init is None:
            continue
        bound = {}
        for a in ast.walk(init.node):
            if isinstance(a, ast.Assign) and U(a.targets[0]) in ('self.values_function', 'self.keys_object'):
                bound[U(a.targets[0]).split('.')[1]] = a.value
        if len(bound) < 2:
            # set through a helper of the class (self.configure(n, keys, fn))
            for e in ctx.G.callees(init):
                if e.target is None or e.target.cls is None or e.kind != 'direct':
                    continue
                for st_ in ast.walk(e.target.node):
                    if isinstance(st_, ast.Assign) and U(st_.targets[0]) in ('self.values_function', 'self.keys_object') \
                            and isinstance(st_.value, ast.Name) and st_.value.id in e.binding:
                        bound.setdefault(U(st_.targets[0]).split('.')[1], e.binding[st_.value.id])
        if len(bound) < 2:
            continue      # intermediate class
        vf = bound['values_function']
        m = reader.find_method(vf.attr) if isinstance(vf, ast.Attribute) else None
        if m is None or len(m.params) < 2:
            raise AnalysisError('%s: values_function is not bound to a reader method' % c.qualname)
        pname = m.params[1]
        if pname.endswith(('_no', '_coord', '_number')):
            dom = 'VALUE'
        elif pname.endswith('_id') or pname in ('index', 'i'):
            dom = 'ORDINAL'
        else:
            raise AnalysisError('%s: cannot tell the index space of %s(%s)' % (c.qualname, m.name, pname))
        kt = U(bound['keys_object'])
        if kt.startswith('range('):
            kspace = 'ORDINAL'
        elif kt in ('self.ilines', 'self.xlines', 'self.zslices'):
            kspace = 'VALUE'
        else:
            raise AnalysisError('%s: cannot tell the index space of keys_object = %s' % (c.qualname, kt))
        # methods as resolved for this class
        seen = set()
        for k in c.mro:
            for name, meth in k.methods.items():
                if name in seen:
                    continue
                seen.add(name)
                for call in ast.walk(meth.node):
                    if not (isinstance(call, ast.Call) and U(call.func) == 'self.values_function' and call.args):
                        continue
                    arg = call.args[0]
                    # where does the argument come from?
                    space = None
                    src = arg
                    comp = parent(call)
                    while comp is not None and not isinstance(comp, (ast.ListComp, ast.GeneratorExp, ast.For, ast.FunctionDef)):
                        comp = parent(comp)
                    it = None
                    if isinstance(comp, (ast.ListComp, ast.GeneratorExp)) and isinstance(arg, ast.Name) and \
                            U(comp.generators[0].target) == arg.id:
                        it = comp.generators[0].iter
                    elif isinstance(comp, ast.For) and isinstance(arg, ast.Name) and U(comp.target) == arg.id:
                        it = comp.iter
                    if it is not None:
                        if 'keys_object' in U(it):
                            space = kspace
                        elif isinstance(it, ast.Call) and U(it.func) == 'range':
                            space = 'VALUE' if k.name == 'SliceAccessor' else 'ORDINAL'
                    else:
                        space = 'VALUE' if k.name == 'SliceAccessor' else 'ORDINAL'
                    if space is None:
                        raise AnalysisError('%s.%s: cannot tell the index space of `%s`' % (k.name, name, U(arg)))
                    n += 1
                    if space == dom:
                        ctx.ok('C13.6', meth, '%s: %s in %s.%s' % (c.name, U(call)[:40], k.name, name),
                               '%s takes %s and receives %s' % (m.name, dom, space))
                    else:
                        ctx.fail('C13.6', meth, enclosing_stmt(call), 'for %s, %s.%s hands %s to values_function = %s(%s), which takes %s: '
                                 '%s' % (c.name, k.name, name,
                                         'the entries of keys_object (%s: %s)' % (kt, 'line numbers / coordinates' if space == 'VALUE' else 'ordinals')
                                         if it is not None and 'keys_object' in U(it) else ('a %s' % space.lower()),
                                         m.name, pname, 'an ordinal' if dom == 'ORDINAL' else 'a line number / coordinate',
                                         'iteration / slicing of this accessor raises or returns other items than segyio'),
                                 line=call.lineno, key_extra=c.name)
    if n < 8:
        raise AnalysisError('accessor index spaces: only %d values_function call sites found' % n)


def slice_none(ctx):
    """C13.5: a slice component (start / stop / step of the subscript, or a local copied from one) that is absent is
    None; 0 is a legitimate line number / ordinal.  Components must be compared with None, never tested for truth."""
    P = ctx.P
    ctx.rule('C13.5', 'slice components are compared with None, never tested for truth (0 is a legitimate bound)')
    n = 0
    classes = [P.cls('accessors.Accessor')] + P.cls('accessors.Accessor').all_subclasses() + [P.cls('accessors.SubvolumeAccessor')]
    for c in classes:
        for m in c.methods.values():
            # expressions denoting a slice component: <param>.start/.stop/.step and locals assigned (only) from them
            comp_txt = set()
            for x in ast.walk(m.node):
                if isinstance(x, ast.Attribute) and x.attr in ('start', 'stop', 'step') and isinstance(x.value, ast.Name) \
                        and x.value.id in m.params:
                    comp_txt.add(U(x))
            if not comp_txt:
                continue
            for a in ast.walk(m.node):
                if isinstance(a, ast.Assign):
                    tg = a.targets[0]
                    if isinstance(tg, ast.Tuple) and isinstance(a.value, ast.Tuple) and len(tg.elts) == len(a.value.elts):
                        for t, v in zip(tg.elts, a.value.elts):
                            if U(v) in comp_txt and isinstance(t, ast.Name):
                                comp_txt.add(t.id)
                    elif isinstance(tg, ast.Name) and (U(a.value) in comp_txt or (
                            isinstance(a.value, ast.BoolOp) and U(a.value.values[0]) in comp_txt)):
                        comp_txt.add(tg.id)
            for x in ast.walk(m.node):
                if not isinstance(x, (ast.Name, ast.Attribute)) or U(x) not in comp_txt or not isinstance(getattr(x, 'ctx', None), ast.Load):
                    continue
                pr = parent(x)
                how = None
                if isinstance(pr, (ast.If, ast.While, ast.IfExp, ast.Assert)) and pr.test is x:
                    how = 'used as a condition'
                elif isinstance(pr, ast.UnaryOp) and isinstance(pr.op, ast.Not):
                    how = '`not %s`' % U(x)
                elif isinstance(pr, ast.BoolOp) and pr.values[-1] is not x:
                    how = '`%s %s ...`' % (U(x), 'or' if isinstance(pr.op, ast.Or) else 'and')
                elif isinstance(pr, ast.Call) and U(pr.func) == 'bool':
                    how = 'bool(%s)' % U(x)
                n += 1
                if how:
                    ctx.fail('C13.5', m, enclosing_stmt(x), 'slice component `%s` is tested for truth (%s): an explicit bound of 0 '
                             '(line number 0, ordinal 0) is taken for "not given" and replaced by the default' % (U(x), how),
                             line=x.lineno, key_extra=U(x))
            ctx.ok('C13.5', m, '%s.%s' % (c.name, m.name), 'slice components only compared with None / used as values',
                   nontrivial=True)
    if n < 6:
        raise AnalysisError('accessors: fewer than 6 uses of slice components found (%d)' % n)


def _ctor_name(v):
    while isinstance(v, ast.Call) and isinstance(v.func, ast.Attribute) and v.func.attr == '__enter__':
        v = v.func.value
    if isinstance(v, ast.Call):
        return U(v.func).split('.')[-1]
    return None


def sign_of(e, step, pos):
    """sign (+1 / -1 / 0 / None) of expression e when the variable `step` is positive (pos) or negative."""
    if isinstance(e, ast.Constant) and isinstance(e.value, (int, float)):
        return (e.value > 0) - (e.value < 0)
    if isinstance(e, ast.Name) and e.id == step:
        return 1 if pos else -1
    if isinstance(e, ast.UnaryOp) and isinstance(e.op, ast.USub):
        s = sign_of(e.operand, step, pos)
        return None if s is None else -s
    if isinstance(e, ast.IfExp) and isinstance(e.test, ast.Compare) and len(e.test.ops) == 1:
        l, op, r = e.test.left, e.test.ops[0], e.test.comparators[0]
        sl = sign_of(l, step, pos)
        if U(r) == '0' and sl is not None:
            truth = {ast.Gt: sl > 0, ast.GtE: sl >= 0, ast.Lt: sl < 0, ast.LtE: sl <= 0}.get(type(op))
            if truth is not None:
                return sign_of(e.body if truth else e.orelse, step, pos)
        return None
    if isinstance(e, ast.Call):
        fn = U(e.func).split('.')[-1]
        if fn in ('sign', 'int', 'float') and e.args:
            return sign_of(e.args[0], step, pos)
        if fn == 'abs' and e.args:
            s = sign_of(e.args[0], step, pos)
            return None if s is None else abs(s)
        if fn == 'copysign' and len(e.args) == 2:
            return sign_of(e.args[1], step, pos)
    if isinstance(e, ast.BinOp) and isinstance(e.op, (ast.Mult, ast.Div, ast.FloorDiv)):
        a, b = sign_of(e.left, step, pos), sign_of(e.right, step, pos)
        if a is None or b is None:
            return None
        return a * b
    return None


def _default_of(gi, name):
    """default expression assigned to `name` when the slice component is absent: `if name is None: name = E`,
    `name = E if <comp> is None else <comp>`, `name = <comp> or E` (C13.5 rejects the last form separately)."""
    for n in ast.walk(gi.node):
        isnone = isinstance(n, ast.If) and isinstance(n.test, ast.Compare) and len(n.test.ops) == 1 and \
            isinstance(n.test.ops[0], ast.Is) and U(n.test.comparators[0]) == 'None' and U(n.test.left) == name
        falsy = isinstance(n, ast.If) and isinstance(n.test, ast.UnaryOp) and isinstance(n.test.op, ast.Not) and \
            U(n.test.operand) == name          # truthiness test: rejected by C13.5, but the default is still this one
        if isnone or falsy:
            for st in n.body:
                if isinstance(st, ast.Assign) and U(st.targets[0]) == name:
                    return st, st.value
        if isinstance(n, ast.Assign) and U(n.targets[0]) == name and isinstance(n.value, ast.IfExp) and \
                isinstance(n.value.test, ast.Compare) and 'None' in U(n.value.test):
            isnone = isinstance(n.value.test.ops[0], ast.Is)
            return n, (n.value.body if isnone else n.value.orelse)
        if isinstance(n, ast.Assign) and U(n.targets[0]) == name and isinstance(n.value, ast.BoolOp) and \
                isinstance(n.value.op, ast.Or):
            return n, n.value.values[-1]
    return None, None


def _extreme(e, inc, gi, depth=0):
    """abstract value of a default bound: (which, offset) with which in min / max / first / last; None = not understood.
    `inc` is the truth of "the slice runs towards larger line numbers"."""
    while isinstance(e, ast.Call) and U(e.func) == 'int' and e.args:
        e = e.args[0]
    if depth > 4:
        return None
    if isinstance(e, ast.IfExp):
        t = _dir_truth(e.test, inc, gi)
        if t is None:
            return None
        return _extreme(e.body if t else e.orelse, inc, gi, depth + 1)
    if isinstance(e, ast.BinOp) and isinstance(e.op, (ast.Add, ast.Sub)):
        l = _extreme(e.left, inc, gi, depth + 1)
        off = _offset(e.right, inc, gi)
        if l is not None and off is not None:
            return (l[0], l[1] + (off if isinstance(e.op, ast.Add) else -off))
        return None
    if isinstance(e, ast.Call) and U(e.func).split('.')[-1] in ('min', 'max', 'amin', 'amax') and e.args and 'keys_object' in U(e.args[0]):
        return ('min' if 'min' in U(e.func) else 'max', 0)
    if isinstance(e, ast.Call) and isinstance(e.func, ast.Attribute) and e.func.attr in ('min', 'max') and 'keys_object' in U(e.func.value):
        return (e.func.attr, 0)
    if isinstance(e, ast.Subscript) and 'keys_object' in U(e.value):
        if U(e.slice) == '0':
            return ('first', 0)
        if U(e.slice) == '-1':
            return ('last', 0)
    return None


def _offset(e, inc, gi):
    if isinstance(e, ast.Constant) and isinstance(e.value, int):
        return e.value
    if isinstance(e, ast.UnaryOp) and isinstance(e.op, ast.USub) and isinstance(e.operand, ast.Constant):
        return -e.operand.value
    if isinstance(e, ast.IfExp):
        t = _dir_truth(e.test, inc, gi)
        return None if t is None else _offset(e.body if t else e.orelse, inc, gi)
    return None


def _dir_truth(t, inc, gi):
    """truth of a direction test when the slice runs upwards (inc) / downwards: `increasing`, `step > 0`, `step < 0`,
    `step is None or step > 0`; a local flag is expanded once."""
    if isinstance(t, ast.Name):
        ds = [a for a in ast.walk(gi.node) if isinstance(a, ast.Assign) and U(a.targets[0]) == t.id]
        if len(ds) == 1 and t.id != 'step':
            return _dir_truth(ds[0].value, inc, gi)
        return None
    if isinstance(t, ast.UnaryOp) and isinstance(t.op, ast.Not):
        v = _dir_truth(t.operand, inc, gi)
        return None if v is None else not v
    if isinstance(t, ast.BoolOp):
        vs = [_dir_truth(v, inc, gi) for v in t.values]
        if isinstance(t.op, ast.Or):
            return True if any(v is True for v in vs) else (None if any(v is None for v in vs) else False)
        return False if any(v is False for v in vs) else (None if any(v is None for v in vs) else True)
    if isinstance(t, ast.Compare) and len(t.ops) == 1 and U(t.left).endswith('step'):
        r, op = U(t.comparators[0]), t.ops[0]
        if r == 'None' and isinstance(op, ast.Is):
            return None if inc else False       # an absent step runs upwards; a downward slice has a step
        if r == '0':
            if isinstance(op, (ast.Gt, ast.GtE)):
                return inc
            if isinstance(op, (ast.Lt, ast.LtE)):
                return not inc
    return None


class _SliceEval:
    """Abstract execution of a line accessor's __getitem__ for a slice subscript.  Scenario = which components of the
    slice are absent and the sign of the step; values: 'NONE', ('GIVEN', component), ('EXT', min|max|first|last, offset),
    ('STEP', 'abs'|'raw'|'const+'|..), booleans.  Every test on the way must be decidable from the scenario - an
    undecidable one is an idiom this rule does not know (AnalysisError), never a verdict."""

    class Stop(Exception):
        pass

    def __init__(self, gi, scen):
        self.gi, self.scen = gi, scen          # scen: {'start': present?, 'stop': present?, 'step': None | '+' | '-'}
        self.param = [p_ for p_ in gi.params if p_ != 'self'][0]
        self.env = {}
        self.range_args = None
        self.sites = {}

    def comp(self, name):
        if name == 'step':
            return 'NONE' if self.scen['step'] is None else ('GIVEN', 'step')
        return ('GIVEN', name) if self.scen[name] else 'NONE'

    def ev(self, e):
        while isinstance(e, ast.Call) and U(e.func) in ('int', 'np.int64', 'np.int32') and len(e.args) == 1:
            e = e.args[0]
        if isinstance(e, ast.Constant):
            if isinstance(e.value, bool):
                return ('BOOL', e.value)
            return 'NONE' if e.value is None else ('CONST', e.value)
        if isinstance(e, ast.Call) and isinstance(e.func, ast.IfExp):
            # (min if up else max)(keys): the function is chosen by a decidable test
            chosen = e.func.body if self.truth(e.func.test) else e.func.orelse
            return self.ev(ast.copy_location(ast.Call(func=chosen, args=e.args, keywords=e.keywords), e))
        if isinstance(e, ast.Name):
            if e.id in self.env:
                return self.env[e.id]
            return ('?', e.id)
        if isinstance(e, ast.Attribute) and isinstance(e.value, ast.Name) and e.value.id == self.param and \
                e.attr in ('start', 'stop', 'step'):
            return self.comp(e.attr)
        if isinstance(e, ast.IfExp):
            t = self.truth(e.test)
            return self.ev(e.body if t else e.orelse)
        if isinstance(e, ast.Call) and U(e.func).split('.')[-1] in ('abs', 'absolute', 'fabs') and len(e.args) == 1:
            v = self.ev(e.args[0])
            if isinstance(v, tuple) and v[0] == 'STEP':
                return ('STEP', 'abs')
            if isinstance(v, tuple) and v[0] == 'CONST':
                return ('CONST', abs(v[1]))
            return ('?', U(e))
        if isinstance(e, ast.Call) and U(e.func).split('.')[-1] in ('min', 'max', 'amin', 'amax') and e.args and 'keys_object' in U(e.args[0]):
            return ('EXT', 'min' if 'min' in U(e.func).split('.')[-1] else 'max', 0)
        if isinstance(e, ast.Call) and isinstance(e.func, ast.Attribute) and e.func.attr in ('min', 'max') and \
                'keys_object' in U(e.func.value) and not e.args:
            return ('EXT', e.func.attr, 0)
        if isinstance(e, ast.Subscript) and 'keys_object' in U(e.value):
            if U(e.slice) == '0':
                return ('EXT', 'first', 0)
            if U(e.slice) == '-1':
                return ('EXT', 'last', 0)
            return ('KEY', U(e.slice))
        if isinstance(e, ast.BinOp) and isinstance(e.op, (ast.Add, ast.Sub)):
            l, r = self.ev(e.left), self.ev(e.right)
            if isinstance(l, tuple) and l[0] == 'EXT' and isinstance(r, tuple) and r[0] == 'CONST':
                return ('EXT', l[1], l[2] + (r[1] if isinstance(e.op, ast.Add) else -r[1]))
            if isinstance(l, tuple) and isinstance(r, tuple) and l[0] == 'CONST' and r[0] == 'CONST':
                return ('CONST', l[1] + r[1] if isinstance(e.op, ast.Add) else l[1] - r[1])
            if isinstance(e.op, ast.Sub) and isinstance(l, tuple) and isinstance(r, tuple) and \
                    l in (('KEY', '1'),) and r == ('EXT', 'first', 0):
                return ('STEP', 'raw')
            return ('?', U(e))
        if isinstance(e, ast.UnaryOp) and isinstance(e.op, ast.USub):
            v = self.ev(e.operand)
            if isinstance(v, tuple) and v[0] == 'CONST':
                return ('CONST', -v[1])
            return ('?', U(e))
        if isinstance(e, (ast.Compare, ast.BoolOp)) or (isinstance(e, ast.UnaryOp) and isinstance(e.op, ast.Not)):
            return ('BOOL', self.truth(e))
        return ('?', U(e))

    def truth(self, t):
        if isinstance(t, ast.UnaryOp) and isinstance(t.op, ast.Not):
            return not self.truth(t.operand)
        if isinstance(t, ast.BoolOp):
            if isinstance(t.op, ast.Or):
                for v in t.values:
                    if self.truth(v):
                        return True
                return False
            for v in t.values:
                if not self.truth(v):
                    return False
            return True
        if isinstance(t, ast.Call) and U(t.func) == 'isinstance' and len(t.args) == 2 and U(t.args[0]) == self.param and \
                U(t.args[1]) == 'slice':
            return True
        if isinstance(t, ast.Name):
            v = self.ev(t)
            if isinstance(v, tuple) and v[0] == 'BOOL':
                return v[1]
            raise AnalysisError('%s: truth of `%s` is not decided by the slice scenario' % (self.gi.qualname, t.id))
        if isinstance(t, ast.Compare) and len(t.ops) == 1:
            l, op, r = self.ev(t.left), t.ops[0], self.ev(t.comparators[0])
            if isinstance(op, (ast.Is, ast.IsNot, ast.Eq, ast.NotEq)) and (l == 'NONE' or r == 'NONE'):
                o = r if l == 'NONE' else l
                if o == 'NONE':
                    same = True
                elif isinstance(o, tuple) and o[0] in ('GIVEN', 'EXT', 'CONST', 'STEP', 'KEY'):
                    same = False
                else:
                    raise AnalysisError('%s: `%s` is not decided by the slice scenario' % (self.gi.qualname, U(t)[:60]))
                return same if isinstance(op, (ast.Is, ast.Eq)) else not same
            if l == ('GIVEN', 'step') and r == ('CONST', 0) or r == ('GIVEN', 'step') and l == ('CONST', 0):
                pos = self.scen['step'] == '+'
                flip = r == ('GIVEN', 'step')
                if isinstance(op, (ast.Gt, ast.GtE)):
                    return pos if not flip else not pos
                if isinstance(op, (ast.Lt, ast.LtE)):
                    return (not pos) if not flip else pos
        raise AnalysisError('%s: `%s` is not decided by the slice scenario' % (self.gi.qualname, U(t)[:60]))

    def run(self, body):
        for st in body:
            self.stmt(st)

    def stmt(self, st):
        for r in [x for x in ast.walk(st) if isinstance(x, ast.Call) and U(x.func) == 'range' and not isinstance(st, (ast.If, ast.For))]:
            args = r.args
            if len(args) == 1 and isinstance(args[0], ast.Starred):
                raise _SliceEval.Stop()     # range(*subscript.indices(..)): ordinal slicing, no defaults of its own
            if len(args) == 3:
                self.range_args = [self.ev(a) for a in args]
                self.range_node = st
                raise _SliceEval.Stop()
        if isinstance(st, ast.Assign) and len(st.targets) == 1:
            t = st.targets[0]
            if isinstance(t, ast.Name):
                self.env[t.id] = self.ev(st.value)
                self.sites[t.id] = st
            elif isinstance(t, ast.Tuple) and isinstance(st.value, ast.Tuple) and len(t.elts) == len(st.value.elts):
                vals = [self.ev(v) for v in st.value.elts]
                for n_, v in zip(t.elts, vals):
                    if isinstance(n_, ast.Name):
                        self.env[n_.id] = v
                        self.sites[n_.id] = st
            return
        if isinstance(st, ast.If):
            self.run(st.body if self.truth(st.test) else st.orelse)
            return
        if isinstance(st, ast.For):
            for r in [x for x in ast.walk(st.iter) if isinstance(x, ast.Call) and U(x.func) == 'range' and len(x.args) == 3]:
                self.range_args = [self.ev(a) for a in r.args]
                self.range_node = st
                raise _SliceEval.Stop()
            return
        if isinstance(st, (ast.Return, ast.Raise)):
            raise _SliceEval.Stop()
        return


def slices(ctx):
    """C13.2 - open-ended line slices follow segyio (segyio.line.sanitize_slice): an absent or positive step runs
    towards larger line numbers - default start min(keys), default stop max(keys) + 1 - a negative step the other way
    - default start max(keys), default stop min(keys) - 1; the default step is positive whichever way the axis is
    stored.  First / last keys are the extremes only on an ascending axis.  Decided by abstract execution of the
    accessor's __getitem__ for every combination of absent components and step sign (12 scenarios): the three
    arguments of the final range(..) are read off as given component / extreme of the keys + offset / step form."""
    P = ctx.P
    n = 0
    names = {'first': 'the first key', 'last': 'the last key', 'min': 'min(keys)', 'max': 'max(keys)'}
    for c in [P.cls('accessors.Accessor')] + P.cls('accessors.Accessor').all_subclasses():
        gi = c.methods.get('__getitem__')
        if gi is None or 'keys_object' not in U(gi.node):
            continue
        reported = set()
        seen_range = False
        for step in (None, '+', '-'):
            for has_start in (False, True):
                for has_stop in (False, True):
                    ev = _SliceEval(gi, {'start': has_start, 'stop': has_stop, 'step': step})
                    try:
                        ev.run(gi.node.body)
                    except _SliceEval.Stop:
                        pass
                    if ev.range_args is None:
                        continue
                    seen_range = True
                    inc = step != '-'
                    a0, a1, a2 = ev.range_args
                    site = ev.range_node
                    for what, got, present, want in (('start', a0, has_start, ('EXT', 'min', 0) if inc else ('EXT', 'max', 0)),
                                                     ('stop', a1, has_stop, ('EXT', 'max', 1) if inc else ('EXT', 'min', -1))):
                        if present:
                            if got != ('GIVEN', what):
                                if (what, 'given') not in reported:
                                    reported.add((what, 'given'))
                                    ctx.fail('C13.2', gi, site, 'an explicit slice %s does not reach range(..) unchanged (it becomes %r)' % (what, got),
                                             key_extra=what + '-given')
                            continue
                        if not (isinstance(got, tuple) and got[0] == 'EXT'):
                            raise AnalysisError('%s: default %s `%r` follows no recognised idiom' % (gi.qualname, what, got))
                        if got != want and (what, inc) not in reported and (what, 'any') not in reported:
                            reported.add((what, inc))
                            reported.add((what, 'any'))
                            ctx.fail('C13.2', gi, ev.sites.get(what) or site, 'default %s of a slice running %s is %s%+d; segyio uses %s%+d%s' % (
                                what, 'upwards (step absent or positive)' if inc else 'downwards (negative step)',
                                names[got[1]], got[2], names[want[1]], want[2],
                                ': the first / last key is the extreme only on an ascending axis' if got[1] in ('first', 'last') else ''),
                                key_extra=what)
                    if step is None:
                        if a2 == ('STEP', 'abs') or (isinstance(a2, tuple) and a2[0] == 'CONST' and a2[1] > 0):
                            pass
                        elif a2 == ('STEP', 'raw'):
                            if 'step' not in reported:
                                reported.add('step')
                                ctx.fail('C13.2', gi, ev.sites.get('step') or site, 'the default step is keys[1] - keys[0], negative on a '
                                         'descending axis: f.iline[:] and iteration then run against segyio\'s order (ascending line '
                                         'numbers) and f.iline[a:b] with a < b is empty', key_extra='step')
                        else:
                            raise AnalysisError('%s: default step `%r` follows no recognised idiom' % (gi.qualname, a2))
                    elif a2 != ('GIVEN', 'step') and 'stepgiven' not in reported:
                        reported.add('stepgiven')
                        ctx.fail('C13.2', gi, site, 'an explicit slice step does not reach range(..) unchanged (it becomes %r)' % (a2,),
                                 key_extra='step-given')
        if not seen_range:
            raise AnalysisError('%s: defaults of an open-ended line slice were not recognised' % gi.qualname)
        n += 1
        for what in ('step', 'start', 'stop'):
            if not any(r == what or (isinstance(r, tuple) and r[0] == what) for r in reported):
                ctx.ok('C13.2', gi, '%s default' % what, 'default %s as segyio: %s' % (
                    what, '|line increment|' if what == 'step' else 'min/max of the keys in the direction of travel'))
    if n < 1:
        raise AnalysisError('no open-ended line-slice default found in the accessors')


def delegation(ctx):
    P, G = ctx.P, ctx.G
    B = BoundsAnalysis(P, G)
    acc = P.cls('accessors.Accessor')
    for c in [acc] + acc.all_subclasses() + [P.cls('accessors.SubvolumeAccessor')]:
        gi = c.methods.get('__getitem__')
        if gi is None:
            continue
        for mode in ('3d', '2d'):
            res = B.analyse(gi, mode) or {}
            for p_, (status, info) in res.items():
                if status == 'NOSINK':
                    continue
                label = '%s.__getitem__(%s) [%s]' % (c.name, p_, mode)
                if status in ('REAL', 'INHERITED'):
                    ctx.ok('C13.4', gi, label, 'reaches data only through reader methods that discharge the index')
                else:
                    node, skind, why, relaxing = info[0]
                    ctx.fail('C13.4', gi, B.fm(gi, mode).stmt_of(node) or node, '%s reaches %s `%s` without the index being discharged: %s' % (
                        label, skind, U(node)[:50], why), key_extra=p_ + mode, line=node.lineno)
        # direct loader / range-read use is not delegation
        for e in G.callees(gi):
            if e.target is not None and e.target.module.name == 'loader':
                ctx.fail('C13.4', gi, enclosing_stmt(e.call), '%s calls the loader directly' % c.name, line=e.call.lineno)
    # negative ordinals
    gi = acc.methods['__getitem__']
    negs = [n for n in ast.walk(gi.node) if isinstance(n, ast.If) and isinstance(n.test, ast.Compare) and
            U(n.test).replace(' ', '') == 'subscript<0']
    ok = False
    for n in negs:
        for r in ast.walk(ast.Module(body=n.body, type_ignores=[])):
            if isinstance(r, ast.Call) and U(r.func) == 'self.values_function' and r.args and \
                    U(r.args[0]).replace(' ', '') in ('len(self)+subscript', 'subscript+len(self)'):
                ok = True
    if not ok:
        # by path facts: wherever the ordinal is negative when values_function is called, the argument is len(self) + ordinal
        from ..facts import FactMap as _FM, expand_defs as _xd
        fm_ = _FM(gi.node)
        par = [p_ for p_ in gi.params if p_ != 'self'][0]
        seen_neg, all_ok = False, True
        for r in ast.walk(gi.node):
            if isinstance(r, ast.Call) and U(r.func) == 'self.values_function' and r.args:
                for facts in (fm_.paths_at(r) or []):
                    if ('<', par, '0') in facts:
                        seen_neg = True
                        a_ = _xd(U(r.args[0]), facts).replace(' ', '')
                        if a_ not in ('len(self)+%s' % par, '%s+len(self)' % par):
                            all_ok = False
        ok = seen_neg and all_ok
    sl = [c for c in ast.walk(gi.node) if isinstance(c, ast.Call) and U(c.func).endswith('.indices') and
          U(c.args[0]) == 'len(self)']
    if ok and sl:
        ctx.ok('C13.4', gi, 'negative ordinals', 'normalised by len + i; slices by slice.indices(len)')
    else:
        ctx.fail('C13.4', gi, gi.name, 'negative ordinals are not normalised by len(self) + i / slices by indices(len(self)) before '
                 'delegating')
    ctx.floor('C13.4', 4)
