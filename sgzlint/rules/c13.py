"""C13 - segyio emulation (narrow): accessor wiring, sign consistency of open slices, 2D wiring, delegation."""
import ast
from ..core import U, AnalysisError, parent, enclosing_stmt
from ..facts import FactMap
from .. import readerfacts as RF
from ..axes import axis_of_text
from ..bounds import BoundsAnalysis
from .c09 import emulator

PROP = 'C13'
EXPLANATION = (
    'Four structural necessary conditions; parity with segyio itself (a C extension) is not modelled. C13.1 accessor '
    'wiring: in every accessor class the triple (len_object, keys_object, values_function) carries one axis '
    '(n_ilines / ilines / read_inline_number, ...; tracecount / range(tracecount) / get_trace | gen_trace_header), '
    'and the emulator binds each accessor, and samples / attributes / bin / text, to the segyio attribute of that '
    'axis / role. C13.2 sign consistency: where range(start, stop, step) over line numbers takes its default step from '
    'a difference of adjacent keys (sign unknown - descending axes are in scope), the default stop lies beyond the last '
    'key in the direction of step: the offset added to keys[-1] is evaluated in the sign domain {step>0, step<0} and '
    'must be positive resp. negative. C13.3: 2D wiring (refusing objects). C13.4 delegation: every accessor reaches data '
    'only through public reader methods whose parameters C14 discharges, and negative ordinals are normalised by '
    'len + i (or slice.indices(len)) before the call.')
ASSUMPTIONS = ['segyio yields all lines for f.iline[:] whatever the sign of the line increment', 'names denote what they say']
NOT_DECIDED = ('Kind/shape/key equality with segyio, which line numbers a stepped slice selects, attributes(field)[...], text, '
               'bin, tools.dt values, parity of rejections.')

WIRING = {'iline': 'IL', 'xline': 'XL', 'depth_slice': 'Z'}


def run(ctx):
    P, G = ctx.P, ctx.G
    ctx.rule('C13.1', 'accessor triples carry one axis; emulator binds accessors to the attribute of that axis')
    ctx.rule('C13.2', 'default stop of an open-ended line slice lies beyond the last key in the direction of step')
    ctx.rule('C13.3', '2D files: iline / xline / depth_slice refuse with the dimensionality error')
    ctx.rule('C13.4', 'accessors delegate to discharged reader methods; negative ordinals normalised first')
    acc = P.cls('accessors.Accessor')
    classes = [c for c in acc.all_subclasses() if '__init__' in c.methods]
    if len(classes) < 5:
        raise AnalysisError('accessor classes with a constructor: found %d, floor 5' % len(classes))
    cls_axis = {}
    for c in sorted(classes, key=lambda c: c.name):
        init = c.methods['__init__']
        trip = {}
        for a in ast.walk(init.node):
            if isinstance(a, ast.Assign) and U(a.targets[0]) in ('self.len_object', 'self.keys_object', 'self.values_function'):
                trip[U(a.targets[0]).split('.')[1]] = a.value
        if len(trip) != 3:
            ctx.fail('C13.1', init, c.name, 'accessor %s does not set len_object, keys_object and values_function' % c.name)
            continue
        axes = {}
        for k, v in trip.items():
            t = U(v)
            ax = axis_of_text(t)
            if ax is None and ('tracecount' in t or 'trace' in t or 'header' in t):
                ax = 'TRACE'
            axes[k] = ax
        if len(set(axes.values())) == 1 and None not in axes.values():
            ax = next(iter(axes.values()))
            cls_axis[c.name] = ax
            ctx.ok('C13.1', init, '%s: (%s)' % (c.name, ', '.join(U(v) for v in trip.values())), 'all three are %s quantities' % ax)
        else:
            ctx.fail('C13.1', init, c.name, 'accessor %s mixes axes: %s' % (c.name, {k: (U(trip[k]), axes[k]) for k in trip}))
    em = P.func('segyio_emulator.SegyioEmulator.__init__')
    fm = FactMap(em.node)
    for a in ast.walk(em.node):
        if not (isinstance(a, ast.Assign) and isinstance(a.targets[0], ast.Attribute) and U(a.targets[0].value) == 'self'):
            continue
        name = a.targets[0].attr
        facts = fm.facts_at(a) or frozenset()
        on3d = ('T', 'self.is_3d') in facts
        if name in WIRING and on3d:
            cn = _ctor_name(a.value)
            if cls_axis.get(cn) == WIRING[name]:
                ctx.ok('C13.1', em, a, 'f.%s is the %s accessor' % (name, WIRING[name]))
            else:
                ctx.fail('C13.1', em, a, 'f.%s is bound to %s, an accessor of the %s axis' % (name, cn, cls_axis.get(cn)))
        elif name in ('trace', 'header'):
            cn = _ctor_name(a.value)
            want = 'get_trace' if name == 'trace' else 'gen_trace_header'
            c = P.classes.get('accessors.' + (cn or ''))
            vf = None
            if c is not None:
                for s in ast.walk(c.methods['__init__'].node):
                    if isinstance(s, ast.Assign) and U(s.targets[0]) == 'self.values_function':
                        vf = U(s.value)
            if vf == 'self.' + want:
                ctx.ok('C13.1', em, a, 'f.%s values come from %s' % (name, want))
            else:
                ctx.fail('C13.1', em, a, 'f.%s is bound to %s whose values come from %s (expected %s)' % (name, cn, vf, want))
        elif name == 'samples':
            if U(a.value) == 'self.zslices':
                ctx.ok('C13.1', em, a, 'f.samples is the sample axis')
            else:
                ctx.fail('C13.1', em, a, 'f.samples is bound to `%s`' % U(a.value))
        elif name == 'attributes':
            if U(a.value) == 'self.get_tracefield_1d':
                ctx.ok('C13.1', em, a, 'f.attributes(field) reads the 1D tracefield array')
            else:
                ctx.fail('C13.1', em, a, 'f.attributes is bound to `%s`' % U(a.value))
        elif name in ('bin', 'text'):
            want = 'binary' if name == 'bin' else 'text'
            if want in U(a.value):
                ctx.ok('C13.1', em, a, 'f.%s from the stored %s header' % (name, want))
            else:
                ctx.fail('C13.1', em, a, 'f.%s is bound to `%s`' % (name, U(a.value)))
    ctx.floor('C13.1', 12)
    slices(ctx)
    n0 = len(ctx.findings)
    emulator(ctx)
    for f in ctx.findings[n0:]:
        f.rule = 'C13.3'
    from .c09 import _relabel
    _relabel(ctx, ('C09.5',), 'C13.3')
    delegation(ctx)
    slice_none(ctx)


def slice_none(ctx):
    """C13.5: a slice component (start / stop / step of the subscript, or a local copied from one) that is absent is
    None; 0 is a legitimate line number / ordinal.  Components must be compared with None, never tested for truth."""
    P = ctx.P
    ctx.rule('C13.5', 'slice components are compared with None, never tested for truth (0 is a legitimate bound)')
    n = 0
    classes = [P.cls('accessors.Accessor')] + P.cls('accessors.Accessor').all_subclasses() + [P.cls('accessors.SubvolumeAccessor')]
    for c in classes:
        for m in c.methods.values():
            # expressions denoting a slice component: <param>.start/.stop/.step and locals assigned (only) from them
            comp_txt = set()
            for x in ast.walk(m.node):
                if isinstance(x, ast.Attribute) and x.attr in ('start', 'stop', 'step') and isinstance(x.value, ast.Name) \
                        and x.value.id in m.params:
                    comp_txt.add(U(x))
            if not comp_txt:
                continue
            for a in ast.walk(m.node):
                if isinstance(a, ast.Assign):
                    tg = a.targets[0]
                    if isinstance(tg, ast.Tuple) and isinstance(a.value, ast.Tuple) and len(tg.elts) == len(a.value.elts):
                        for t, v in zip(tg.elts, a.value.elts):
                            if U(v) in comp_txt and isinstance(t, ast.Name):
                                comp_txt.add(t.id)
                    elif isinstance(tg, ast.Name) and (U(a.value) in comp_txt or (
                            isinstance(a.value, ast.BoolOp) and U(a.value.values[0]) in comp_txt)):
                        comp_txt.add(tg.id)
            for x in ast.walk(m.node):
                if not isinstance(x, (ast.Name, ast.Attribute)) or U(x) not in comp_txt or not isinstance(getattr(x, 'ctx', None), ast.Load):
                    continue
                pr = parent(x)
                how = None
                if isinstance(pr, (ast.If, ast.While, ast.IfExp, ast.Assert)) and pr.test is x:
                    how = 'used as a condition'
                elif isinstance(pr, ast.UnaryOp) and isinstance(pr.op, ast.Not):
                    how = '`not %s`' % U(x)
                elif isinstance(pr, ast.BoolOp) and pr.values[-1] is not x:
                    how = '`%s %s ...`' % (U(x), 'or' if isinstance(pr.op, ast.Or) else 'and')
                elif isinstance(pr, ast.Call) and U(pr.func) == 'bool':
                    how = 'bool(%s)' % U(x)
                n += 1
                if how:
                    ctx.fail('C13.5', m, enclosing_stmt(x), 'slice component `%s` is tested for truth (%s): an explicit bound of 0 '
                             '(line number 0, ordinal 0) is taken for "not given" and replaced by the default' % (U(x), how),
                             line=x.lineno, key_extra=U(x))
            ctx.ok('C13.5', m, '%s.%s' % (c.name, m.name), 'slice components only compared with None / used as values',
                   nontrivial=True)
    if n < 6:
        raise AnalysisError('accessors: fewer than 6 uses of slice components found (%d)' % n)


def _ctor_name(v):
    while isinstance(v, ast.Call) and isinstance(v.func, ast.Attribute) and v.func.attr == '__enter__':
        v = v.func.value
    if isinstance(v, ast.Call):
        return U(v.func).split('.')[-1]
    return None


def sign_of(e, step, pos):
    """sign (+1 / -1 / 0 / None) of expression e when the variable `step` is positive (pos) or negative."""
    if isinstance(e, ast.Constant) and isinstance(e.value, (int, float)):
        return (e.value > 0) - (e.value < 0)
    if isinstance(e, ast.Name) and e.id == step:
        return 1 if pos else -1
    if isinstance(e, ast.UnaryOp) and isinstance(e.op, ast.USub):
        s = sign_of(e.operand, step, pos)
        return None if s is None else -s
    if isinstance(e, ast.IfExp) and isinstance(e.test, ast.Compare) and len(e.test.ops) == 1:
        l, op, r = e.test.left, e.test.ops[0], e.test.comparators[0]
        sl = sign_of(l, step, pos)
        if U(r) == '0' and sl is not None:
            truth = {ast.Gt: sl > 0, ast.GtE: sl >= 0, ast.Lt: sl < 0, ast.LtE: sl <= 0}.get(type(op))
            if truth is not None:
                return sign_of(e.body if truth else e.orelse, step, pos)
        return None
    if isinstance(e, ast.Call):
        fn = U(e.func).split('.')[-1]
        if fn in ('sign', 'int', 'float') and e.args:
            return sign_of(e.args[0], step, pos)
        if fn == 'abs' and e.args:
            s = sign_of(e.args[0], step, pos)
            return None if s is None else abs(s)
        if fn == 'copysign' and len(e.args) == 2:
            return sign_of(e.args[1], step, pos)
    if isinstance(e, ast.BinOp) and isinstance(e.op, (ast.Mult, ast.Div, ast.FloorDiv)):
        a, b = sign_of(e.left, step, pos), sign_of(e.right, step, pos)
        if a is None or b is None:
            return None
        return a * b
    return None


def slices(ctx):
    P = ctx.P
    n = 0
    for c in [P.cls('accessors.Accessor')] + P.cls('accessors.Accessor').all_subclasses():
        gi = c.methods.get('__getitem__')
        if gi is None:
            continue
        # default step from adjacent keys?
        steps = [a for a in ast.walk(gi.node) if isinstance(a, ast.Assign) and U(a.targets[0]) == 'step' and
                 'keys_object[1]' in U(a.value) and 'keys_object[0]' in U(a.value)]
        if not steps:
            continue
        stops = [a for a in ast.walk(gi.node) if isinstance(a, ast.Assign) and U(a.targets[0]) == 'stop' and
                 'keys_object[-1]' in U(a.value)]
        if not stops:
            ctx.fail('C13.2', gi, gi.name, 'no default stop derived from the last key')
            continue
        for a in stops:
            n += 1
            v = a.value
            # `given or default` / `default if given is None else given`: the default is the part built on the last key
            if isinstance(v, ast.BoolOp):
                v = [x for x in v.values if 'keys_object[-1]' in U(x)][0]
            if isinstance(v, ast.IfExp):
                v = v.body if 'keys_object[-1]' in U(v.body) else v.orelse
            while isinstance(v, ast.Call) and U(v.func) == 'int' and v.args:
                v = v.args[0]
            off = None
            if isinstance(v, ast.BinOp) and isinstance(v.op, ast.Add):
                l, r = v.left, v.right
                lk = 'keys_object[-1]' in U(l)
                off = r if lk else l
            if off is None:
                raise AnalysisError('%s: default stop `%s` follows no recognised idiom (<last key> + <offset>)' % (
                    gi.qualname, U(a.value)[:60]))
            sp, sn = sign_of(off, 'step', True), sign_of(off, 'step', False)
            # the step must be defined before the stop on every path
            if sp == 1 and sn == -1:
                order_ok = steps[0].lineno < a.lineno
                if order_ok:
                    ctx.ok('C13.2', gi, a, 'offset `%s` is positive for an ascending and negative for a descending axis' % U(off))
                else:
                    ctx.fail('C13.2', gi, a, 'the default stop uses step before the default step is assigned')
            else:
                ctx.fail('C13.2', gi, a, 'default stop = last key + `%s`: with the default step keys[1] - keys[0] of a descending axis '
                         '(negative) the range(start, stop, step) is empty or short - f.iline[:] loses lines' % U(off))
    if n < 1:
        raise AnalysisError('no open-ended line-slice default found in the accessors')


def delegation(ctx):
    P, G = ctx.P, ctx.G
    B = BoundsAnalysis(P, G)
    acc = P.cls('accessors.Accessor')
    for c in [acc] + acc.all_subclasses() + [P.cls('accessors.SubvolumeAccessor')]:
        gi = c.methods.get('__getitem__')
        if gi is None:
            continue
        for mode in ('3d', '2d'):
            res = B.analyse(gi, mode) or {}
            for p_, (status, info) in res.items():
                if status == 'NOSINK':
                    continue
                label = '%s.__getitem__(%s) [%s]' % (c.name, p_, mode)
                if status in ('REAL', 'INHERITED'):
                    ctx.ok('C13.4', gi, label, 'reaches data only through reader methods that discharge the index')
                else:
                    node, skind, why, relaxing = info[0]
                    ctx.fail('C13.4', gi, B.fm(gi, mode).stmt_of(node) or node, '%s reaches %s `%s` without the index being discharged: %s' % (
                        label, skind, U(node)[:50], why), key_extra=p_ + mode, line=node.lineno)
        # direct loader / range-read use is not delegation
        for e in G.callees(gi):
            if e.target is not None and e.target.module.name == 'loader':
                ctx.fail('C13.4', gi, enclosing_stmt(e.call), '%s calls the loader directly' % c.name, line=e.call.lineno)
    # negative ordinals
    gi = acc.methods['__getitem__']
    negs = [n for n in ast.walk(gi.node) if isinstance(n, ast.If) and isinstance(n.test, ast.Compare) and
            U(n.test).replace(' ', '') == 'subscript<0']
    ok = False
    for n in negs:
        for r in ast.walk(ast.Module(body=n.body, type_ignores=[])):
            if isinstance(r, ast.Call) and U(r.func) == 'self.values_function' and r.args and \
                    U(r.args[0]).replace(' ', '') in ('len(self)+subscript', 'subscript+len(self)'):
                ok = True
    sl = [c for c in ast.walk(gi.node) if isinstance(c, ast.Call) and U(c.func).endswith('.indices') and
          U(c.args[0]) == 'len(self)']
    if ok and sl:
        ctx.ok('C13.4', gi, 'negative ordinals', 'normalised by len + i; slices by slice.indices(len)')
    else:
        ctx.fail('C13.4', gi, gi.name, 'negative ordinals are not normalised by len(self) + i / slices by indices(len(self)) before '
                 'delegating')
    ctx.floor('C13.4', 4)
