"""C14 - bounds safety: every index-like parameter of the read API is compared with the REAL
extent of its axis before a value derived from it reaches a loader call, a range read, a
subscript of a padded array, or a callee that does not itself discharge it."""
import ast
from ..core import U, AnalysisError, enclosing_stmt, parent
from ..bounds import BoundsAnalysis, NON_INDEX_PARAMS
from .. import readerfacts as RF

PROP = 'C14'
EXPLANATION = (
    'Static guard-dominance analysis over the reader hierarchy (read.py, accessors.py, segyio_emulator.py, '
    'sgz_xarray.py, tools.py). For each public method M, each mode (3D/2D file; the mode facts are read off '
    'SgzReader.__init__) and each parameter p whose value (or a value derived from it by assignments) reaches a '
    'sink - a loader call, the offset of a range read, a subscript of an array returned by a loader/padded read, '
    'or a call of another reader method - the path-sensitive must-facts at the sink have to contain a lower bound '
    'and an upper bound of p against the REAL extent of p\'s own axis (strict for ordinals, inclusive for window '
    'ends), p < its window partner, or p is None / a sanitised value (coord_to_index, slice.indices, subscript of '
    'an exact-length array), or p is handed unchanged to a callee parameter whose own obligation is discharged '
    'without a relaxing flag. Comparator strictness and the axis of the extent are part of the fact. '
    'C14.2 enumerates every call that passes access_padding=True. C14.4: the sanitiser coord_to_index itself is checked: '
    'every ordinal it returns comes from an exact-equality search of the axis (or is len(axis) under the include-stop '
    'flag and an exact-equality test), never from a tolerance / nearest-neighbour construct, and the not-found path '
    'ends in IndexError.')
EXPLANATION += (
    ' ADDED: For anticorrelated / correlated diagonal ids the bound must be exactly n_il + n_xl - 1, resp. -n_xl < id < n_il (polynomial comparison). C14.2: a public method may pass access_padding=True only around values derived from its own checked parameters; a bare padded extent as an argument is a violation. C14.5: a failed bounds guard of the read API raises IndexError.'
)
EXPLANATION += (
    ' C14.8 - every reader method bound as the values_function of an ordinal accessor establishes 0 <= ordinal before any subscript by it, in 3D and in 2D mode: the accessors add len() once, an ordinal below -len stays negative, and a numpy subscript would wrap a second time.'
)
EXPLANATION += (
    ' ADDED (round 4): C14.7 - every look-up self.variant_headers[k][i] in gen_trace_header is preceded on every path by read_variant_headers() of the same call (the call that loads and, for irregular files, asserts the compacted representation): skipping it when the key is cached lets an array cached padded by an earlier call be indexed by a trace ordinal.'
)
EXPLANATION += (
    ' C14.1 also: an argument that is re-mapped (p = g(p)) before any bounds check is reported unless g is a sanitiser - later guards bound the mapped value, not the argument. C14.6: the diagonal-length functions, accepted above as real extents, are themselves decided (rule of C02.7).'
)
ASSUMPTIONS = [
    'numpy subscripts of exact-length arrays raise IndexError or apply Python negative indexing',
    'parameter and attribute names denote what they say (n_ilines is the inline count); axis tags are seeded from names',
    'access_padding is an internal escape hatch: public callers leave it False',
]
NOT_DECIDED = ('Values: that the guarded arithmetic then addresses the right bytes is C02/C07. The analysis does not '
               'model user code that passes access_padding=True itself.')


WRITERS = ('cropping.SgzCropper', 'conversion.SgzConverter')


def public_entry_points(P, G, B):
    out = []
    for c in B.reader_cls:
        if c.qualname in WRITERS:
            continue      # the cropper / re-blocker validate ranges with their own template: C10.5, C12.1
        for m in c.methods.values():
            if m.name.startswith('_') and m.name not in ('__getitem__',):
                continue
            out.append(m)
    for q in ('sgz_xarray.SeismicZfpBackendArray._raw_indexing_method',):
        if q in P.functions:
            out.append(P.functions[q])
    return out


def ordinal_lower_bound(ctx):
    """C14.8: the accessors add len() once to a negative ordinal and hand the result on; an ordinal below -len is still
    negative then.  The reader method that receives it must reject negatives itself - a numpy / list subscript would wrap
    a second time and return the item len+i counted from the end (header[-26] of 25 traces returning header[-1]).  So in
    every reader method bound as the values_function of an ordinal accessor, each subscript whose index is the ordinal
    parameter is dominated, in 3D and in 2D mode, by the fact 0 <= ordinal."""
    from .. import readerfacts as RF_
    P, G = ctx.P, ctx.G
    ctx.rule('C14.8', 'ordinals handed on by the accessors are rejected when still negative (no second wrap-around), 3D and 2D')
    acc = P.cls('accessors.Accessor')
    reader = P.cls(RF.READER)
    targets = {}
    for c in acc.all_subclasses():
        init = c.methods.get('__init__')
        if init is None:
            continue
        for a in ast.walk(init.node):
            if isinstance(a, ast.Attribute) and isinstance(a.value, ast.Name) and a.value.id == 'self':
                m = reader.find_method(a.attr)
                if m is not None and len(m.params) >= 2 and (m.params[1].endswith('_id') or m.params[1] in ('index', 'i')) and \
                        any(isinstance(p_, (ast.Assign, ast.keyword, ast.Call)) for p_ in [parent(a)]):
                    # only methods bound (or passed) as values_function
                    par = parent(a)
                    bound = (isinstance(par, ast.Assign) and U(par.targets[0]).endswith('values_function')) or \
                        (isinstance(par, ast.keyword) and par.arg == 'values_function') or \
                        (isinstance(par, ast.Call) and a in par.args and a is par.args[-1])
                    if bound:
                        targets[m.qualname] = m
    if len(targets) < 3:
        raise AnalysisError('reader methods bound as values_function of ordinal accessors: found %d, floor 3' % len(targets))
    for q, m in sorted(targets.items()):
        par_name = m.params[1]
        for mode in ('3d', '2d'):
            fm = RF_.factmap(P, m, mode)
            for x in ast.walk(m.node):
                if not (isinstance(x, ast.Subscript) and isinstance(x.ctx, ast.Load)):
                    continue
                idx = x.slice.elts if isinstance(x.slice, ast.Tuple) else [x.slice]
                if not any(isinstance(i_, ast.Name) and i_.id == par_name for i_ in idx):
                    continue
                if not fm.is_reachable(x):
                    continue
                paths = fm.paths_at(x) or []
                ok = bool(paths) and all(('<=', '0', par_name) in p_ or ('>=', par_name, '0') in p_ for p_ in paths)
                label = '%s: %s [%s]' % (m.name, U(x)[:40], mode)
                if ok:
                    ctx.ok('C14.8', m, label, '0 <= %s holds on every path' % par_name)
                else:
                    ctx.fail('C14.8', m, enclosing_stmt(x), '`%s` is subscripted with the ordinal `%s` on a %s file without 0 <= %s being '
                             'established: an accessor hands on an ordinal that is still negative after adding len() once '
                             '(e.g. header[-len-1]), the subscript wraps a second time and another item is returned instead of '
                             'IndexError' % (U(x.value)[:40], par_name, mode.upper(), par_name), line=x.lineno, key_extra=mode)


def memo_lookup_guard(ctx):
    """C14.7: an ordinal that subscripts an in-memory header array (self.variant_headers[k][i]) is bounded only by the length
    of that array, and the arrays exist in two representations (compacted to the stored traces / padded to the grid).
    The look-up is sound only directly behind the call that loads - and, for irregular files, asserts - the compacted
    representation: every path to such a subscript in gen_trace_header passes through read_variant_headers() of the same
    call (not "unless the key is already cached": a padded array cached by an earlier call is then indexed by a trace
    ordinal, and ordinals between the trace count and the grid size return padding or a neighbour's header)."""
    from ..facts import FactMap
    P, G = ctx.P, ctx.G
    ctx.rule('C14.7', 'header look-ups in the in-memory arrays follow, on every path, the loading call that fixes their representation')
    f = P.func(RF.READER + '.gen_trace_header')
    fm = FactMap(f.node)
    rv = P.func(RF.READER + '.read_variant_headers')
    n = 0
    for x in ast.walk(f.node):
        if isinstance(x, ast.Subscript) and isinstance(x.ctx, ast.Load) and isinstance(x.value, ast.Subscript) and \
                U(x.value.value) == 'self.variant_headers':
            n += 1
            paths = fm.paths_at(x) or []
            ok = bool(paths) and all(any(a[0] == 'called' and a[1].split('.')[-1] == rv.name for a in p_) for p_ in paths)
            if ok:
                ctx.ok('C14.7', f, x, 'preceded by read_variant_headers() on every path')
            else:
                ctx.fail('C14.7', f, enclosing_stmt(x), '`%s` can be reached without read_variant_headers() having run in this call: '
                         'an array cached by an earlier call in the padded representation (get_tracefield_values, '
                         'read_variant_headers(include_padding=True)) is then indexed by a trace ordinal - ordinals beyond the '
                         'trace count return padding or another trace\'s header instead of IndexError' % U(x)[:50], line=x.lineno)
    if n < 1:
        raise AnalysisError('gen_trace_header: in-memory header look-up not found')


def run(ctx):
    P, G = ctx.P, ctx.G
    ctx.rule('C14.1', 'every index-like parameter is bounded by the real extent of its axis at every sink it reaches')
    ctx.rule('C14.2', 'access_padding=True is passed only with index arguments bounded by real extents (or from private methods)')
    ctx.rule('C14.3', 'a dimensionality guard precedes every bounds guard of a mode-specific method (see C09.5)')
    ctx.rule('C14.4', 'the coordinate sanitiser matches by exact equality and raises IndexError for absent coordinates')
    from .. import sanitiser
    sanitiser.check(ctx, 'C14.4')
    ctx.floor('C14.4', 3, 'returns / not-found exit of coord_to_index')
    ctx.rule('C14.5', 'a failed bounds guard raises IndexError')
    ctx.rule('C14.6', 'the diagonal length functions (accepted as real extents above) return exactly the number of cells on the diagonal')
    from .. import diaglen
    diaglen.check(ctx, 'C14.6')
    guard_exceptions(ctx, None)
    memo_lookup_guard(ctx)
    ordinal_lower_bound(ctx)
    B = BoundsAnalysis(P, G)
    entries = public_entry_points(P, G, B)
    seen_fail = set()
    for mode in ('3d', '2d'):
        for m in entries:
            res = B.analyse(m, mode)
            if res is None:
                continue
            for p, (status, info) in sorted(res.items()):
                if status == 'NOSINK':
                    continue
                label = '%s(%s) [%s]' % (m.name, p, mode)
                if status == 'INHERITED':
                    ctx.notes.append('%s: %s' % (label, info[0][1]))
                    continue
                if status == 'REAL':
                    ctx.ok('C14.1', m, label, 'bounded at %d sink path(s): %s' % (len(info), info[0][1] if info else ''),
                           sample={'mode': mode, 'param': p})
                else:
                    for (node, skind, why, relaxing) in info:
                        stmt = B.fm(m, mode).stmt_of(node)
                        rule = 'C14.2' if relaxing else 'C14.1'
                        key = (rule, m.qualname, U(node), p)
                        if key in seen_fail:
                            ctx.obligations += 1
                            continue
                        seen_fail.add(key)
                        ctx.fail(rule, m, stmt if stmt is not None else node,
                                 'parameter %s of %s reaches %s `%s` (%s file) unchecked: %s' % (
                                     p, m.name, skind, U(node)[:90], mode.upper(), why),
                                 detail={'param': p, 'mode': mode, 'sink': U(node), 'sink_kind': skind},
                                 key_extra=p, line=node.lineno)
    # C14.2: enumerate relaxing call sites
    n_relax = 0
    for f in P.functions.values():
        for e in G.callees(f):
            if e.target is None:
                continue
            for p, v in e.binding.items():
                if p == 'access_padding' and not (isinstance(v, ast.Constant) and v.value is False):
                    n_relax += 1
                    private = f.name.startswith('_') and not f.name.startswith('__')
                    viol = [x for x in ctx.findings if x.rule == 'C14.2' and x.func == f.qualname]
                    # a public method may relax the callee's bounds only around values derived from its own (checked)
                    # parameters by block alignment; a bare padded extent as an argument hands padding to the user
                    if not private:
                        tn = B.taint(f)
                        allnames = set().union(*tn.values()) if tn else set()
                        bare = [(q, x) for q, x in e.binding.items() if q not in ('access_padding', 'multithreading') and
                                any(mk in U(x) for mk in RF.PADDED_MARKERS) and not B.tainted_names_in(f, x, allnames)]
                        if bare:
                            ctx.fail('C14.2', f, e.call, 'public method %s passes access_padding=True with `%s` = `%s`, a padded extent '
                                     'that is not derived from a checked parameter: padding voxels are returned to the caller' % (
                                         f.name, bare[0][0], U(bare[0][1])), line=e.call.lineno)
                            continue
                    if private or not viol:
                        ctx.ok('C14.2', f, e.call, 'relaxing call from %s method; index arguments bounded by real extents'
                               % ('private' if private else 'public'))
    # C14.3: dimensionality refusals (same rule as C09.5)
    from ..dimguard import DimGuard
    DimGuard(P, G).check(ctx, 'C14.3')
    ctx.floor('C14.3', 10, 'mode-specific public methods')
    ctx.floor('C14.1', 25, 'parameter obligations over the read API')
    ctx.floor('C14.2', 1, 'access_padding=True call sites')
    ctx.notes.append('sanitiser functions: %s' % sorted(B.san))


def guard_exceptions(ctx, _b):
    """C14.5: `if <ordering comparison on an index / window>: raise X` in the read API - X is IndexError."""
    P = ctx.P
    n = 0
    classes = RF.reader_classes(P)
    for c in classes:
        if c.qualname in WRITERS:
            continue
        for m in c.methods.values():
            for st in ast.walk(m.node):
                if not (isinstance(st, ast.If) and len(st.body) == 1 and isinstance(st.body[0], ast.Raise)):
                    continue
                cmps = [x for x in ast.walk(st.test) if isinstance(x, ast.Compare) and
                        any(isinstance(o, (ast.Lt, ast.LtE, ast.Gt, ast.GtE)) for o in x.ops)]
                if not cmps:
                    continue
                names = {y.id for x in cmps for y in ast.walk(x) if isinstance(y, ast.Name)}
                if not (names & set(m.params)) and not any(isinstance(y, ast.Attribute) and y.attr in ('start', 'stop', 'step')
                                                           for x in cmps for y in ast.walk(x)):
                    continue
                n += 1
                exc = st.body[0].exc
                name = U(exc.func) if isinstance(exc, ast.Call) else U(exc)
                if name == 'IndexError':
                    ctx.ok('C14.5', m, st.test, 'out-of-range -> IndexError', nontrivial=False)
                else:
                    ctx.fail('C14.5', m, st.body[0], 'the bounds guard `%s` raises %s, the read API promises IndexError for an '
                             'out-of-range argument' % (U(st.test)[:60], name))
    if n < 15:
        raise AnalysisError('bounds guards of the read API: only %d found' % n)
