"""C15 - history independence: memo keys complete, cached values immutable inside the package,
identity-keyed caches, preload equivalence, seek/read pairing, configuration non-interference."""
import ast
from ..core import U, AnalysisError, parent, enclosing_stmt
from ..facts import FactMap
from .. import iorules as IO
from .. import readerfacts as RF

PROP = 'C15'
TECHNIQUE = 'static analysis: attribute-store (effect) summary, memo discovery, read-set closure over the resolved call graph'
EXPLANATION = (
    'Effect analysis over the reader and loader hierarchies. C15.1: for every memo - @lru_cache loader methods, the '
    'per-reader lru_cache(..)(bound method), and hand-written memos (`if k not in self.M: self.M[k] = e`, '
    '`if self.M is None: self.M = e`) - the transitive read-set of the cached value (self attributes read in the '
    'memoised region and in every package function it can reach) may contain only the key, attributes that are '
    'init-only (every store lies in __init__ or in a function called only from constructors) and other memos. '
    'C15.2: no subscript store, augmented assignment, out= or in-place numpy method on a value that aliases a '
    'memoised result. C15.3: classes with @lru_cache methods define no __eq__/__hash__ (identity keys); clear_cache '
    'bodies are cache_clear() calls only and close() does nothing else that alters read state. C15.4: the two branches '
    'of the data-section choke point denote the same byte range. C15.5: in the file primitive read() directly follows '
    'seek() on the same handle (readers sharing a handle cannot observe each other\'s position), read_range is bound '
    'only to the two primitives consistently with `local`. C15.6: chunk_cache_size flows only into maxsize, preload '
    'only into the loader\'s `if preload`, multithreading only into the choice between two decode paths whose results '
    'have the same symbolic shape.')
EXPLANATION += (
    ' C15.1 also covers every `self.M[K] = V` outside construction, whatever guards it: V may depend on no argument of the storing function that is not part of K, and may not be chosen by whether another lazily filled attribute has been loaded yet (`self.X is None`).'
)
EXPLANATION += (
    ' ADDED (round 4): C15.7 also requires that a lazily filled memo is bound only in the constructor of its own class to a fresh empty container: assigning it from, or to, another object (the emulator sharing its dictionary with its header accessor) makes two readers serve each other cached values. C15.8 - the preload length is positive for every accepted file (zero DATA_BLOCKS field of legacy files replaced by the derived size before the loader is built).'
)
EXPLANATION += (
    ' ADDED (session 4): C15.7 - a lazily filled memo (an attribute initialised to an empty dict in the constructor and '
    'filled by subscript stores elsewhere, e.g. variant_headers) may be consulted per key only (k in memo, memo[k], '
    'memo.get(k)); its size, truth value, key set or iteration order is the history of earlier calls and must not reach a '
    'decision or a result. C15.5 now reads the value of self.local at each read_range binding from the path facts (set '
    'earlier on the path or tested by the enclosing if), C15.6 treats statements control-dependent on `preload` as flows '
    '(only loading / dropping the in-memory copy, diagnostics and errors may depend on it).'
)
EXPLANATION += (
    ' C15.9 - a memoised loader (lru_cache) re-raises the failure of every pool worker that fills its result before it returns (the futures are kept and result() is called; rule of C17.1 restricted to cached functions and their callees): a failed or short range read must not leave a partly filled value in the cache for later calls with the same key.'
)
ASSUMPTIONS = [
    'functools.lru_cache keys on all call arguments (including self, by identity when __eq__/__hash__ are not defined)',
    'single-threaded use of one reader (concurrent use is not in the statement)',
    'user code does not mutate returned views',
]
NOT_DECIDED = 'Thread-safety of concurrent use of one reader; mutation of returned views by user code; values.'


def init_only_functions(P, G, classes):
    """functions all of whose callers are constructors (transitively) - their stores count as init stores."""
    ok = set()
    for c in classes:
        for m in c.methods.values():
            if m.name == '__init__':
                ok.add(m.qualname)
    changed = True
    while changed:
        changed = False
        for c in classes:
            for m in c.methods.values():
                if m.qualname in ok:
                    continue
                callers = G.callers(m)
                if callers and all(e.caller.qualname in ok for e in callers):
                    ok.add(m.qualname)
                    changed = True
    return ok


def attr_reads(f, selfname='self'):
    """self.<attr> loads in f (excluding method calls resolved separately) -> {attr: node}"""
    out = {}
    for n in ast.walk(f.node):
        if isinstance(n, ast.Attribute) and isinstance(n.ctx, ast.Load) and isinstance(n.value, ast.Name) and \
                n.value.id == selfname:
            out.setdefault(n.attr, n)
    return out


class Effects:
    def __init__(self, P, G):
        self.P, self.G = P, G
        self.rc = RF.reader_classes(P)
        self.lc = [P.cls('loader.SgzLoader')] + P.cls('loader.SgzLoader').all_subclasses()
        self.classes = self.rc + self.lc
        self.init_funcs = init_only_functions(P, G, self.classes)
        st = P.attr_stores()
        self.stores = {}       # hierarchy ('reader'|'loader') -> attr -> [(func, node)]
        for kind, cls in (('reader', self.rc), ('loader', self.lc)):
            d = {}
            for c in cls:
                for attr, sites in st.get(c.qualname, {}).items():
                    for (f, node, v) in sites:
                        d.setdefault(attr, []).append((f, node))
            # subscript stores / in-place mutation of self.<attr>
            for c in cls:
                for m in c.methods.values():
                    for n in ast.walk(m.node):
                        tgt = None
                        if isinstance(n, ast.Assign):
                            for t in n.targets:
                                if isinstance(t, ast.Subscript) and U(t.value).startswith('self.') and \
                                        isinstance(t.value, ast.Attribute):
                                    d.setdefault(t.value.attr, []).append((m, n))
                        elif isinstance(n, ast.Call) and isinstance(n.func, ast.Attribute) and \
                                n.func.attr in ('clear', 'update', 'pop', 'append', 'extend', 'setdefault') and \
                                isinstance(n.func.value, ast.Attribute) and U(n.func.value.value) == 'self':
                            d.setdefault(n.func.value.attr, []).append((m, n))
            self.stores[kind] = d

    def kind_of(self, f):
        if f.cls in self.rc:
            return 'reader'
        if f.cls in self.lc:
            return 'loader'
        return None

    def late_stores(self, kind, attr):
        return [(f, n) for (f, n) in self.stores[kind].get(attr, []) if f.qualname not in self.init_funcs]

    def read_closure(self, f, seen=None):
        """{(kind, attr): (func, node)} self attributes read by f and by everything it reaches in the hierarchies."""
        seen = seen if seen is not None else set()
        out = {}
        if f.qualname in seen:
            return out
        seen.add(f.qualname)
        k = self.kind_of(f)
        if k is not None and f.is_method:
            for attr, node in attr_reads(f, f.params[0]).items():
                if f.cls.find_method(attr) is not None:
                    continue
                out.setdefault((k, attr), (f, node))
        for e in self.G.callees(f):
            if e.target is not None and self.kind_of(e.target) is not None and e.target.name != '__init__':
                for key, v in self.read_closure(e.target, seen).items():
                    out.setdefault(key, v)
        return out


def discover_memos(P, G, eff):
    """-> list of dicts {kind: 'lru'|'wrapper'|'dict'|'none', func, store attr, region nodes, key}"""
    memos = []
    for c in eff.classes:
        for m in c.methods.values():
            if m.is_cached:
                memos.append({'kind': 'lru', 'func': m, 'attr': None, 'region': [m.node], 'name': m.qualname})
    init = P.func(RF.READER + '.__init__')
    for n in ast.walk(init.node):
        if isinstance(n, ast.Assign) and isinstance(n.value, ast.Call) and isinstance(n.value.func, ast.Call) and \
                U(n.value.func.func).split('.')[-1] == 'lru_cache' and n.value.args:
            tgt = [t for (t, sk) in G.funcs_of_expr(init, n.value.args[0])]
            for t in tgt:
                memos.append({'kind': 'wrapper', 'func': t, 'attr': U(n.targets[0]).split('.')[-1], 'region': [t.node],
                              'name': '%s (per-reader lru_cache)' % t.qualname})
    # hand-written: `if K not in self.M:` ... self.M[K] = e      /     `if self.M is None:` ... self.M = e
    for c in eff.classes:
        for m in c.methods.values():
            for n in ast.walk(m.node):
                if not isinstance(n, ast.If) or not isinstance(n.test, ast.Compare) or len(n.test.ops) != 1:
                    continue
                op = n.test.ops[0]
                left, right = n.test.left, n.test.comparators[0]
                if isinstance(op, ast.NotIn) and isinstance(right, ast.Attribute) and U(right.value) == 'self':
                    attr = right.attr
                    stores = [s for s in ast.walk(n) if isinstance(s, ast.Assign) and
                              isinstance(s.targets[0], ast.Subscript) and U(s.targets[0].value) == 'self.' + attr]
                    if stores and not any(mm['kind'] == 'dict' and mm['attr'] == attr for mm in memos):
                        memos.append({'kind': 'dict', 'func': m, 'attr': attr, 'region': list(n.body), 'key': U(left),
                                      'name': '%s[%s] in %s' % (attr, U(left), m.name), 'node': n, 'store': stores[0]})
                elif isinstance(op, ast.Is) and U(right) == 'None' and isinstance(left, ast.Attribute) and \
                        U(left.value) == 'self':
                    attr = left.attr
                    stores = [s for s in ast.walk(n) if isinstance(s, ast.Assign) and U(s.targets[0]) == 'self.' + attr]
                    if stores and any(st in ast.walk(b) for b in n.body for st in stores):
                        memos.append({'kind': 'none', 'func': m, 'attr': attr, 'region': list(n.body), 'key': None,
                                      'name': '%s in %s' % (attr, m.name), 'node': n, 'store': stores[0]})
    return memos


def late_dict_stores(ctx, eff, memos):
    """Any `self.M[K] = V` outside construction is a hand-written cache, whatever guards it.  Two obligations beyond the
    read-set rule: (a) every parameter of the storing function that V depends on must be part of K (otherwise a later
    call with the same K and another argument is answered from the entry); (b) V must not depend on whether ANOTHER
    lazily filled attribute happens to be loaded (`self.X is None` tests on memo attributes): that is the call history."""
    from ..footer import _def_chain
    lazy = {m['attr'] for m in memos if m['kind'] in ('none', 'dict') and m['attr']}
    for c in eff.classes:
        for m in c.methods.values():
            if m.qualname in eff.init_funcs:
                continue
            params = set(m.params[1:] + m.kwonly)
            for st in ast.walk(m.node):
                if not (isinstance(st, ast.Assign) and isinstance(st.targets[0], ast.Subscript) and
                        isinstance(st.targets[0].value, ast.Attribute) and U(st.targets[0].value.value) == 'self'):
                    continue
                attr = st.targets[0].value.attr
                vchain = _def_chain(m, st.value)
                kchain = _def_chain(m, st.targets[0].slice)
                vpar = {x.id for e in vchain for x in ast.walk(e) if isinstance(x, ast.Name) and x.id in params}
                kpar = {x.id for e in kchain for x in ast.walk(e) if isinstance(x, ast.Name) and x.id in params}
                missing = sorted(vpar - kpar)
                if missing:
                    ctx.fail('C15.1', m, st, 'self.%s[%s] caches a value that depends on the argument%s %s, which %s not part of '
                             'the key: a later call with the same key and another %s is answered from the entry of an '
                             'earlier call (history dependence)' % (attr, U(st.targets[0].slice), 's' if len(missing) > 1 else '',
                                                                   ', '.join(missing), 'are' if len(missing) > 1 else 'is',
                                                                   missing[0]), key_extra='%s|%s' % (attr, ','.join(missing)))
                else:
                    ctx.ok('C15.1', m, st, 'cache self.%s: the stored value depends on no argument outside its key' % attr)
                # (b) presence tests of other lazily filled attributes
                for e in vchain:
                    for x in ast.walk(e):
                        if isinstance(x, ast.Compare) and len(x.ops) == 1 and isinstance(x.ops[0], (ast.Is, ast.IsNot)) and \
                                U(x.comparators[0]) == 'None' and isinstance(x.left, ast.Attribute) and U(x.left.value) == 'self' \
                                and x.left.attr in lazy and x.left.attr != attr:
                            ctx.fail('C15.1', m, st, 'self.%s[%s] caches a value chosen by whether self.%s has been loaded yet '
                                     '(`%s`): the result depends on which other reads happened before' % (
                                         attr, U(st.targets[0].slice), x.left.attr, U(x)), key_extra='%s|loaded:%s' % (attr, x.left.attr))


def region_reads(eff, memo):
    """read closure restricted to the memoised region (+ everything it calls)."""
    f = memo['func']
    k = eff.kind_of(f)
    out = {}
    selfname = f.params[0] if f.is_method and f.params else 'self'
    nodes = []
    for r in memo['region']:
        nodes.extend(ast.walk(r))
    # local names computed before the region but used inside it: include their defining expressions (def-use, one level
    # per assignment, whole function scope)
    used = {n.id for n in nodes if isinstance(n, ast.Name) and isinstance(n.ctx, ast.Load)}
    changed = True
    extra = []
    seen_defs = set()
    while changed:
        changed = False
        for a in ast.walk(f.node):
            if isinstance(a, ast.Assign) and id(a) not in seen_defs and not any(a is x for x in nodes):
                tn = {x.id for t in a.targets for x in ast.walk(t) if isinstance(x, ast.Name)}
                if tn & used:
                    seen_defs.add(id(a))
                    extra.extend(ast.walk(a.value))
                    new = {n.id for n in ast.walk(a.value) if isinstance(n, ast.Name)}
                    if not new <= used:
                        used |= new
                        changed = True
    for n in nodes + extra:
        if isinstance(n, ast.Attribute) and isinstance(n.ctx, ast.Load) and isinstance(n.value, ast.Name) and \
                n.value.id == selfname and f.cls.find_method(n.attr) is None:
            out.setdefault((k, n.attr), (f, n))
        if isinstance(n, ast.Call):
            for e in eff.G.edges_at(f, n):
                if e.target is not None and eff.kind_of(e.target) is not None and e.target.name != '__init__':
                    for key, v in eff.read_closure(e.target, set()).items():
                        out.setdefault(key, v)
    return out


def run(ctx):
    P, G = ctx.P, ctx.G
    ctx.rule('C15.1', 'memo keys are complete: cached values depend only on the key, init-only attributes and other memos')
    ctx.rule('C15.2', 'no in-place mutation of a value that aliases a memoised result')
    ctx.rule('C15.3', 'identity-keyed class caches: no __eq__/__hash__; clear_cache only clears; close() alters nothing else')
    ctx.rule('C15.4', 'preload equivalence: both branches of the choke point denote the same byte range')
    ctx.rule('C15.5', 'seek is immediately followed by read on the same handle; read_range bound consistently')
    ctx.rule('C15.6', 'chunk_cache_size, preload and multithreading do not flow into values')
    eff = Effects(P, G)
    memos = discover_memos(P, G, eff)
    late_dict_stores(ctx, eff, memos)
    memo_attrs = {m['attr'] for m in memos if m['attr']}
    if len(memos) < 10:
        raise AnalysisError('found %d memos, floor is 10' % len(memos))
    for m in memos:
        reads = region_reads(eff, m) if m['kind'] in ('dict', 'none') else eff.read_closure(m['func'], set())
        bad = []
        for (k, attr), (f, node) in sorted(reads.items()):
            if attr in memo_attrs or attr == m['attr']:
                continue
            late = eff.late_stores(k, attr)
            if late:
                bad.append((attr, f, node, late))
        if m['kind'] == 'none':
            # a keyless latch: its value must not depend on the arguments of the call that happens to come first
            f0 = m['func']
            params = set(f0.params[1:] + f0.kwonly)
            dep = sorted({n.id for n in ast.walk(m['store'].value) if isinstance(n, ast.Name) and n.id in params})
            if dep:
                ctx.fail('C15.1', f0, m['store'], 'sticky attribute self.%s is latched from the argument%s %s of whichever call '
                         'comes first and has no key: later calls with a different argument see (or assert against) the '
                         'earlier value, so results depend on the history of calls' % (m['attr'], 's' if len(dep) > 1 else '',
                                                                                       ', '.join(dep)),
                         key_extra=m['attr'])
                continue
        if bad:
            for (attr, f, node, late) in bad:
                lf, ln = late[0]
                ctx.fail('C15.1', m['func'], m.get('store') or m['func'].name,
                         'memo %s: the cached value depends on self.%s (read in %s, line %d), which is re-assigned after '
                         'construction in %s (line %d) and is not part of the key%s: a later read returns what an earlier '
                         'call cached under a different %s' % (
                             m['name'], attr, f.name, node.lineno, lf.qualname, ln.lineno,
                             ' `%s`' % m['key'] if m.get('key') else '', attr),
                         key_extra='%s|%s' % (m['name'], attr), line=node.lineno)
        else:
            ctx.ok('C15.1', m['func'], m['name'], 'read-set (%d attributes) is init-only or memoised' % len(reads))
    memo_state(ctx)
    mutation(ctx, eff, memos)
    identity(ctx, eff, memos)
    preload_equiv(ctx)
    preload_cover(ctx)
    memo_fill_failures(ctx, 'C15.9')
    handle(ctx)
    config(ctx)


IN_PLACE = ('sort', 'fill', 'resize', 'put', 'itemset', 'partition', 'setfield', 'setflags', 'byteswap', 'clip_')


def mutation(ctx, eff, memos):
    P, G = ctx.P, ctx.G
    cached_funcs = {m['func'].qualname for m in memos if m['kind'] in ('lru', 'wrapper')}
    memo_attrs = {m['attr'] for m in memos if m['kind'] in ('dict', 'none')}
    n = 0
    for f in P.functions.values():
        aliases = set()
        for a in ast.walk(f.node):
            if isinstance(a, ast.Assign) and len(a.targets) == 1 and isinstance(a.targets[0], ast.Name):
                v = a.value
                base = v
                while isinstance(base, ast.Subscript):
                    base = base.value
                if isinstance(base, ast.Call):
                    es = [e for e in G.edges_at(f, base) if e.target is not None]
                    if es and all(e.target.qualname in cached_funcs for e in es):
                        aliases.add(a.targets[0].id)
                if isinstance(base, ast.Attribute) and U(base.value) == 'self' and base.attr in memo_attrs and \
                        isinstance(v, ast.Subscript):
                    aliases.add(a.targets[0].id)
                if isinstance(base, ast.Name) and base.id in aliases:
                    aliases.add(a.targets[0].id)
        if not aliases:
            continue
        for node in ast.walk(f.node):
            bad = None
            if isinstance(node, (ast.Assign, ast.AugAssign)):
                tg = node.targets if isinstance(node, ast.Assign) else [node.target]
                for t in tg:
                    if isinstance(t, ast.Subscript) and isinstance(t.value, ast.Name) and t.value.id in aliases:
                        bad = 'element store into `%s`' % t.value.id
                    if isinstance(node, ast.AugAssign) and isinstance(t, ast.Name) and t.id in aliases:
                        bad = 'augmented assignment to `%s` (in place for numpy arrays)' % t.id
            elif isinstance(node, ast.Call):
                if isinstance(node.func, ast.Attribute) and node.func.attr in IN_PLACE and \
                        isinstance(node.func.value, ast.Name) and node.func.value.id in aliases:
                    bad = 'in-place method %s() on `%s`' % (node.func.attr, node.func.value.id)
                for k in node.keywords:
                    if k.arg == 'out' and isinstance(k.value, ast.Name) and k.value.id in aliases:
                        bad = '`%s` passed as out=' % k.value.id
            if bad:
                ctx.fail('C15.2', f, enclosing_stmt(node), '%s, which aliases a memoised result: the next cache hit returns the '
                         'modified array' % bad, line=node.lineno)
        n += 1
        ctx.ok('C15.2', f, 'aliases %s' % sorted(aliases), 'aliases of memoised results are only read') \
            if not any(x.rule == 'C15.2' and x.func == f.qualname for x in ctx.findings) else None
    ctx.floor('C15.2', 5, 'functions holding aliases of memoised results')


def memo_state(ctx):
    """C15.7: how full a lazily filled memo is - which keys earlier calls happened to load - is history.  Code may ask a
    memo only about the key it is about to use (k in memo, memo[k], memo.get(k)); its size, truth value, key set or
    iteration order must not reach a decision or a result."""
    from ..footer import lazy_memo_attrs
    P = ctx.P
    ctx.rule('C15.7', 'a lazily filled memo is consulted per key only: never by size, truth value, key set or iteration')
    n = 0
    for cls in RF.reader_classes(P):
        memos_ = lazy_memo_attrs(P, cls)
        for attr in sorted(memos_):
            for c in [cls] + cls.all_subclasses():
                for m in c.methods.values():
                    for x in ast.walk(m.node):
                        if not (isinstance(x, ast.Attribute) and x.attr == attr and isinstance(x.value, ast.Name) and
                                x.value.id == 'self' and isinstance(x.ctx, ast.Load)):
                            continue
                        p = parent(x)
                        n += 1
                        how = None
                        if isinstance(p, ast.Subscript) and p.value is x:
                            continue                                   # memo[k] (load or store)
                        if isinstance(p, ast.Compare) and x in p.comparators and all(isinstance(o, (ast.In, ast.NotIn)) for o in p.ops):
                            continue                                   # k in memo
                        if isinstance(p, ast.Attribute) and p.attr in ('get', 'setdefault', 'pop', '__contains__', '__getitem__'):
                            continue
                        if isinstance(p, ast.Call) and U(p.func) == 'len':
                            how = 'its size len(self.%s)' % attr
                        elif isinstance(p, (ast.If, ast.While, ast.IfExp, ast.BoolOp)) or (isinstance(p, ast.UnaryOp) and isinstance(p.op, ast.Not)):
                            how = 'its truth value'
                        elif isinstance(p, (ast.For, ast.comprehension)) and p.iter is x:
                            how = 'iteration over it (the order and set of keys loaded so far)'
                        elif isinstance(p, ast.Attribute) and p.attr in ('keys', 'items', 'values', 'copy'):
                            how = 'self.%s.%s()' % (attr, p.attr)
                        elif isinstance(p, ast.Call) and U(p.func) in ('list', 'sorted', 'tuple', 'set', 'dict', 'bool', 'any', 'all'):
                            how = '%s(self.%s)' % (U(p.func), attr)
                        elif isinstance(p, ast.Compare):
                            how = 'a comparison of the whole memo'
                        elif isinstance(p, (ast.Return, ast.Assign)) or (isinstance(p, ast.Call) and x in p.args):
                            # handing the memo object itself on is aliasing (C15.2), not a use of its state
                            continue
                        if how:
                            ctx.fail('C15.7', m, enclosing_stmt(x), 'the lazily filled memo self.%s is consulted by %s: what earlier '
                                     'calls happened to load then decides what this call does or returns' % (attr, how),
                                     line=x.lineno, key_extra=attr)
    # a memo belongs to one reader: it is bound in the constructor of its class to a fresh empty container and never
    # re-bound or handed to another object - two readers (the emulator and its header accessor, say) that share one
    # dictionary serve each other's representation of the same key (padded vs compacted arrays), whichever call came first
    memo_names = set()
    for cls in RF.reader_classes(P):
        memo_names |= set(lazy_memo_attrs(P, cls))
    for f in P.functions.values():
        for a in ast.walk(f.node):
            if not isinstance(a, (ast.Assign, ast.AugAssign, ast.AnnAssign)):
                continue
            tgts = a.targets if isinstance(a, ast.Assign) else [a.target]
            for t in tgts:
                if isinstance(t, ast.Attribute) and t.attr in memo_names:
                    fresh = isinstance(a, ast.Assign) and U(a.value) in ('{}', 'dict()', 'collections.OrderedDict()', 'OrderedDict()')
                    own = isinstance(t.value, ast.Name) and t.value.id == 'self' and f.name == '__init__'
                    n += 1
                    if fresh and own:
                        continue
                    ctx.fail('C15.7', f, a, 'the lazily filled memo `%s` is %s: readers that share a memo (or a memo that is swapped '
                             'after construction) return what another object, or an earlier phase, cached under the same key' % (
                                 U(t), 'bound to `%s`' % U(a.value)[:40] if isinstance(a, ast.Assign) else 'updated in place'),
                             line=a.lineno, key_extra='rebind-' + t.attr)
    if n < 5:
        raise AnalysisError('uses of lazily filled memos: found %d, floor 5' % n)
    if not any(fd.rule == 'C15.7' for fd in ctx.findings):
        ctx.ok('C15.7', None, '%d uses of lazily filled memos' % n, 'only per-key membership tests, look-ups and stores')


def identity(ctx, eff, memos):
    P, G = ctx.P, ctx.G
    classes = {m['func'].cls for m in memos if m['kind'] == 'lru'}
    for c in sorted(classes, key=lambda c: c.qualname):
        bad = [n for k in c.mro for n in ('__eq__', '__hash__') if n in k.methods]
        if bad:
            ctx.fail('C15.3', c.methods[bad[0]] if bad[0] in c.methods else None, '%s.%s' % (c.name, bad[0]),
                     'class %s carries @lru_cache methods and defines %s: two loaders of different files could share '
                     'cache entries' % (c.name, bad))
        else:
            ctx.ok('C15.3', None, 'class %s' % c.name, 'no __eq__/__hash__: lru_cache keys on object identity')
        cc = c.methods.get('clear_cache')
        if cc is None:
            continue
        cached = {m.name for m in c.methods.values() if m.is_cached}
        cleared = set()
        other = []
        for s in cc.node.body:
            if isinstance(s, ast.Expr) and isinstance(s.value, ast.Call) and isinstance(s.value.func, ast.Attribute) and \
                    s.value.func.attr == 'cache_clear':
                cleared.add(U(s.value.func.value).split('.')[-1])
            elif isinstance(s, ast.Expr) and isinstance(s.value, ast.Constant):
                continue
            elif isinstance(s, ast.For) and isinstance(s.target, ast.Name) and isinstance(s.iter, (ast.Tuple, ast.List)) \
                    and not s.orelse and all(
                        isinstance(b, ast.Expr) and isinstance(b.value, ast.Call) and not b.value.args and
                        isinstance(b.value.func, ast.Attribute) and b.value.func.attr == 'cache_clear' and
                        U(b.value.func.value) == s.target.id for b in s.body) and s.body:
                # for m in (self.a, self.b, ..): m.cache_clear()
                for el in s.iter.elts:
                    cleared.add(U(el).split('.')[-1])
            else:
                other.append(s)
        if other:
            ctx.fail('C15.3', cc, other[0], 'clear_cache does something other than cache_clear()')
        elif not cleared <= cached:
            ctx.fail('C15.3', cc, cc.name, 'clear_cache clears %s which are not cached methods of the class' % sorted(cleared - cached))
        else:
            ctx.ok('C15.3', cc, cc.name, 'clears %d of %d cached methods, nothing else' % (len(cleared), len(cached)))
    close = P.func(RF.READER + '.close')
    calls = [U(c.func) for c in ast.walk(close.node) if isinstance(c, ast.Call)]
    stores = [n for n in ast.walk(close.node) if isinstance(n, (ast.Assign, ast.AugAssign))]
    if stores or not set(calls) <= {'self.loader.clear_cache', 'self.close_sgz_file'}:
        ctx.fail('C15.3', close, close.name, 'close() does more than clearing the caches and closing the handle: %s' % calls)
    else:
        ctx.ok('C15.3', close, close.name, 'close() = clear_cache + close handle')
    ctx.floor('C15.3', 4)


def preload_equiv(ctx):
    P, G = ctx.P, ctx.G
    lcls = P.cls('loader.SgzLoader')
    prims = {p.qualname for p in IO.io_primitives(P, G)}
    choke = None
    for m in lcls.methods.values():
        if len(m.params) == 3 and any(e.target is not None and e.target.qualname in prims for e in G.callees(m)):
            choke = m
    if choke is None:
        raise AnalysisError('data-section choke point not found')
    off, ln = choke.params[1], choke.params[2]
    rets = [r for r in ast.walk(choke.node) if isinstance(r, ast.Return)]
    sl = [r for r in rets if isinstance(r.value, ast.Subscript)]
    rd = [r for r in rets if isinstance(r.value, ast.Call)]
    if len(sl) != 1 or len(rd) != 1:
        # an assignment-then-return form: look at the expressions instead
        sl = [n for n in ast.walk(choke.node) if isinstance(n, ast.Subscript) and isinstance(n.ctx, ast.Load) and
              isinstance(n.slice, ast.Slice) and U(n.value).startswith('self.')]
        rdc = [e.call for e in G.callees(choke) if e.target is not None and e.target.qualname in prims]
        sub = sl[0] if sl else None
        call = rdc[0] if rdc else None
    else:
        sub, call = sl[0].value, rd[0].value
    if sub is None or call is None:
        raise AnalysisError('choke point: cannot find the slice of the preloaded copy and the file read')
    vol = U(sub.value)
    s_ok = U(sub.slice.lower) == off and U(sub.slice.upper).replace(' ', '') in ('%s+%s' % (off, ln), '%s+%s' % (ln, off))
    c_ok = len(call.args) >= 3 and U(call.args[1]).replace(' ', '') in ('self.data_start_bytes+%s' % off,
                                                                       '%s+self.data_start_bytes' % off) and U(call.args[2]) == ln
    # the copy starts at data_start_bytes
    loads = [(f, st, v) for (f, st, v) in P.attr_stores_mro(lcls, vol.split('.')[1]) if v is not None and U(v) != 'None']
    l_ok = all(isinstance(v, ast.Call) and len(v.args) >= 2 and U(v.args[1]) == 'self.data_start_bytes' for (f, st, v) in loads)
    if s_ok and c_ok and l_ok and loads:
        ctx.ok('C15.4', choke, sub, 'copy[o:o+n] with copy = file[D:..]  ==  read_range(D + o, n)')
    else:
        ctx.fail('C15.4', choke, enclosing_stmt(sub), 'with preload the choke point returns %s[%s] but without it reads (%s, %s): '
                 'the two are not the same byte range' % (vol, U(sub.slice), U(call.args[1]) if len(call.args) > 1 else '?',
                                                           U(call.args[2]) if len(call.args) > 2 else '?'))


def preload_cover(ctx):
    """C15.8: the in-memory copy made by preload covers the data section of every file the reader accepts.  Its length is
    <DATA_BLOCKS attribute> * block_bytes.  The reader itself recognises files written before the layout fields existed (it
    substitutes defaults when the blockshape fields at bytes 44:56 are zero); in those files the DATA_BLOCKS field at 56:60
    is zero as well.  So the attribute must be zero-tested in the constructor and replaced by the size that follows
    from the padded shape and the rate - otherwise preload copies 0 bytes and every later read decodes an empty buffer
    (an error or garbage) where the same call without preload returns the data."""
    from .. import wiring as WR
    from .. import headerrules as HR
    P, G = ctx.P, ctx.G
    ctx.rule('C15.8', 'the preloaded copy is as long as the data section for every accepted file (zero DATA_BLOCKS field of '
             'legacy files is replaced by the size derived from shape and rate)')
    ht = HR.HeaderTable(P, G)
    roles = WR.attr_roles(ht)
    attrs = [a for a, r in roles.items() if r[0] == 'DATA_BLOCKS']
    if len(attrs) != 1:
        raise AnalysisError('reader attribute holding the DATA_BLOCKS field: found %s' % attrs)
    attr = attrs[0]
    init = P.func(RF.READER + '.__init__')
    # does the reader accept legacy files (zero blockshape -> defaults)?
    legacy = [n for n in ast.walk(init.node) if isinstance(n, ast.If) and 'blockshape' in U(n.test) and '== 0' in U(n.test)]
    if not legacy:
        for m in P.cls(RF.READER).methods.values():
            legacy += [n for n in ast.walk(m.node) if isinstance(n, ast.If) and 'blockshape' in U(n.test) and '== 0' in U(n.test)]
    if not legacy:
        ctx.ok('C15.8', init, 'no legacy branch', 'the reader does not accept files without layout fields', nontrivial=False)
        return
    # the loader receives the attribute (same-name wiring) and multiplies it by block_bytes for the preload read
    lcls = P.cls('loader.SgzLoader')
    loads = [(f, st, v) for (f, st, v) in P.attr_stores_mro(lcls, 'compressed_volume') if v is not None and U(v) != 'None']
    uses = [v for (f, st, v) in loads if isinstance(v, ast.Call) and len(v.args) >= 3 and attr in U(v.args[2])]
    if not uses:
        raise AnalysisError('preload read whose length uses %s not found' % attr)
    # zero fallback in the constructor: `if self.<attr> == 0: self.<attr> = f(shape_pad, rate, DISK_BLOCK_BYTES)`
    ok_node = None
    for n in ast.walk(init.node):
        if not isinstance(n, ast.If):
            continue
        t = n.test
        zero_test = (isinstance(t, ast.Compare) and len(t.ops) == 1 and isinstance(t.ops[0], (ast.Eq, ast.LtE)) and
                     U(t.left) == 'self.' + attr and U(t.comparators[0]) == '0') or \
                    (isinstance(t, ast.UnaryOp) and isinstance(t.op, ast.Not) and U(t.operand) == 'self.' + attr)
        if not zero_test:
            continue
        for a in n.body:
            if isinstance(a, ast.Assign) and U(a.targets[0]) == 'self.' + attr:
                txt = U(a.value)
                if all(k in txt for k in ('shape_pad[0]', 'shape_pad[1]', 'shape_pad[2]', 'rate', 'DISK_BLOCK_BYTES')):
                    ok_node = a
    if ok_node is not None:
        # the fallback precedes the construction of the loader
        ctor = [e.call for e in G.callees(init) if e.kind == 'ctor' and e.target is not None and e.target.cls in
                [lcls] + lcls.all_subclasses() + lcls.mro]
        if ctor and all(IO.precedes_in_block(_top_stmt(ok_node, init.node), _top_stmt(c, init.node)) for c in ctor):
            ctx.ok('C15.8', init, ok_node, 'zero %s (legacy file) is replaced by the size derived from shape_pad and rate before the '
                   'loader is built' % attr)
            return
    ctx.fail('C15.8', init, uses[0] if False else legacy[0].test, 'self.%s is taken from header bytes 56:60 as it is, and becomes the '
             'length of the preload copy (%s): files written before the layout fields existed - which this constructor accepts, '
             'substituting defaults for their zero blockshape - have 0 there, so with preload=True the copy is empty and every '
             'read decodes an empty buffer (IndexError or garbage) where the same call without preload returns the data' % (
                 attr, U(uses[0].args[2])[:60]), key_extra=attr)


def _top_stmt(node, fnode):
    n = node if isinstance(node, ast.stmt) else enclosing_stmt(node)
    while n is not None and parent(n) is not fnode:
        n = parent(n)
    return n


def handle(ctx):
    P, G = ctx.P, ctx.G
    prims = IO.io_primitives(P, G)
    for pr in prims:
        seeks = [c for c in IO.raw_io_calls(pr) if c.func.attr == 'seek']
        reads = [c for c in IO.raw_io_calls(pr) if c.func.attr == 'read']
        if not seeks and not reads:
            ctx.ok('C15.5', pr, pr.name, 'positionless ranged download (no shared file position)', nontrivial=False)
            continue
        if len(seeks) != 1 or len(reads) != 1:
            ctx.fail('C15.5', pr, pr.name, 'file primitive has %d seeks and %d reads (must be one of each)' % (len(seeks), len(reads)))
            continue
        s_st, r_st = enclosing_stmt(seeks[0]), enclosing_stmt(reads[0])
        blk = IO.block_of(s_st)
        ok = blk is not None and r_st in blk and blk.index(r_st) == blk.index(s_st) + 1 and \
            U(seeks[0].func.value) == U(reads[0].func.value) and U(seeks[0].args[0]) == pr.params[1] and \
            U(reads[0].args[0]) == pr.params[2]
        if ok:
            ctx.ok('C15.5', pr, r_st, 'read(length) directly follows seek(offset) on the same handle')
        else:
            ctx.fail('C15.5', pr, s_st, 'seek and read are not an adjacent pair on the same handle with (offset, length): readers '
                     'sharing the handle could observe each other\'s file position')
    # bindings of read_range
    init = P.func(RF.READER + '.__init__')
    names = {p.name for p in prims}
    n = 0
    from ..facts import FactMap as _FM
    fm_init = _FM(init.node)
    for a in ast.walk(init.node):
        if isinstance(a, ast.Assign) and U(a.targets[0]).endswith('.read_range'):
            n += 1
            tgt = U(a.value).split('.')[-1]
            blk = IO.block_of(a)
            local = [s for s in blk if isinstance(s, ast.Assign) and U(s.targets[0]) == 'self.local']
            loc = U(local[0].value) if local else None
            if loc is None:
                # the value of self.local on every path reaching the binding (set earlier, or tested by the enclosing if)
                vals = set()
                for facts in (fm_init.paths_at(a) or []):
                    v = None
                    for x in facts:
                        if x[0] == 'def' and x[1] == 'self.local' and x[2] in ('True', 'False'):
                            v = x[2]
                        elif x[0] in ('T', 'F') and x[1] == 'self.local':
                            v = 'True' if x[0] == 'T' else 'False'
                    vals.add(v)
                if len(vals) == 1 and None not in vals:
                    loc = vals.pop()
            if tgt not in names:
                ctx.fail('C15.5', init, a, 'read_range is bound to %s, not to a range-read primitive' % U(a.value))
            elif loc is None:
                ctx.fail('C15.5', init, a, 'self.local is not set where read_range is bound')
            else:
                is_blob = 'blob' in tgt
                if (is_blob and loc == 'False') or (not is_blob and loc == 'True'):
                    ctx.ok('C15.5', init, a, 'read_range=%s with local=%s' % (tgt, loc))
                else:
                    ctx.fail('C15.5', init, a, 'read_range=%s but self.local=%s' % (tgt, loc))
    if n < 2:
        raise AnalysisError('expected the read_range bindings of SgzReader.__init__, found %d' % n)
    # no other function rebinds it
    for f in P.functions.values():
        if f is init:
            continue
        for a in ast.walk(f.node):
            if isinstance(a, ast.Assign) and U(a.targets[0]).endswith('.read_range'):
                ctx.fail('C15.5', f, a, 'read_range is re-bound outside the constructor')


def config(ctx):
    P, G = ctx.P, ctx.G
    init = P.func(RF.READER + '.__init__')
    # chunk_cache_size: every load is the maxsize argument, the None test, or its own default computation
    for nm, allowed in (('chunk_cache_size', ('maxsize', 'is None', 'assign')),):
        bad = []
        for n in ast.walk(init.node):
            if isinstance(n, ast.Name) and n.id == nm and isinstance(n.ctx, ast.Load):
                p = parent(n)
                if isinstance(p, ast.keyword) and p.arg == 'maxsize':
                    continue
                if isinstance(p, ast.Compare) and U(p.comparators[0]) == 'None':
                    continue
                if isinstance(p, ast.Call) and U(p.func).split('.')[-1] == 'lru_cache':
                    continue
                bad.append(n)
        if bad:
            ctx.fail('C15.6', init, enclosing_stmt(bad[0]), 'chunk_cache_size flows into `%s`, not only into the LRU size' % U(enclosing_stmt(bad[0]))[:60])
        else:
            ctx.ok('C15.6', init, nm, 'flows only into lru_cache(maxsize=...)')
    # preload: only forwarded to the loader constructor; there only tested
    bad = []
    for n in ast.walk(init.node):
        if isinstance(n, ast.Name) and n.id == 'preload' and isinstance(n.ctx, ast.Load):
            p = parent(n)
            if isinstance(p, ast.Call) and any(e.kind == 'ctor' for e in G.edges_at(init, p)):
                continue
            bad.append(n)
    linit = P.func('loader.SgzLoader.__init__')
    for n in ast.walk(linit.node):
        if isinstance(n, ast.Name) and n.id == 'preload' and isinstance(n.ctx, ast.Load):
            q = parent(n)
            while isinstance(q, (ast.UnaryOp, ast.BoolOp)):
                q = parent(q)
            if not isinstance(q, ast.If):
                bad.append(n)
                continue
            # what the test may guard: loading / dropping the in-memory copy, diagnostics, errors - no other value
            for st in [x for b in (q.body, q.orelse) for s_ in b for x in ast.walk(s_)]:
                if isinstance(st, (ast.Assign, ast.AugAssign, ast.AnnAssign)):
                    tg = st.targets if isinstance(st, ast.Assign) else [st.target]
                    for t_ in tg:
                        if not (isinstance(t_, ast.Attribute) and t_.attr == 'compressed_volume') and \
                                not (isinstance(t_, ast.Name) and not any(
                                    isinstance(y, ast.Name) and y.id == t_.id and isinstance(y.ctx, ast.Load) and
                                    not any(y is z for s2 in (q.body + q.orelse) for z in ast.walk(s2))
                                    for y in ast.walk(linit.node))):
                            bad.append(st)
                elif isinstance(st, ast.Return) and st.value is not None:
                    bad.append(st)
    if bad:
        ctx.fail('C15.6', init, enclosing_stmt(bad[0]), 'preload flows into `%s`' % U(enclosing_stmt(bad[0]))[:60])
    else:
        ctx.ok('C15.6', init, 'preload', 'forwarded to the loader constructor and only tested there')
    # multithreading: the two decode paths return arrays of the same symbolic shape
    from ..symeval import Arr, ArrView
    done = False
    for m in ctx.shared.models():
        if m.dim != '3d' or m.flags[:2] != (True, True):
            continue
        ldr = m.loader()
        meths = [x for x in ldr.cls.methods.values() if 'multithreading' in x.params]
        for meth in meths:
            outs = [o for o in m.run(meth.qualname, recv=ldr) if o.kind == 'return']
            shapes = []
            for o in outs:
                v = o.value
                a = v if isinstance(v, Arr) else (v.arr if isinstance(v, ArrView) else None)
                shapes.append(tuple(a.shape) if a is not None and a.shape else None)
            if len(outs) >= 2 and all(s is not None and s == shapes[0] for s in shapes):
                ctx.ok('C15.6', meth, '%s [%s]' % (meth.name, m.name), 'both decode paths return shape %r' % (shapes[0],))
                done = True
            else:
                ctx.fail('C15.6', meth, meth.name, 'the multithreaded and the single-threaded decode return different shapes: %r' % (shapes,))
                done = True
    if not done:
        raise AnalysisError('no loader method with a multithreading switch found')


def memo_fill_failures(ctx, rule):
    """A memoised function (lru_cache) that fills its result from pool workers must re-raise a worker's failure before it
    returns: otherwise the call returns normally with a partly filled buffer, the cache keeps that value, and every later
    call with the same key returns it although the file and the arguments are unchanged and the fault is gone (a fresh
    reader returns the right data).  The rule of C17.1, restricted to cached functions and what they call."""
    from .. import iorules as IO
    P, G = ctx.P, ctx.G
    ctx.rule(rule, 'a memoised loader re-raises the failure of any worker that fills its result (a failed fill is not cached)')
    n = 0
    for f in P.functions.values():
        if not f.is_cached:
            continue
        todo, seen = [f], set()
        while todo:
            g = todo.pop()
            if g.qualname in seen:
                continue
            seen.add(g.qualname)
            for c in ast.walk(g.node):
                if isinstance(c, ast.Call) and isinstance(c.func, ast.Attribute) and c.func.attr == 'submit':
                    n += 1
                    ok, why = IO.future_consumed(g, c, G)
                    if ok:
                        ctx.ok(rule, f, c, 'worker failures surface before the memoised value exists (%s)' % why)
                    else:
                        ctx.fail(rule, g, IO.stmt_of(c), 'the future of `%s` is dropped (%s) inside the memoised %s: a failed or short '
                                 'range read leaves part of the buffer unfilled, the call returns normally and lru_cache keeps the '
                                 'damaged value for every later call with the same key' % (U(c.func), why, f.qualname),
                                 line=c.lineno)
            for e in G.callees(g):
                if e.target is not None and e.kind == 'direct' and e.target.module.name == g.module.name and len(seen) < 12:
                    todo.append(e.target)
    ctx.floor(rule, 3, 'pool submissions inside memoised loaders')
