"""C16 - writer pipeline: the code has the shape from which 'output independent of the
interleaving, always completes' follows by the lemma of DESIGN.md (section C16)."""
import ast
from ..core import enclosing_stmt, U, AnalysisError, parent
from ..facts import FactMap, happened_before
from ..pipeline import Pipeline, calls_in, in_loop, in_branch

PROP = 'C16'
EXPLANATION = (
    'Typestate / ordering check of the three-thread writer pipeline, located by role (the function constructing '
    'Thread objects; the thread body calling zfpy.compress_numpy; the thread body calling .write; the producers = '
    'functions that receive the first queue and call .put). Checked facts: C16.1 cardinality (one Thread per consumer '
    'role, built and started once, outside loops, before any producer runs; both queues are queue.Queue = FIFO; one '
    'consuming function per queue); C16.2 compressor iteration order get < compress < put < task_done, each exactly '
    'once, the put carrying the compress result of this iteration\'s get; C16.3 writer: write(header) dominates the '
    'loop, per iteration get < write(that item) < task_done, nothing else written; C16.4 main thread: producers < '
    'join(q1) < join(q2) < flush < return, no use of the output handle between start and the second join, producers '
    'do not receive the handle; C16.5 in every caller the footer writes and in-place patches are after the conversion '
    'loop returned and inside the with-block of the output; C16.6 producers run on the calling thread only. '
    'The ordering facts are must-facts of a path-sensitive walk of each function (they hold on every path), so they '
    'hold for every schedule: they are program order inside each thread.')
EXPLANATION += (
    " ADDED: C16.2 / C16.3 also require the consumer's get to block without a time-out. A producer started as a Thread target is located and reported (C16.6). C16.7 ownership: every object put on the first queue is bound, inside the same group iteration, to a fresh allocation (np.zeros / np.pad / .copy()), never to a pooled or outer-scope buffer - otherwise some interleaving lets the producer overwrite a plane set that is still being compressed."
)
ASSUMPTIONS = [
    'queue.Queue is FIFO and join() returns only after task_done() was called once per put item',
    'the consumer bodies do not raise (a raising compress_numpy would leave join waiting) - outside the statement',
    'the paper lemma in DESIGN.md (not machine checked): one producer + FIFO queues + one consumer per queue + '
    'task_done after hand-off => header, c(b1)..c(bn) in production order, nothing written after return',
]
NOT_DECIDED = ('No schedule is explored and the lemma is not machine-checked: this is a shape check. Exceptions inside '
               'the daemon threads and byte equality with a sequential run are not decided.')


def _call(f, pred, what):
    cs = calls_in(f.node, pred)
    return cs


def attr_call(obj, meth):
    return lambda c: isinstance(c.func, ast.Attribute) and c.func.attr == meth and U(c.func.value) == obj


def run(ctx):
    P, G = ctx.P, ctx.G
    pl = Pipeline(P, G)
    main, comp, wr = pl.main, pl.compressor, pl.writer
    ctx.rule('C16.1', 'cardinality: one thread per consumer role, FIFO queues, one consumer per queue')
    ctx.rule('C16.2', 'compressor iteration: get < compress < put < task_done, once each, put carries this item')
    ctx.rule('C16.3', 'writer: write(header) before the loop; per iteration get < write(item) < task_done; nothing else')
    ctx.rule('C16.4', 'main thread: producers < join(q_in) < join(q_out) < flush < return; handle untouched meanwhile')
    ctx.rule('C16.5', 'callers: footer writes and in-place patches after the loop returned, inside the output with-block')
    ctx.rule('C16.6', 'producers run on the calling thread only; hash updates likewise')
    ctx.rule('C16.7', 'ownership: every object put on the queue is freshly allocated in the same group iteration')
    ownership(ctx)
    fm_main = FactMap(main.node)

    # ---- C16.1
    for role, edges in (('compressor', pl.compress_edges), ('writer', pl.writer_edges)):
        if len(edges) != 1:
            ctx.fail('C16.1', main, 'Thread(target=%s)' % role, '%d Thread objects for the %s role (must be exactly 1)' % (
                len(edges), role))
            continue
        e = edges[0]
        lp = in_loop(e.call, main.node)
        if lp is not None:
            ctx.fail('C16.1', main, e.call, 'the %s thread is constructed inside a loop' % role)
        else:
            ctx.ok('C16.1', main, e.call, 'exactly one %s thread, constructed outside any loop' % role)
        # started exactly once, outside loops
        stmt = parent(e.call)
        tname = U(stmt.targets[0]) if isinstance(stmt, ast.Assign) else None
        starts = calls_in(main.node, attr_call(tname, 'start')) if tname else []
        inline_start = isinstance(stmt, ast.Attribute) and stmt.attr == 'start'
        if len(starts) != 1 and not inline_start:
            ctx.fail('C16.1', main, e.call, 'the %s thread is started %d times (must be once)' % (role, len(starts)))
        elif starts and (in_loop(starts[0], main.node) is not None or in_branch(starts[0], main.node) is not None):
            ctx.fail('C16.1', main, starts[0], 'the %s thread is started conditionally or in a loop' % role)
        else:
            ctx.ok('C16.1', main, starts[0] if starts else e.call, '%s thread started exactly once, unconditionally' % role)
            for (pe, qp) in pl.producers:
                if starts and not happened_before(fm_main, starts[0], pe.call):
                    ctx.fail('C16.1', main, pe.call, 'producer %s may run before the %s thread is started' % (
                        pe.target.name, role))
                else:
                    ctx.ok('C16.1', main, pe.call, '%s thread is running before producer %s is called' % (
                        role, pe.target.name))
    n_threads = len(pl.thread_edges)
    if n_threads != 2:
        ctx.fail('C16.1', main, 'Thread(...)', '%d threads are constructed, the pipeline has 2 consumer roles' % n_threads)
    for q, (node, cls) in pl.queues.items():
        if cls != 'queue.Queue':
            ctx.fail('C16.1', main, node, 'queue %s is a %s, not the FIFO queue.Queue' % (q, cls or U(node.value.func)))
        else:
            ctx.ok('C16.1', main, node, 'queue %s is queue.Queue (FIFO)' % q)
    # one consuming function per queue: thread targets calling .get on the parameter bound to it
    for q in (pl.q_in, pl.q_w):
        consumers = []
        for e in pl.thread_edges:
            for p, v in e.binding.items():
                if U(v) == q and calls_in(e.target.node, attr_call(p, 'get')):
                    consumers.append(e.target.qualname)
        # nobody else may .get() from it
        others = [c for c in calls_in(main.node, attr_call(q, 'get'))]
        for (pe, qp) in pl.producers:
            others += calls_in(pe.target.node, attr_call(qp, 'get'))
        if len(consumers) == 1 and not others:
            ctx.ok('C16.1', main, 'consumers of %s' % q, 'exactly one consumer: %s' % consumers[0])
        else:
            ctx.fail('C16.1', main, 'consumers of %s' % q, 'queue %s has consumers %s (+%d other get sites); must be '
                     'exactly one' % (q, consumers, len(others)))
    if pl.q_out != pl.q_w:
        ctx.fail('C16.1', main, 'queue wiring', 'compressor puts into %s but the writer gets from %s' % (pl.q_out, pl.q_w))
    else:
        ctx.ok('C16.1', main, 'queue wiring', 'compressor output queue is the writer input queue (%s)' % pl.q_w)

    # ---- C16.2 compressor
    check_consumer(ctx, 'C16.2', comp, work=lambda c: U(c.func).endswith('compress_numpy'), work_name='compress_numpy',
                   forward=True)
    # ---- C16.3 writer
    hp = pl.handle_param
    fm_w = FactMap(wr.node)
    loops = [n for n in ast.walk(wr.node) if isinstance(n, ast.While)]
    writes = calls_in(wr.node, attr_call(hp, 'write'))
    pre = [w for w in writes if in_loop(w, wr.node) is None]
    if len(loops) != 1:
        ctx.fail('C16.3', wr, wr.name, 'writer thread has %d loops, expected one `while True`' % len(loops))
    else:
        hdr_params = [p for p in wr.params if p not in (hp,) and not calls_in(wr.node, attr_call(p, 'get'))]
        if len(pre) == 1 and pre[0].args and U(pre[0].args[0]) in hdr_params and \
                in_branch(pre[0], wr.node) is None and happened_before(fm_w, pre[0], loops[0].body[0]):
            ctx.ok('C16.3', wr, pre[0], 'the header is written exactly once, unconditionally, before the block loop')
        else:
            ctx.fail('C16.3', wr, pre[0] if pre else wr.name, 'the writer thread does not write the header parameter '
                     'exactly once before its loop (pre-loop writes: %s)' % [U(w) for w in pre])
        check_consumer(ctx, 'C16.3', wr, work=attr_call(hp, 'write'), work_name='%s.write' % hp, forward=False)
        inloop = [w for w in writes if in_loop(w, wr.node) is not None]
        other_io = [c for c in calls_in(wr.node) if isinstance(c.func, ast.Attribute) and U(c.func.value) == hp
                    and c.func.attr not in ('write',)]
        if len(inloop) == 1 and not other_io:
            ctx.ok('C16.3', wr, inloop[0], 'the only writes of the thread are the header and one write per item')
        else:
            ctx.fail('C16.3', wr, wr.name, 'writer thread performs %d writes per iteration and %d other handle '
                     'operations (expected 1 and 0)' % (len(inloop), len(other_io)))

    # ---- C16.4 main thread
    joins_in = calls_in(main.node, attr_call(pl.q_in, 'join'))
    joins_out = calls_in(main.node, attr_call(pl.q_w, 'join'))
    flushes = calls_in(main.node, attr_call(pl.handle, 'flush')) if pl.handle else []
    rets = [n for n in ast.walk(main.node) if isinstance(n, ast.Return)]
    if len(joins_in) != 1 or len(joins_out) != 1:
        ctx.fail('C16.4', main, main.name, 'expected one join per queue, found %d/%d' % (len(joins_in), len(joins_out)))
    else:
        ji, jo = joins_in[0], joins_out[0]
        ok = True
        # every producer call precedes join(q_in): on every path to the join, *some* producer completed
        prod_texts = {U(pe.call.func) for (pe, qp) in pl.producers}
        f = fm_main.facts_at(ji)
        paths = fm_main.paths_at(ji)
        for pth in paths:
            if not any(a[0] == 'called' and a[1] in prod_texts for a in pth):
                ok = False
                ctx.fail('C16.4', main, ji, 'a path reaches %s.join() without any producer having run' % pl.q_in)
                break
        for (pe, qp) in pl.producers:
            # no producer call after the join
            if happened_before(fm_main, ji, pe.call):
                ok = False
                ctx.fail('C16.4', main, pe.call, 'producer %s is called after %s.join()' % (pe.target.name, pl.q_in))
        if not happened_before(fm_main, ji, jo):
            ok = False
            ctx.fail('C16.4', main, jo, '%s.join() is not preceded by %s.join(): blocks still in the compressor are '
                     'not waited for' % (pl.q_w, pl.q_in))
        for fl in flushes:
            if not happened_before(fm_main, jo, fl):
                ok = False
                ctx.fail('C16.4', main, fl, 'flush() is not preceded by %s.join()' % pl.q_w)
        for r in rets:
            if not happened_before(fm_main, jo, r) or not happened_before(fm_main, ji, r):
                ok = False
                ctx.fail('C16.4', main, r, 'return is reachable before both joins completed')
            elif flushes and not any(happened_before(fm_main, fl, r) for fl in flushes):
                ok = False
                ctx.fail('C16.4', main, r, 'return is not preceded by flush()')
        if not flushes:
            ok = False
            ctx.fail('C16.4', main, main.name, 'the output handle is never flushed before returning')
        if ok:
            ctx.ok('C16.4', main, 'producers < %s.join < %s.join < flush < return' % (pl.q_in, pl.q_w),
                   'order holds on every path (%d path classes at the first join)' % len(paths))
        # the handle is used by MAIN only after the second join (apart from handing it to the writer thread)
        bad = []
        for n in ast.walk(main.node):
            if isinstance(n, ast.Name) and n.id == pl.handle:
                c = parent(n)
                stmt = fm_main.stmt_of(n)
                if any(n is x or any(n is y for y in ast.walk(x)) for e in pl.writer_edges for x in [e.call]):
                    continue
                if isinstance(c, ast.arg):
                    continue
                if not happened_before(fm_main, jo, n):
                    # creating the header from other params is fine; only uses of the handle count
                    bad.append(n)
        if bad:
            ctx.fail('C16.4', main, fm_main.stmt_of(bad[0]) or bad[0], 'the main thread uses the output handle `%s` '
                     'before %s.join() returned' % (pl.handle, pl.q_w), line=bad[0].lineno)
        else:
            ctx.ok('C16.4', main, 'uses of %s' % pl.handle, 'the main thread touches the output handle only after the second join')
        for (pe, qp) in pl.producers:
            if any(U(v) == pl.handle for v in pe.binding.values()):
                ctx.fail('C16.4', main, pe.call, 'producer %s receives the output handle' % pe.target.name)
            else:
                ctx.ok('C16.4', main, pe.call, 'producer %s does not receive the output handle' % pe.target.name)

    # ---- C16.5 callers of MAIN
    callers = G.callers(main)
    for e in callers:
        c = e.caller
        fm = FactMap(c.node)
        handle_arg = e.binding.get(pl.handle)
        hname = U(handle_arg) if handle_arg is not None else None
        late = []
        for n in calls_in(c.node):
            if n is e.call:
                continue
            uses = any(isinstance(a, ast.Name) and a.id == hname for a in list(n.args) + [k.value for k in n.keywords])
            recv = isinstance(n.func, ast.Attribute) and U(n.func.value) == hname
            if uses or recv:
                late.append(n)
        for n in late:
            facts = fm.facts_at(n) or frozenset()
            inside = any(a[0] == 'entered' and ('as %s' % hname) is not None and hname is not None and
                         a[1].startswith('open(') for a in facts)
            after = happened_before(fm, e.call, n)
            if after and inside:
                ctx.ok('C16.5', c, n, 'late write is after the conversion loop returned and inside the output with-block')
            else:
                ctx.fail('C16.5', c, n, 'late write `%s` is %s' % (U(n)[:60], 'not dominated by the return of %s' % main.name
                                                                   if not after else 'outside the with-block of the output'))
    ctx.floor('C16.5', 4, 'late writes in the two converters')

    # ---- C16.6
    for (pe, qp) in pl.producers:
        thr = [x for x in G.callers(pe.target) if x.kind in ('thread', 'pool')]
        if thr:
            ctx.fail('C16.6', thr[0].caller, thr[0].call, 'producer %s is also started as a thread/pool task' % pe.target.name)
        else:
            ctx.ok('C16.6', main, pe.call, 'producer %s is only ever called directly (on the calling thread)' % pe.target.name)
        puts = calls_in(pe.target.node, attr_call(qp, 'put'))
        ctx.visit(pe.target)
    # no other function puts into the first queue
    ctx.floor('C16.1', 8)
    ctx.floor('C16.2', 4)
    ctx.floor('C16.3', 4)
    ctx.floor('C16.4', 3)
    ctx.floor('C16.6', 2)


def check_consumer(ctx, rule, f, work, work_name, forward):
    """one `while True` loop; per iteration get < work < [put <] task_done on every path, once each."""
    loops = [n for n in ast.walk(f.node) if isinstance(n, ast.While)]
    if len(loops) != 1:
        ctx.fail(rule, f, f.name, 'expected one consumer loop, found %d' % len(loops))
        return
    lp = loops[0]
    if not (isinstance(lp.test, ast.Constant) and lp.test.value is True):
        ctx.fail(rule, f, lp.test, 'the consumer loop is not `while True` (it could exit with items pending)')
    fm = FactMap(f.node)
    gets = [c for c in calls_in(lp) if isinstance(c.func, ast.Attribute) and c.func.attr == 'get' and U(c.func.value) in f.params]
    works = [c for c in calls_in(lp) if work(c)]
    dones = [c for c in calls_in(lp) if isinstance(c.func, ast.Attribute) and c.func.attr == 'task_done']
    puts = [c for c in calls_in(lp) if isinstance(c.func, ast.Attribute) and c.func.attr == 'put' and U(c.func.value) in f.params]
    seq = [('get', gets), (work_name, works)] + ([('put', puts)] if forward else []) + [('task_done', dones)]
    bad = False
    for name, cs in seq:
        if len(cs) != 1:
            ctx.fail(rule, f, lp.body[0], '%s occurs %d times per iteration in %s (must be exactly once)' % (name, len(cs), f.name))
            bad = True
        elif in_loop(cs[0], lp) is not None or in_branch(cs[0], lp) is not None:
            ctx.fail(rule, f, cs[0], '%s is conditional or nested in an inner loop in %s' % (name, f.name))
            bad = True
    if bad:
        return
    # the get blocks for as long as it takes: a time-out / non-blocking get makes the consumer thread die (queue.Empty)
    # when the producer is slower than the limit, and the joins of the main thread then never return
    g = gets[0]
    nonblocking = g.func.attr != 'get' or any(k.arg == 'timeout' and not (isinstance(k.value, ast.Constant) and k.value.value is None)
                                              for k in g.keywords) or \
        any(k.arg == 'block' and isinstance(k.value, ast.Constant) and k.value.value is False for k in g.keywords) or \
        (g.args and isinstance(g.args[0], ast.Constant) and g.args[0].value is False) or len(g.args) >= 2
    if nonblocking:
        ctx.fail(rule, f, g, 'the consumer fetches with `%s`: a bounded wait - when the next item takes longer the thread '
                 'ends with queue.Empty, items stay unprocessed and the conversion never returns' % U(g))
    else:
        ctx.ok(rule, f, g, 'blocking get without time-out', nontrivial=False)
    for (n1, c1), (n2, c2) in zip(seq, seq[1:]):
        if happened_before(fm, c1[0], c2[0]):
            ctx.ok(rule, f, c2[0], '%s precedes %s on every path of the iteration' % (n1, n2))
        else:
            ctx.fail(rule, f, c2[0], '%s does not precede %s in %s: an item could be acknowledged before it is '
                     'handed on / written' % (n1, n2, f.name))
    # task_done on the queue we got from
    if U(dones[0].func.value) != U(gets[0].func.value):
        ctx.fail(rule, f, dones[0], 'task_done() is called on %s but the item came from %s' % (
            U(dones[0].func.value), U(gets[0].func.value)))
    # data flow: work consumes this iteration's get; put carries work's result
    facts = fm.facts_at(works[0]) or frozenset()
    wargs = [U(a) for a in works[0].args]
    got = None
    for a in facts:
        if a[0] == 'def' and a[2] == U(gets[0]):
            got = a[1]
    if got is None and any(gets[0] is x for a in works[0].args for x in ast.walk(a)):
        got = U(gets[0])       # the fetched item is passed on in place: work(queue.get())
        wargs = [got if any(gets[0] is x for x in ast.walk(a)) else U(a) for a in works[0].args]
    if got is None or got not in wargs:
        ctx.fail(rule, f, works[0], '%s does not consume the item fetched by this iteration\'s get()' % work_name)
    else:
        ctx.ok(rule, f, works[0], '%s consumes `%s`, the item of this iteration\'s get()' % (work_name, got))
    if forward:
        facts = fm.facts_at(puts[0]) or frozenset()
        res = None
        for a in facts:
            if a[0] == 'def' and a[2] == U(works[0]):
                res = a[1]
        pargs = [U(a) for a in puts[0].args]
        if res is None and any(works[0] is a for a in puts[0].args):
            res = U(works[0])   # the result is forwarded in place: put(work(item))
        if res is None or res not in pargs:
            ctx.fail(rule, f, puts[0], 'put() does not forward the result of %s of this iteration' % work_name)
        else:
            ctx.ok(rule, f, puts[0], 'put() forwards `%s`, the result of %s of this iteration' % (res, work_name))


FRESH = {'zeros', 'empty', 'ones', 'full', 'pad', 'array', 'ascontiguousarray', 'copy', 'zeros_like', 'empty_like', 'stack',
         'concatenate'}


def ownership(ctx):
    """C16.7: a buffer handed to the compressor thread is owned by that thread from the put on: the producer must not
    write it again.  Structural form: the object passed to queue.put is bound, inside the same iteration of the group
    loop, to a fresh allocation (np.zeros / np.pad / .copy() ...), never to something created outside the loop or drawn
    from a pool - otherwise, for some interleaving, the producer refills a buffer the compressor is still coding."""
    from .. import producers as PR
    P, G = ctx.P, ctx.G
    pl, prods = PR.producers(P, G)
    n = 0
    for pr in prods:
        f = pr.func
        if pr.group_loop is None:
            raise AnalysisError('%s: group loop not found' % f.qualname)
        for c in pr.puts:
            a = c.args[0] if c.args else None
            n += 1
            if a is None:
                continue
            if isinstance(a, ast.Call):
                ok = U(a.func).split('.')[-1] in FRESH
                (ctx.ok if ok else ctx.fail)('C16.7', f, c, 'put of a fresh object' if ok else
                                             'the object put on the queue is `%s`' % U(a)[:50])
                continue
            if not isinstance(a, ast.Name):
                raise AnalysisError('%s: queue.put argument `%s` is not a local' % (f.qualname, U(a)[:40]))
            defs = [d for d in ast.walk(f.node) if isinstance(d, ast.Assign) and any(
                isinstance(t, ast.Name) and t.id == a.id for t in d.targets)]
            if not defs:
                ctx.fail('C16.7', f, enclosing_stmt(c), 'the object put on the queue (`%s`) is not created by the producer: a '
                         'caller-owned object is shared with the compressor thread' % a.id, line=c.lineno)
                continue
            bad = None
            for d in defs:
                inside = any(d is x for x in ast.walk(pr.group_loop))
                v = d.value
                fresh = isinstance(v, ast.Call) and U(v.func).split('.')[-1] in FRESH
                if not inside:
                    bad = (d, 'it is bound outside the group loop, so every iteration puts the same object')
                elif not fresh:
                    bad = (d, 'it is bound to `%s`, which is not a fresh allocation (a pooled / reused / aliased buffer)' % U(v)[:50])
            if bad:
                ctx.fail('C16.7', f, bad[0], 'the buffer `%s` handed to the compressor thread is reused by the producer: %s; for '
                         'some interleaving the producer overwrites a plane set that is still being compressed, and the '
                         'output depends on the schedule' % (a.id, bad[1]), key_extra=a.id)
            else:
                ctx.ok('C16.7', f, c, '`%s` is a fresh allocation of this group iteration: ownership passes to the consumer' % a.id)
    ctx.floor('C16.7', 5, 'queue.put sites of the producers')
