"""C17 - I/O failures are reported, never turned into samples."""
import ast
from ..core import U, AnalysisError, parent
from ..facts import FactMap
from .. import iorules as IO
from .. import readerfacts as RF

PROP = 'C17'
EXPLANATION = (
    'Error-discipline rules over every function of the reader and loader hierarchies and the two range-read '
    'primitives. C17.1: every executor.submit(..) future (and executor.map iterator) is retained and .result() is '
    'called on it, unconditionally, before any return that follows - otherwise a failed range read inside a worker '
    'is silently dropped and the partly filled buffer decoded. C17.2: every value returned by an I/O primitive '
    '(handle.read / readall) is compared with the requested length, raising on mismatch, either inside the '
    'primitive (then all its call sites are discharged) or at the call site with the check dominating every use. '
    'C17.3: the buffer slices written by pool workers are pairwise disjoint (slice length = loop stride, from the '
    'index algebra of the loaders). C17.4: no except clause that can catch an I/O failure (bare, Exception, OSError '
    'family) without re-raising exists in any function reachable from the read API; a positive control is '
    'evaluated on every run.')
EXPLANATION += (
    ' ADDED: The length held in a local (n = len(data)) is followed.'
)
EXPLANATION += (
    ' C17.1 also: work is submitted only to a pool created and joined by the call itself (`with ...Executor(...) as ex:`), so a failed call cannot return while sibling range reads are still seeking and reading on the shared handle.'
)
ASSUMPTIONS = [
    'concurrent.futures stores a worker exception in the future and re-raises it from result()',
    'file.read(n) returns fewer than n bytes only at end of file; the blob client returns what the service sent',
    'leaving a `with ThreadPoolExecutor` block waits for all workers (completion order is then irrelevant because '
    'the slices are disjoint - C17.3)',
]
NOT_DECIDED = 'Behaviour of the Azure client itself; timing; that a raised exception has a particular type.'


def run(ctx):
    P, G = ctx.P, ctx.G
    ctx.rule('C17.1', 'every pool future is retained and result() is called before the assembled data is used')
    ctx.rule('C17.2', 'every range read is compared with the requested length (in the primitive or at the call site)')
    ctx.rule('C17.3', 'pool workers write pairwise disjoint buffer slices (slice length = loop stride)')
    ctx.rule('C17.4', 'no handler that swallows an I/O failure on the read path')
    IO.check_futures(ctx, 'C17.1', P, G)
    ctx.floor('C17.1', 4, 'thread-pool fan-outs in the loaders')
    check_short_reads(ctx, 'C17.2')
    check_disjoint(ctx, 'C17.3')
    check_swallow(ctx, 'C17.4')


def check_short_reads(ctx, rule):
    P, G = ctx.P, ctx.G
    prims = IO.io_primitives(P, G)
    self_checking = {}
    for pr in prims:
        raws = [c for c in IO.raw_io_calls(pr) if c.func.attr in ('read', 'readall')]
        if not raws:
            raise AnalysisError('primitive %s performs no read' % pr.qualname)
        okall = True
        for c in raws:
            ln = requested_length(c, pr)
            ok, why = IO.length_checked(pr, c, ln) if ln else (False, 'requested length not identifiable')
            okall = okall and ok
        self_checking[pr.qualname] = (okall, why)
    # call sites of the primitives
    sites = {}
    for pr in prims:
        for e in G.callers(pr):
            sites.setdefault((e.caller.qualname, e.call.lineno, e.call.col_offset), (e.caller, e.call, []))[2].append(pr)
    for (f, call, targets) in sites.values():
        if all(self_checking[t.qualname][0] for t in targets):
            ctx.ok(rule, f, call, 'short reads are rejected inside %s' % '/'.join(t.name for t in targets))
            continue
        ln = U(call.args[2]) if len(call.args) >= 3 else None
        ok, why = IO.length_checked(f, call, ln) if ln else (False, 'requested length not identifiable')
        if ok:
            ctx.ok(rule, f, call, why)
        else:
            ctx.fail(rule, f, IO.stmt_of(call), 'range read `%s` may return fewer bytes than requested and the result is '
                     'used: %s (primitive %s does not check either)' % (U(call)[:70], why,
                                                                        '/'.join(t.name for t in targets)),
                     line=call.lineno)
    # raw reads on the SGZ handle outside the primitives
    for f in IO.reader_functions(P, G):
        for c in IO.raw_io_calls(f):
            if c.func.attr not in ('read', 'readall'):
                continue
            ln = requested_length(c, f)
            ok, why = IO.length_checked(f, c, ln) if ln else (False, 'requested length not identifiable')
            if ok:
                ctx.ok(rule, f, c, why)
            else:
                ctx.fail(rule, f, IO.stmt_of(c), 'direct read `%s` on the SGZ handle is not length-checked: %s' % (
                    U(c)[:60], why), line=c.lineno)
    ctx.floor(rule, 7, 'range-read call sites')


def requested_length(c, f=None):
    if c.func.attr == 'read' and c.args:
        return U(c.args[0])
    if c.func.attr == 'readall':
        inner = c.func.value
        if isinstance(inner, ast.Name) and f is not None:
            inner = IO.single_def(f, inner.id)
        if isinstance(inner, ast.Call):
            for k in inner.keywords:
                if k.arg == 'length':
                    return U(k.value)
    return None


def check_disjoint(ctx, rule):
    """L3 on every pool fan-out: stores into the shared buffer issued from one loop have
    stop - start == coefficient of the loop variable in start."""
    from ..symeval import Buf, SliceV, ArrView, Tup
    from ..algebra import Poly
    n = 0
    seen = set()
    for m in ctx.shared.models():
        if m.dim != '3d':
            continue
        ldr = m.loader()
        for meth in ldr.cls.methods.values():
            if not any(e.kind == 'pool' for e in ctx.G.callees(meth)):
                continue
            try:
                outs = m.run(meth.qualname, recv=ldr)
            except AnalysisError:
                raise
            for o in outs:
                for ev in o.state.events:
                    in_pool = any(s[0] == 'call' and len(s) > 4 and s[4] for s in ev.stack)
                    if not in_pool or not ev.loops:
                        continue
                    if ev.kind == 'bufstore':
                        idx = ev.index
                    elif ev.kind == 'decode' and isinstance(ev.out, ArrView):
                        ix = ev.out.index
                        idx = ix.elts[0] if isinstance(ix, Tup) else ix
                    else:
                        continue
                    if not (isinstance(idx, SliceV) and isinstance(idx.lo, Poly) and isinstance(idx.hi, Poly)):
                        raise AnalysisError('store `%s` in %s has a non-polynomial slice' % (U(ev.node), ev.func.qualname))
                    length = idx.hi - idx.lo
                    key = (meth.qualname, ev.func.qualname, ev.node.lineno, m.name)
                    if key in seen:
                        continue
                    seen.add(key)
                    problems = []
                    for lp in ev.loops:
                        coef = Poly({k: v for k, v in idx.lo.t.items() if any(a == lp.name for a, e in k)})
                        stride = m.T.exact_div(coef, Poly.atom(lp.name)) if not coef.is_zero() else Poly()
                        if stride is None or stride.is_zero():
                            problems.append('slice start does not advance with loop variable %s' % lp.name.split('@')[0])
                        elif not m.T.nonneg(stride - length):
                            problems.append('loop %s advances the slice start by %r but each worker writes %r' % (
                                lp.name.split('@')[0], stride, length))
                    n += 1
                    label = '%s:%s [%s]' % (meth.name, ev.func.name, m.name)
                    if problems:
                        ctx.fail(rule, ev.func, ev.node, 'workers of %s write overlapping slices of the shared buffer: %s' % (
                            meth.name, '; '.join(problems)), key_extra=meth.name)
                    else:
                        ctx.ok(rule, meth, label, 'slice length %r <= stride of every fan-out loop' % (length,),
                               sample={'slice_start': repr(idx.lo), 'slice_len': repr(length)})
    ctx.floor(rule, 3, 'pool fan-outs writing into a shared buffer')


def check_swallow(ctx, rule):
    P, G = ctx.P, ctx.G
    IO.swallow_selfcheck()
    funcs = {f.qualname: f for f in IO.reader_functions(P, G)}
    for pr in IO.io_primitives(P, G):
        funcs[pr.qualname] = pr
    # plus everything they reach inside the package
    for q in list(funcs):
        for r in G.reach(funcs[q]):
            funcs.setdefault(r, P.functions[r])
    n_try = 0
    for f in funcs.values():
        for n in ast.walk(f.node):
            if isinstance(n, ast.Try):
                for h in n.handlers:
                    n_try += 1
                    if IO.handler_swallows(h):
                        ctx.fail(rule, f, h, 'except clause `%s` can catch a failed range read and does not re-raise' % (
                            U(h.type) if h.type else 'bare except'), line=h.lineno)
                    else:
                        ctx.ok(rule, f, 'except %s' % (U(h.type) if h.type else ''), 'handler is narrow or re-raises')
    ctx.ok(rule, None, 'positive control', 'synthetic swallowing handler is flagged, re-raising one is not; %d functions '
           'on the read path scanned, %d handlers' % (len(funcs), n_try), nontrivial=False)
