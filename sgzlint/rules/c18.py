"""C18 - partial files: every fetched range is complete or the call raises; write order."""
import ast
from ..core import U, AnalysisError, parent, enclosing_stmt
from ..facts import FactMap, happened_before
from .. import iorules as IO
from ..pipeline import Pipeline, calls_in
from .c17 import check_short_reads
from ..tables import const_eval

PROP = 'C18'
EXPLANATION = (
    'C18.1 (= C17.2): every value returned by a range read of the SGZ handle - data section, footer arrays, the '
    'per-trace 4-byte header reads and the header blocks read by the constructor - is compared with the requested '
    'length and the call raises on a short read; together with C07/C02 (every read addresses only ranges the header '
    'promises) this settles "any byte length of the finished file": a read either finds all its bytes or raises. '
    'C18.2 write order (must-facts of the converters): the header, carrying the final sizes, is built before the '
    'threads start and is the first write of the writer thread; blocks follow; then, in "thorough" mode, the '
    'count/table patch; then the footer arrays; then the hash patch - so a prefix either lacks bytes the header '
    'promises or differs from the complete file only in the hash slot. C18.3: the reader derives footer offsets only '
    'for the stated number of arrays (assertion len(stored keys) == n_header_arrays on the only path that creates '
    'FileOffset values).')
EXPLANATION += (
    ' ADDED: C18.4: a short read raised inside a pool worker reaches the caller (futures consumed or map iterated; no swallowing handler) - the rule of C17.1 / C17.4, because it is what turns a truncated data section into an exception.'
)
EXPLANATION += (
    ' C18.4 includes the pool-scope clause of C17.1. C18.5: writers never pre-size or extend their output (no truncate / fallocate): a partial file is a short file, which is what lets the complete-read rule reject it.'
)
ASSUMPTIONS = [
    'file.read(n) returns fewer than n bytes only at end of file',
    'writes to one handle reach the file in program order (buffered I/O; a crash truncates a suffix)',
]
NOT_DECIDED = ('A prefix that ends between the last footer array and the hash patch is a complete file with a zero hash: '
               'get_source_data_hash() then differs from the complete file\'s; no structural rule separates the two without '
               'a format change (not claimed). Torn in-place patches (a crash inside the 4-byte count patch or the '
               '1068-byte table patch of "thorough" mode) are outside what ordering rules can see.')


def run(ctx):
    P, G = ctx.P, ctx.G
    ctx.rule('C18.1', 'every range read of the SGZ handle is complete or raises (same rule as C17.2)')
    ctx.rule('C18.2', 'write order: header (final sizes) < blocks < thorough patch < footer arrays < hash patch')
    ctx.rule('C18.3', 'footer offsets are derived only for the stated number of arrays')
    check_short_reads(ctx, 'C18.1')
    ctx.rule('C18.4', 'a short read raised inside a pool worker reaches the caller (futures consumed; no swallowing handler)')
    from .. import iorules as IO
    from .c17 import check_swallow
    IO.check_futures(ctx, 'C18.4', P, G)
    check_swallow(ctx, 'C18.4')
    ctx.floor('C18.4', 4, 'thread-pool fan-outs in the loaders')
    write_order(ctx)
    stated_count(ctx)
    no_preallocation(ctx)


def write_order(ctx):
    P, G = ctx.P, ctx.G
    pl = Pipeline(P, G)
    main = pl.main
    fm = FactMap(main.node)
    # header built before the threads exist
    hdr = [e for e in G.callees(main) if e.target is not None and 'make_header' in e.target.name]
    if not hdr:
        raise AnalysisError('%s no longer builds the header' % main.qualname)
    th = pl.writer_edges[0].call
    paths = fm.paths_at(th)
    if paths and all(any(a[0] == 'called' and 'make_header' in a[1] for a in p) for p in paths):
        ctx.ok('C18.2', main, th, 'the header (with the final sizes) exists before the writer thread is created')
    else:
        ctx.fail('C18.2', main, th, 'the writer thread is created on a path where the header has not been built')
    # sizes are in the header: the size slots are stored by the header writers (C03.1 completeness); here: header is the
    # first write of the writer thread
    wr = pl.writer
    hp = pl.handle_param
    wfm = FactMap(wr.node)
    writes = [c for c in calls_in(wr.node) if isinstance(c.func, ast.Attribute) and c.func.attr == 'write' and
              U(c.func.value) == hp]
    loops = [n for n in ast.walk(wr.node) if isinstance(n, ast.While)]
    pre = [w for w in writes if not any(w is x for lp in loops for x in ast.walk(lp))]
    if len(pre) == 1 and loops and happened_before(wfm, pre[0], loops[0].body[0]):
        ctx.ok('C18.2', wr, pre[0], 'header is written before any block')
    else:
        ctx.fail('C18.2', wr, wr.name, 'the writer thread does not write the header before the blocks')
    # callers: loop < footer/thorough patch < hash patch
    n = 0
    for e in G.callers(main):
        c = e.caller
        cfm = FactMap(c.node)
        after = [x for x in G.callees(c) if x.target is not None and x.call is not e.call and
                 x.target.name in ('write_headers', 'write_hash')]
        wh = [x for x in after if x.target.name == 'write_headers']
        hh = [x for x in after if x.target.name == 'write_hash']
        if not wh or not hh:
            raise AnalysisError('%s: expected write_headers and write_hash after the conversion loop' % c.qualname)
        n += 1
        if happened_before(cfm, e.call, wh[0].call) and happened_before(cfm, wh[0].call, hh[0].call):
            ctx.ok('C18.2', c, hh[0].call, 'conversion loop < footer < hash patch on every path')
        else:
            ctx.fail('C18.2', c, enclosing_stmt(hh[0].call), 'the hash patch / footer are not ordered after the data: a partial '
                     'file could carry a hash or footer for blocks that are missing', line=hh[0].call.lineno)
    if n < 2:
        raise AnalysisError('expected two callers of the conversion loop, found %d' % n)
    # inside write_headers: the thorough patch precedes the footer arrays
    from ..footer import footer_write_sites
    for (f, call) in footer_write_sites(P):
        seeks = [c for c in calls_in(f.node) if isinstance(c.func, ast.Attribute) and c.func.attr == 'seek']
        if not seeks:
            continue
        ok = all(s.lineno < call.lineno and IO.precedes_in_block(_top_stmt(s, f), call) for s in seeks)
        if ok:
            ctx.ok('C18.2', f, call, 'in-place patch of count/table precedes the footer arrays')
        else:
            ctx.fail('C18.2', f, enclosing_stmt(call), 'footer arrays can be written before the count/table patch: a prefix '
                     'would hold arrays the table does not name', line=call.lineno)
    ctx.floor('C18.2', 5)


def _top_stmt(node, f):
    s = enclosing_stmt(node)
    while parent(s) is not None and parent(s) is not f.node:
        s = parent(s)
    return s


def stated_count(ctx):
    P, G = ctx.P, ctx.G
    f = P.func('headers.HeaderwordInfo.get_header_dict')
    asserts = [n for n in ast.walk(f.node) if isinstance(n, ast.Assert)]
    ok = False
    from .. import wiring as WR
    cnts = WR.grant_counters(P)
    if not cnts:
        raise AnalysisError('get_header_dict: the expression counting the located arrays was not recognised')
    for a in asserts:
        t = a.test
        sides = {U(t.left), U(t.comparators[0])} if isinstance(t, ast.Compare) and len(t.ops) == 1 and \
            isinstance(t.ops[0], ast.Eq) else set()
        cnt = next(iter(sides & cnts), None)
        if cnt is not None and (sides - {cnt}) and (sides - {cnt}).pop() in f.params:
            ok = True
            # it must follow the loop that creates the offsets and precede the return
            rets = [r for r in ast.walk(f.node) if isinstance(r, ast.Return)]
            if all(IO.precedes_in_block(a, r) for r in rets):
                ctx.ok('C18.3', f, a, 'number of derived footer offsets == stated array count, before the table is returned')
            else:
                ctx.fail('C18.3', f, a, 'the array-count assertion does not dominate the return')
    if not ok:
        ctx.fail('C18.3', f, f.name, 'get_header_dict no longer checks that the number of stored arrays equals the stated '
                 'count: a reader would address arrays beyond the footer')
    # FileOffset values are created only here
    sites = []
    for g in P.functions.values():
        for n in ast.walk(g.node):
            if isinstance(n, ast.Call) and U(n.func).split('.')[-1] == 'FileOffset':
                sites.append((g, n))
    for (g, n) in sites:
        if g is f:
            ctx.ok('C18.3', g, n, 'footer offset derived inside get_header_dict')
        elif g.cls is not None and g.cls.name == 'FileOffset':
            continue
        else:
            ctx.fail('C18.3', g, enclosing_stmt(n), 'a footer offset is created outside get_header_dict (not covered by the count check)')
    ctx.floor('C18.3', 2)


def no_preallocation(ctx):
    """C18.5: a file never holds bytes that were not written as data: no truncate / fallocate / seek-past-end on an output
    handle of a writer.  Pre-sizing the output turns "the conversion stopped here" into a file of the full length whose
    unwritten tail is zeros, which the complete-read rule (C18.1) can no longer tell from data."""
    P = ctx.P
    ctx.rule('C18.5', 'writers never pre-size or extend their output (no truncate / fallocate): a partial file is a short file')
    n = 0
    for f in P.functions.values():
        if f.module.name not in ('conversion', 'conversion_utils', 'cropping'):
            continue
        n += 1
        for c in ast.walk(f.node):
            if isinstance(c, ast.Call) and (
                    (isinstance(c.func, ast.Attribute) and c.func.attr in ('truncate', 'posix_fallocate', 'ftruncate', 'fallocate')) or
                    U(c.func) in ('os.truncate', 'os.ftruncate', 'os.posix_fallocate')):
                ctx.fail('C18.5', f, enclosing_stmt(c), 'the writer sizes its output with `%s`: a conversion that stops early leaves a '
                         'full-length file whose unwritten part reads back as zero samples instead of raising' % U(c)[:60], line=c.lineno)
    ctx.ok('C18.5', None, 'writer modules', 'no truncate / fallocate call in %d writer functions' % n, nontrivial=False)
