"""C19 - configuration soundness: validation on every path of the resolver, layout predicate,
rate encoding pair, reject-before-open."""
import ast
from ..core import U, AnalysisError, parent, enclosing_stmt
from ..facts import FactMap, tokens
from .. import producers as PR
from .. import tables as TB

PROP = 'C19'
EXPLANATION = (
    'C19.1: in the resolver of (bits_per_voxel, blockshape) - the function both converters call before anything is '
    'written - every path to a normal return carries the must-fact bits*bs0*bs1*bs2 == 8*DISK_BLOCK_BYTES (a '
    'comparison whose failing branch raises and whose operands mention all four quantities) and a power-of-two '
    'predicate applied to every blockshape component. C19.2: the predicate on blockshape under which each producer '
    'compresses a whole plane set / trace group as one (unit-ordered) stream implies the predicate under which the '
    'reader uses its unit-ordered loaders. C19.3: the writer stores -int(1/bpv) iff bpv < 1 with a signed codec, the '
    'reader inverts iff the stored value is negative, and the compressor receives the unencoded value. C19.4: both '
    'converters call the resolver before the output file is opened (dominance), so a rejected setting leaves no '
    'output.')
EXPLANATION += (
    ' ADDED: C19.3 decides the rate encoding by cases (rate < 1 -> -int(1/rate), else int(rate)) whatever its spelling. C19.5: the fresh header sizes the data section with the blockshape component of each axis (rule of C03.4), which matters exactly for the accepted non-square settings.'
)
EXPLANATION += (
    ' C19.8 - byte counts derived from the (possibly fractional) rate that reach a slice bound, a bytearray size or a read length (directly, through locals, or through the arguments of a package call / pool submission) are wrapped in int(..) before the division, unless the function fixes the rate to an integer by assertion: otherwise a file written at 1/2 or 1/4 bit cannot be read by that path (TypeError).'
)
EXPLANATION += (
    ' ADDED (round 4): C19.7 - per-block emission order of every producer is (plane set, crossline block, sample block), the order the reader addresses (rule C01.6 reported for this property): an accepted non-default blockshape otherwise yields a valid-looking file with bricks at the wrong offsets. C19.1 compares bits * prod(blockshape) with 8*DISK_BLOCK_BYTES as polynomials (constants through the module), C19.2 reads layout predicates from path facts.'
)
EXPLANATION += (
    ' C19.1 also: a first blockshape component of 1 is accepted only through the 2D entry (the disjunct is conjoined with a flag that only define_blockshape_2d sets). C19.6: every accepted layout reads back through canonical addresses, decodes and crops (rules of C02 over all layout modes, non-square ones included).'
)
EXPLANATION += (
    ' C19.9 - the guards (assert / raising tests) that hold at every return of the resolver are evaluated abstractly (own evaluator over the syntax tree; rate grid 2^-8..32; 2D switch on and off): every rate below the codec minimum of 9 bits per 4^d float32 block falsifies one of them (such a rate makes zfpy overrun its buffer), and no rate at or above the minimum does.'
)
ASSUMPTIONS = ['assert statements are active (python is not run with -O)',
               'the accepted settings then read back faithfully to the extent C01-C03 decide']
NOT_DECIDED = ('The completeness half ("every valid combination is accepted") beyond the fact that the checks of C19.1 are '
               'the only rejecting exits of the resolver; faithfulness of accepted settings (undecided parts of C01-C03).')


def resolver(P, G):
    """the (bits, blockshape) resolver: the utils function every converter run() calls with both values."""
    cands = {}
    for f in P.functions.values():
        if f.name != 'run':
            continue
        for e in G.callees(f):
            t = e.target
            st = enclosing_stmt(e.call)
            unpack = isinstance(st, ast.Assign) and st.value is e.call and isinstance(st.targets[0], ast.Tuple) and \
                len(st.targets[0].elts) == 2
            if t is not None and t.cls is None and {'bits_per_voxel', 'blockshape'} <= set(t.params) and unpack:
                cands.setdefault(t.qualname, t)
    if not cands:
        raise AnalysisError('no resolver function taking (bits_per_voxel, blockshape) is called from the converters')
    # follow pure delegation (2d -> 3d)
    core = {}
    for t in cands.values():
        cur = t
        for _ in range(3):
            rets = [r for r in ast.walk(cur.node) if isinstance(r, ast.Return)]
            if len(rets) == 1 and isinstance(rets[0].value, ast.Call):
                es = [e for e in G.edges_at(cur, rets[0].value) if e.target is not None]
                if es:
                    cur = es[0].target
                    continue
            break
        core[cur.qualname] = cur
    return list(cands.values()), list(core.values())


def _reaches_slice(P, G, f, x, depth=0):
    """does the value of expression x become a slice bound / bytearray size / read length (directly, through a local, or
    through an argument of a package call - also a pool submission)?"""
    def in_slice(node, stop):
        q = parent(node)
        while q is not None and q is not stop and not isinstance(q, ast.stmt):
            if isinstance(q, ast.Slice):
                return True
            if isinstance(q, ast.Call) and U(q.func) in ('bytearray', 'bytes'):
                return True
            q = parent(q)
        return False
    if in_slice(x, f.node):
        return True
    if depth > 2:
        return False
    # used in place as an argument of a package call
    for e in G.callees(f):
        if e.target is None:
            continue
        for p_, a in e.binding.items():
            if any(z is x for z in ast.walk(a)):
                for w in ast.walk(e.target.node):
                    if isinstance(w, ast.Name) and w.id == p_ and isinstance(w.ctx, ast.Load) and in_slice(w, e.target.node):
                        return True
    st = enclosing_stmt(x)
    names = []
    if isinstance(st, ast.Assign) and len(st.targets) == 1 and isinstance(st.targets[0], ast.Name):
        names.append(st.targets[0].id)
    for nm in names:
        for y in ast.walk(f.node):
            if isinstance(y, ast.Name) and y.id == nm and isinstance(y.ctx, ast.Load):
                if in_slice(y, f.node):
                    return True
                ys = enclosing_stmt(y)
                if isinstance(ys, ast.Assign) and ys is not st and len(ys.targets) == 1 and isinstance(ys.targets[0], ast.Name):
                    # flows into another local
                    if _reaches_slice(P, G, f, ys.value, depth + 1):
                        return True
                # passed on to a package function
                for e in G.callees(f):
                    if e.target is None:
                        continue
                    for p_, a in e.binding.items():
                        if any(z is y for z in ast.walk(a)):
                            for w in ast.walk(e.target.node):
                                if isinstance(w, ast.Name) and w.id == p_ and isinstance(w.ctx, ast.Load) and in_slice(w, e.target.node):
                                    return True
    return False


def integral_byte_counts(ctx, rule):
    """C19.8: the bit rate may be fractional (1/2, 1/4 ..: accepted settings).  A byte count or offset computed from it is
    used as a slice bound, a buffer size or a read length, which must be an int: the product with the rate is wrapped in
    int(..) before it is divided (the idiom of the reader: int(voxels * rate) // 8).  A product with self.rate that reaches
    `//` un-wrapped is a float for fractional rates, and slicing with it raises TypeError - the file was written, but that
    read path cannot read it."""
    P = ctx.P
    ctx.rule(rule, 'byte counts derived from the (possibly fractional) rate are made integers before they are used')
    n = 0
    for f in P.functions.values():
        if f.module.name not in ('loader', 'read', 'cropping', 'conversion'):
            continue
        for x in ast.walk(f.node):
            if not (isinstance(x, ast.BinOp) and isinstance(x.op, ast.FloorDiv)):
                continue
            if not any(isinstance(y, ast.Attribute) and y.attr == 'rate' for y in ast.walk(x.left)):
                continue
            n += 1
            # is the rate inside an int(..) within the dividend?
            def wrapped(e):
                if isinstance(e, ast.Call) and U(e.func) == 'int':
                    return True
                if isinstance(e, ast.Attribute) and e.attr == 'rate':
                    return False
                return all(wrapped(c) for c in ast.iter_child_nodes(e) if any(
                    isinstance(y, ast.Attribute) and y.attr == 'rate' for y in ast.walk(c)))
            # the quotient (or anything around it) wrapped by int(..) is fine too
            outer = False
            par = parent(x)
            while par is not None and not isinstance(par, ast.stmt):
                if isinstance(par, ast.Call) and U(par.func) == 'int':
                    outer = True
                par = parent(par)
            # the function fixes the rate to an integer (assert self.rate == 2)
            fixed = any(isinstance(a, ast.Assert) and isinstance(a.test, ast.Compare) and len(a.test.ops) == 1 and
                        isinstance(a.test.ops[0], ast.Eq) and U(a.test.left).endswith('rate') and
                        isinstance(a.test.comparators[0], ast.Constant) and type(a.test.comparators[0].value) is int
                        for a in ast.walk(f.node))
            if not _reaches_slice(P, ctx.G, f, x):
                ctx.ok(rule, f, x, 'not used as a slice bound, buffer size or read length', nontrivial=False)
                continue
            if wrapped(x.left) or outer or fixed:
                ctx.ok(rule, f, x, 'product with the rate is an int before the division', nontrivial=False)
            else:
                ctx.fail(rule, f, enclosing_stmt(x), '`%s` divides a product with the rate that is not wrapped in int(..): for a '
                         'fractional rate (an accepted setting) the result is a float, and the slice / length it is used for '
                         'raises TypeError' % U(x)[:70], line=x.lineno)
    if n < 4:
        raise AnalysisError('byte counts derived from the rate: found %d sites, floor 4' % n)
    ctx.floor(rule, 1)


def _prod_poly(P, f, txt):
    from ..algebra import A as _A, C as _C
    try:
        e = ast.parse(txt, mode='eval').body
    except SyntaxError:
        return None

    def ev(x):
        t = U(x)
        if t == 'bits_per_voxel':
            return _A('bits')
        for k in range(3):
            if t == 'blockshape[%d]' % k:
                return _A('bs%d' % k)
        if isinstance(x, ast.Constant) and isinstance(x.value, int) and not isinstance(x.value, bool):
            return _C(x.value)
        if isinstance(x, (ast.Name, ast.Attribute)):
            v = TB.const_eval(P, f.module, x, f)
            if v is None and isinstance(x, ast.Name) and x.id in f.module.const_nodes:
                v = TB.const_eval(P, f.module, f.module.const_nodes[x.id])
            return _C(v) if v is not None else None
        if isinstance(x, ast.BinOp) and isinstance(x.op, (ast.Mult, ast.Add, ast.Sub)):
            l, r = ev(x.left), ev(x.right)
            if l is None or r is None:
                return None
            return l * r if isinstance(x.op, ast.Mult) else l + r if isinstance(x.op, ast.Add) else l - r
        return None
    return ev(e)


def run(ctx):
    P, G = ctx.P, ctx.G
    ctx.rule('C19.1', 'every normal return of the resolver is dominated by the product check and the power-of-two check')
    ctx.rule('C19.2', 'writer layout predicate implies the reader\'s unit-order predicate')
    ctx.rule('C19.3', 'rate encoding: writer negates-reciprocal iff < 1 (signed), reader inverts iff negative')
    ctx.rule('C19.4', 'both converters resolve (and so validate) the setting before the output file is opened')
    ctx.rule('C19.5', 'every accepted blockshape: the fresh header sizes the data section with the blockshape component of each axis')
    from .. import headerrules as HR
    from .c03 import check_sizes
    ht = HR.HeaderTable(P, G)
    check_sizes(ctx, ht, 'C19.5', select=lambda f: f.module.name == 'conversion_utils')
    ctx.floor('C19.5', 2, 'size formulas of the fresh-header writer (3D and 2D branch)')
    ctx.rule('C19.6', 'every accepted layout reads back through canonical addresses, decodes and crops (rules of C02, all layout modes incl. non-square)')
    from .. import layoutrules as LR
    LR.report(ctx, LR.collect(ctx.shared), {'L1': 'C19.6', 'DEC': 'C19.6', 'L3': 'C19.6', 'L4': 'C19.6'})
    ctx.floor('C19.6', 30, 'read / decode / assembly / crop sites over the layout modes')
    # the other half of "yields a faithful file" for the non-default layouts: the blocks of a plane set are emitted in the
    # order the reader addresses them (rule C01.6, reported here as C19.7)
    ctx.rule('C19.7', 'per-block emission order of every producer is (plane set, crossline block, sample block), the order read back')
    from .c01 import emission_order
    from .c09 import _relabel
    pl_, prods_ = PR.producers(P, G)
    n0 = len(ctx.findings)
    emission_order(ctx, prods_)
    for fnd in ctx.findings[n0:]:
        if fnd.rule == 'C01.6':
            fnd.rule = 'C19.7'
    _relabel(ctx, ('C01.6',), 'C19.7')
    ctx.floors = [(('C19.7' if r == 'C01.6' else r), n_, w) for (r, n_, w) in getattr(ctx, 'floors', [])]
    ctx.rule_docs.pop('C01.6', None)
    integral_byte_counts(ctx, 'C19.8')
    codec_floor(ctx, 'C19.9')
    entry, cores = resolver(P, G)
    for f in cores:
        fm = FactMap(f.node)
        rets = [(k, s, facts) for (k, s, facts) in fm.exits if k == 'return']
        if not rets:
            raise AnalysisError('%s has no return' % f.qualname)
        for (k, s, facts) in rets:
            prod_ok = False
            pow_ok = False
            for a in facts:
                txt = ' '.join(str(x) for x in a[1:])
                if a[0] == '==' and 'bits_per_voxel' in txt and all('blockshape[%d]' % i in txt for i in range(3)):
                    # both sides as polynomials over the rate and the three components; constants through the module
                    l, r = _prod_poly(P, f, a[1]), _prod_poly(P, f, a[2])
                    dsk = P.const_value(P.modules['sgzconstants'], 'DISK_BLOCK_BYTES')
                    from ..algebra import A as _A, C as _C
                    want = _A('bits') * _A('bs0') * _A('bs1') * _A('bs2')
                    if l is not None and r is not None and {repr(l), repr(r)} == {repr(want), repr(_C(8 * dsk))}:
                        prod_ok = True
                if a[0] in ('T', '==') and 'blockshape' in txt and '&' in txt and '- 1' in txt:
                    pow_ok = True
            label = 'return at line %d' % s.lineno
            if prod_ok:
                ctx.ok('C19.1', f, label + ' (product)', 'bits*prod(blockshape) == 8*DISK_BLOCK_BYTES holds on every path to it')
            else:
                ctx.fail('C19.1', f, s, 'a path returns (bits_per_voxel, blockshape) without the check bits * blockshape[0] * '
                         'blockshape[1] * blockshape[2] == 8 * DISK_BLOCK_BYTES: an inconsistent setting is resolved by floor '
                         'division and written', key_extra='product')
            if pow_ok:
                ctx.ok('C19.1', f, label + ' (power of two)', 'every blockshape component is checked to be a power of two')
            else:
                ctx.fail('C19.1', f, s, 'a path returns a blockshape whose components were never checked to be powers of two '
                         '>= 4', key_extra='pow2')
    # the first component may be 1 only through the 2D entry: a 3D conversion with blockshape (1, n, m) writes a file
    # that every reader takes for a 2D line
    for f in cores:
        ones = [c for a in ast.walk(f.node) if isinstance(a, ast.Assert) for c in ast.walk(a.test)
                if isinstance(c, ast.Compare) and len(c.ops) == 1 and isinstance(c.ops[0], ast.Eq) and
                {U(c.left), U(c.comparators[0])} == {'blockshape[0]', '1'}]
        for c in ones:
            # is the disjunct conjoined with a flag parameter of the function?
            q = parent(c)
            flag = None
            while q is not None and not isinstance(q, ast.Assert):
                if isinstance(q, ast.BoolOp) and isinstance(q.op, ast.And):
                    for v in q.values:
                        if isinstance(v, ast.Name) and v.id in f.params:
                            flag = v.id
                q = parent(q)
            if flag is None:
                ctx.fail('C19.1', f, c, 'the 3D resolver accepts a first blockshape component of 1 unconditionally: a 3D cube '
                         'converted with (1, n, m) or with a free first component that resolves to 1 is written as a file every '
                         'reader takes for a 2D line (neither rejected nor faithful)', key_extra='first1')
                continue
            passers = [e for e in G.callers(f) if flag in e.binding and not (
                isinstance(e.binding[flag], ast.Constant) and e.binding[flag].value is False)]
            bad = [e for e in passers if '2d' not in e.caller.name.lower()]
            if bad:
                ctx.fail('C19.1', bad[0].caller, bad[0].call, 'the 2D allowance `%s` of the resolver is switched on from %s' % (
                    flag, bad[0].caller.qualname), key_extra='first1')
            elif f.defaults.get(flag) is not None and isinstance(f.defaults[flag], ast.Constant) and f.defaults[flag].value is False:
                ctx.ok('C19.1', f, c, 'a first component of 1 is accepted only under `%s`, set by the 2D entry alone' % flag)
            else:
                ctx.fail('C19.1', f, c, 'the 2D allowance `%s` does not default to False' % flag, key_extra='first1')
    # 2D entry enforces blockshape[0] == 1
    for f in entry:
        if '2d' in f.name:
            fm = FactMap(f.node)
            rets = [(k, s, facts) for (k, s, facts) in fm.exits if k == 'return']
            ok = all(any(a in (('==', 'blockshape[0]', '1'), ('==', '1', 'blockshape[0]')) for a in facts) for (k, s, facts) in rets)
            if ok:
                ctx.ok('C19.1', f, f.name, '2D entry requires blockshape[0] == 1')
            else:
                ctx.fail('C19.1', f, f.name, 'the 2D resolver does not require blockshape[0] == 1')
    ctx.floor('C19.1', 2)
    layout_predicate(ctx, 'C19.2')
    rate_pair(ctx, 'C19.3')
    before_open(ctx, 'C19.4', entry)


def layout_predicate(ctx, rule):
    P, G = ctx.P, ctx.G
    pl, prods = PR.producers(P, G)
    rp = PR.reader_unit_order_predicates(P, G)
    for dim in ('3d', '2d'):
        sets = {frozenset(a) for (a, m, n) in rp[dim]}
        if len(sets) > 1:
            for (a, m, n) in rp[dim]:
                if frozenset(a) != max(sets, key=lambda s: sum(1 for x in rp[dim] if frozenset(x[0]) == s)):
                    ctx.fail(rule, m, getattr(n, 'test', n), 'reader method %s selects a unit-ordered loader under %s while its siblings '
                             'use %s' % (m.name, sorted(a), [sorted(s) for s in sets]))
        for (a, m, n) in rp[dim]:
            ctx.ok(rule, m, getattr(n, 'test', n), 'reader unit-order predicate %s' % sorted(a)) if len(sets) == 1 else None
    for (m, call, t) in rp.get('unguarded', []):
        ctx.fail(rule, m, enclosing_stmt(call), 'reader method %s calls the specialised loader %s without a test on the blockshape: '
                 'its address arithmetic assumes one layout and is used for every layout' % (m.name, t.name), line=call.lineno)
    if rp.get('unguarded'):
        return
    if len(rp['3d']) < 4 or len(rp['2d']) < 1:
        raise AnalysisError('reader dispatch sites on blockshape: found %d (3D) / %d (2D), floors 4 / 1' % (
            len(rp['3d']), len(rp['2d'])))
    want = {'3d': set(rp['3d'][0][0]), '2d': set(rp['2d'][0][0])}
    for pr in prods:
        dim = '2d' if pr.is_2d else '3d'
        if pr.switch is None:
            ctx.fail(rule, pr.func, pr.func.name, 'producer has no layout switch on blockshape: whole-stream vs per-block '
                     'emission cannot follow the reader')
            continue
        wa = pr.switch_atoms
        if want[dim] <= wa:
            ctx.ok(rule, pr.func, getattr(pr.switch, 'test', pr.switch), 'whole-stream emission under %s implies the reader predicate %s' % (
                sorted(wa), sorted(want[dim])))
        else:
            ctx.fail(rule, pr.func, getattr(pr.switch, 'test', pr.switch), 'the producer emits one unit-ordered stream per %s whenever %s, but the '
                     'reader addresses the file unit-ordered only when %s: for blockshapes in between the file is written '
                     'unit-ordered and read block-ordered' % ('trace group' if dim == '2d' else 'plane set',
                                                             ' and '.join('blockshape[%d] == %s' % x for x in sorted(wa)),
                                                             ' and '.join('blockshape[%d] == %s' % x for x in sorted(want[dim]))))
        if not pr.block_puts:
            ctx.fail(rule, pr.func, pr.switch, 'no per-block emission on the other branch of the layout switch')
    ctx.floor(rule, 6)


def rate_pair(ctx, rule):
    P, G = ctx.P, ctx.G
    from .. import headerrules as HR
    ht = getattr(ctx, 'ht', None) or HR.HeaderTable(P, G)
    rows = [r for r in ht.rows if TB.role_of_row(r) == ('RATE', None)]
    if not rows:
        raise AnalysisError('no bits-per-voxel row in the specification')
    row = rows[0]
    for s in ht.stores:
        if (s.lo, s.hi) != (row.lo, row.hi):
            continue
        f = s.func
        ft = TB.fmt_type(s.fmt)
        # definition(s) of the stored local, as (condition on the rate, value form) pairs
        name = U(s.value)
        defs = [n for n in ast.walk(f.node) if isinstance(n, ast.Assign) and U(n.targets[0]) == name]

        def form(e):
            """'NEGREC' for -int(1 / r), 'INT' for int(r); r = the rate variable"""
            if isinstance(e, ast.UnaryOp) and isinstance(e.op, ast.USub):
                c = e.operand
                if isinstance(c, ast.Call) and U(c.func) in ('int', 'round') and c.args and isinstance(c.args[0], ast.BinOp) and \
                        isinstance(c.args[0].op, ast.Div) and U(c.args[0].left) == '1':
                    return 'NEGREC', U(c.args[0].right)
            if isinstance(e, ast.Call) and U(e.func) == 'int' and e.args and isinstance(e.args[0], ast.Name):
                return 'INT', U(e.args[0])
            return None, None

        def below_one(t, var):
            """truth of `rate < 1` that the test expresses when it is true: True / False (negated) / None"""
            if isinstance(t, ast.Compare) and len(t.ops) == 1:
                l, op, r_ = U(t.left), t.ops[0], U(t.comparators[0])
                if l == var and r_ == '1':
                    return True if isinstance(op, ast.Lt) else (False if isinstance(op, ast.GtE) else None)
                if r_ == var and l == '1':
                    return True if isinstance(op, ast.Gt) else (False if isinstance(op, ast.LtE) else None)
            return None
        cases = {}
        for d in defs:
            v = d.value
            if isinstance(v, ast.IfExp):
                for br, sense in ((v.body, True), (v.orelse, False)):
                    fm_, var = form(br)
                    b1 = below_one(v.test, var) if var else None
                    if fm_ and b1 is not None:
                        cases[b1 if sense else (not b1)] = fm_
            else:
                fm_, var = form(v)
                g = parent(d)
                if fm_ and isinstance(g, ast.If):
                    b1 = below_one(g.test, var)
                    if b1 is not None:
                        cases[b1 if d in g.body else (not b1)] = fm_
        ok = ft is not None and ft[1] == 'int' and cases.get(True) == 'NEGREC' and cases.get(False) == 'INT'
        if ok:
            ctx.ok(rule, f, s.stmt, 'writer stores -int(1/bpv) iff bpv < 1, with a signed codec')
        else:
            ctx.fail(rule, f, s.stmt, 'the stored bit rate is not `-int(1/bpv) if bpv < 1 else int(bpv)` with a signed codec')
    seen_funcs = set()
    for s in ht.loads:
        if (s.lo, s.hi) != (row.lo, row.hi):
            continue
        f = s.func
        ft = TB.fmt_type(s.fmt)
        p = parent(s.value)
        name = U(p.targets[0]) if isinstance(p, ast.Assign) else None
        if name is None or f.qualname in seen_funcs or sum(1 for l_ in ht.loads if l_.func is f and (l_.lo, l_.hi) == (row.lo, row.hi)) > 1:
            # the decoded value is used in place (no local): `if dec(..) < 0: r = 1 / -dec(..)  else: r = dec(..)` - the same
            # signed decode in the test and in both arms
            if f.qualname in seen_funcs:
                continue
            seen_funcs.add(f.qualname)
            dtxt = U(s.value)
            okk = False
            for n_ in ast.walk(f.node):
                if isinstance(n_, ast.If) and isinstance(n_.test, ast.Compare) and len(n_.test.ops) == 1 and \
                        isinstance(n_.test.ops[0], ast.Lt) and U(n_.test.left) == dtxt and U(n_.test.comparators[0]) == '0' and \
                        len(n_.body) == 1 and len(n_.orelse) == 1 and isinstance(n_.body[0], ast.Assign) and \
                        isinstance(n_.orelse[0], ast.Assign) and U(n_.body[0].targets[0]) == U(n_.orelse[0].targets[0]) and \
                        U(n_.body[0].value).replace(' ', '') == ('1/-%s' % dtxt).replace(' ', '') and U(n_.orelse[0].value) == dtxt:
                    okk = True
            if okk and ft is not None and ft[1] == 'int':
                ctx.ok(rule, f, s.stmt, 'reader decodes signed and inverts iff the stored value is negative')
            else:
                ctx.fail(rule, f, s.stmt, 'the reader does not decode the bit rate as `1 / -x if x < 0` from a signed field')
            continue
        inv = [n for n in ast.walk(f.node) if isinstance(n, ast.If) and isinstance(n.test, ast.Compare) and
               U(n.test.left) == name and isinstance(n.test.ops[0], ast.Lt) and U(n.test.comparators[0]) == '0']
        ok = ft is not None and ft[1] == 'int' and name is not None and len(inv) == 1 and \
            any(isinstance(b, ast.Assign) and U(b.targets[0]) == name and U(b.value).replace(' ', '') == '1/-%s' % name
                for b in inv[0].body)
        if ok:
            ctx.ok(rule, f, s.stmt, 'reader decodes signed and inverts iff the stored value is negative')
        else:
            ctx.fail(rule, f, s.stmt, 'the reader does not decode the bit rate as `1 / -x if x < 0` from a signed field')
    # compressor receives the value that make_header encodes
    pl, prods = PR.producers(P, G)
    ce = pl.compress_edges[0]
    comp_calls = [c for c in PR.calls_in(pl.compressor.node) if U(c.func).endswith('compress_numpy')]
    kw = {k.arg: U(k.value) for k in comp_calls[0].keywords}
    rate_param = kw.get('rate')
    bound = U(ce.binding.get(rate_param)) if rate_param in ce.binding else None
    hdr_bind = []
    for e in G.callees(pl.main):
        if e.target is not None and 'make_header' in e.target.name and 'bits_per_voxel' in e.binding:
            hdr_bind.append(U(e.binding['bits_per_voxel']))
    if rate_param and bound and hdr_bind and all(h == bound for h in hdr_bind):
        ctx.ok(rule, pl.main, ce.call, 'compress_numpy(rate=...) and make_header receive the same unencoded `%s`' % bound)
    else:
        ctx.fail(rule, pl.main, ce.call, 'the compressor rate (%s <- %s) is not the value handed to the header writer (%s)' % (
            rate_param, bound, hdr_bind))
    ctx.floor(rule, 3)


def before_open(ctx, rule, entry):
    P, G = ctx.P, ctx.G
    names = {f.name for f in entry}
    n = 0
    for f in P.functions.values():
        if f.name != 'run' or f.cls is None:
            continue
        opens = [c for c in PR.calls_in(f.node) if U(c.func) == 'open' and len(c.args) > 1 and
                 isinstance(c.args[1], ast.Constant) and 'w' in str(c.args[1].value)]
        if not opens:
            continue
        fm = FactMap(f.node)
        for c in opens:
            n += 1
            paths = fm.paths_at(c)
            ok = paths and all(any(a[0] == 'called' and a[1].split('.')[-1] in names for a in p) for p in paths)
            if ok:
                ctx.ok(rule, f, c, 'the setting is resolved on every path before the output is created')
            else:
                ctx.fail(rule, f, enclosing_stmt(c), 'the output file is opened for writing before (bits_per_voxel, blockshape) '
                         'are resolved: a rejected setting leaves an empty output behind', line=c.lineno)
    if n < 2:
        raise AnalysisError('expected two converter run() methods opening an output, found %d' % n)


# ---------------------------------------------------------------------------
# C19.9  rates the codec cannot produce are rejected
# ---------------------------------------------------------------------------

class _Unknown(Exception):
    pass


def _guard_value(e, env):
    """value of a pure guard expression over the rate, the 2D flag and constants (abstract evaluation of the syntax
    tree over a finite grid of rates; anything else is _Unknown)"""
    from fractions import Fraction
    if isinstance(e, ast.Constant):
        if isinstance(e.value, bool) or e.value is None:
            return e.value
        if isinstance(e.value, int):
            return Fraction(e.value)
        if isinstance(e.value, float):
            return Fraction(e.value)
        raise _Unknown()
    if isinstance(e, ast.Name):
        if e.id in env:
            return env[e.id]
        raise _Unknown()
    if isinstance(e, ast.UnaryOp):
        v = _guard_value(e.operand, env)
        if isinstance(e.op, ast.Not):
            return not v
        if isinstance(e.op, ast.USub):
            return -v
        raise _Unknown()
    if isinstance(e, ast.BinOp):
        a, b = _guard_value(e.left, env), _guard_value(e.right, env)
        if isinstance(a, bool) or isinstance(b, bool) or a is None or b is None:
            raise _Unknown()
        if isinstance(e.op, ast.Add):
            return a + b
        if isinstance(e.op, ast.Sub):
            return a - b
        if isinstance(e.op, ast.Mult):
            return a * b
        if isinstance(e.op, ast.Div) and b != 0:
            return a / b
        if isinstance(e.op, ast.FloorDiv) and b != 0:
            return Fraction(a // b)
        if isinstance(e.op, ast.Pow) and b.denominator == 1 and abs(b) <= 16:
            return a ** int(b)
        if isinstance(e.op, ast.LShift) and a.denominator == 1 and b.denominator == 1 and 0 <= b <= 32:
            return Fraction(int(a) << int(b))
        raise _Unknown()
    if isinstance(e, ast.IfExp):
        return _guard_value(e.body if _guard_value(e.test, env) else e.orelse, env)
    if isinstance(e, ast.BoolOp):
        if isinstance(e.op, ast.And):
            for v in e.values:
                if not _guard_value(v, env):
                    return False
            return True
        for v in e.values:
            if _guard_value(v, env):
                return True
        return False
    if isinstance(e, ast.Compare):
        l = _guard_value(e.left, env)
        for op, c in zip(e.ops, e.comparators):
            if isinstance(op, (ast.In, ast.NotIn)) and isinstance(c, (ast.Tuple, ast.List, ast.Set)):
                vals = [_guard_value(x, env) for x in c.elts]
                ok = l in vals
                ok = ok if isinstance(op, ast.In) else not ok
                r = l
            else:
                r = _guard_value(c, env)
                if isinstance(op, ast.Eq):
                    ok = l == r
                elif isinstance(op, ast.NotEq):
                    ok = l != r
                elif isinstance(op, ast.Lt):
                    ok = l < r
                elif isinstance(op, ast.LtE):
                    ok = l <= r
                elif isinstance(op, ast.Gt):
                    ok = l > r
                elif isinstance(op, ast.GtE):
                    ok = l >= r
                else:
                    raise _Unknown()
            if not ok:
                return False
            l = r
        return True
    if isinstance(e, ast.Call) and isinstance(e.func, ast.Name) and e.func.id in ('float', 'min', 'max', 'abs') and not e.keywords:
        vs = [_guard_value(a, env) for a in e.args]
        if e.func.id == 'float' and len(vs) == 1:
            return vs[0]
        if e.func.id == 'abs' and len(vs) == 1:
            return abs(vs[0])
        if e.func.id in ('min', 'max') and vs:
            return min(vs) if e.func.id == 'min' else max(vs)
    raise _Unknown()


def codec_floor(ctx, rule):
    """ZFP spends at least 9 bits (sign + 8 exponent bits of float32) on every block of 4^d values: a fixed rate below
    9/16 bit per sample (2D) or 9/64 (3D) does not exist, the stream the codec returns is longer than rate*samples/8 and
    the library's own buffer is overrun (the conversion dies inside zfpy, or worse).  Such a rate must be rejected by the
    resolver, on every path, in the mode (2D / 3D) it is called in; a rate the codec supports must not be."""
    from fractions import Fraction
    P, G = ctx.P, ctx.G
    ctx.rule(rule, 'the resolver rejects every rate below the codec minimum of 9 bits per 4^d block, per dimensionality, and no supported one')
    entry, cores = resolver(P, G)
    n = 0
    for f in cores:
        flags = [p for p in f.params if isinstance(f.defaults.get(p), ast.Constant) and f.defaults[p].value is False]
        if len(flags) != 1:
            raise AnalysisError('%s: expected exactly one 2D switch parameter defaulting to False, found %r' % (f.qualname, flags))
        flag = flags[0]
        rate_name = 'bits_per_voxel'
        consts = {}
        for nm in {x.id for x in ast.walk(f.node) if isinstance(x, ast.Name)}:
            v = P.const_value(f.module, nm)
            if isinstance(v, int) and not isinstance(v, bool):
                consts[nm] = Fraction(v)
        for is2d in (True, False):
            d = 2 if is2d else 3
            fm = FactMap(f.node, assume=[('T', flag)] if is2d else [('F', flag)])
            rets = [(k, s, facts) for (k, s, facts) in fm.exits if k == 'return']
            if not rets:
                raise AnalysisError('%s has no return in %dD mode' % (f.qualname, d))
            grid = [Fraction(1, 2 ** k) for k in range(1, 9)] + [Fraction(2 ** k) for k in range(0, 6)]
            for (k, s, facts) in rets:
                guards, opaque = [], []
                for a in facts:
                    if a[0] in ('==', '!=', '<', '<=', '>', '>='):
                        txt = '(%s) %s (%s)' % (a[1], a[0], a[2])
                    elif a[0] == 'T':
                        txt = str(a[1])
                    elif a[0] == 'F':
                        txt = 'not (%s)' % a[1]
                    else:
                        continue
                    if rate_name not in txt and 'blockshape' not in txt:
                        continue
                    try:
                        e = ast.parse(txt, mode='eval').body
                    except SyntaxError:
                        continue
                    try:
                        _guard_value(e, dict(consts, **{rate_name: Fraction(1), flag: is2d}))
                        guards.append((txt, e))
                    except _Unknown:
                        # an upper bound on the block volume bounds the rate from below through the product equality
                        small = a[1] if a[0] in ('<', '<=') else (a[2] if a[0] in ('>', '>=') else None)
                        if small is not None and 'blockshape' in str(small):
                            try:
                                se = ast.parse(str(small), mode='eval').body
                            except SyntaxError:
                                se = None
                            if se is not None and not any(isinstance(x, (ast.Call, ast.GeneratorExp, ast.ListComp))
                                                          for x in ast.walk(se)):
                                opaque.append(txt)
                for r in grid:
                    n += 1
                    env = dict(consts, **{rate_name: r, flag: is2d})
                    rejecting = [txt for txt, e in guards if not _guard_value(e, env)]
                    feasible = r * 4 ** d >= 9
                    label = '%dD, rate %s, return at line %d' % (d, r, s.lineno)
                    if not feasible and not rejecting:
                        if opaque:
                            raise AnalysisError('%s: cannot decide whether `%s` rejects the rate %s in %dD' % (
                                f.qualname, opaque[0][:80], r, d))
                        ctx.fail(rule, f, s, 'the resolver returns the rate %s for a %dD conversion: ZFP cannot encode a block '
                                 'of %d float32 values in %s bits (minimum 9), the compressed stream is longer than the '
                                 'rate says and zfpy overruns its buffer - the setting is neither rejected nor does it '
                                 'yield a file' % (r, d, 4 ** d, r * 4 ** d), key_extra='floor|%dD' % d)
                        break
                    elif feasible and rejecting:
                        ctx.fail(rule, f, s, 'the resolver rejects the rate %s for a %dD conversion (%s), which the codec '
                                 'supports (%s bits per block)' % (r, d, rejecting[0][:80], r * 4 ** d), key_extra='over|%dD' % d)
                        break
                    else:
                        ctx.ok(rule, f, label, 'rate %s in %dD: %s' % (r, d, 'rejected by `%s`' % rejecting[0][:60] if rejecting
                                                                       else 'accepted (>= 9 bits per block)'))
    ctx.floor(rule, 20, '(mode, rate, return) triples')
